"""C17  Upstream servers are only asked for what they are configured to support.

Model: coq/theories/Upstream.v (WMSSource.get_map/_get_map/_get_sub_query/_get_transformed, PreferredSrcSRS,
format choice, ResolutionRange.contains, coverage gates, WMSClient._query_req + URL parameters, TiledSource.get_map
on Grid.v), theorems: coq/props/P_C17.v.
Tie: sources are built by the real configuration loader from generated YAML files; every HTTP request is recorded
by a replaced mapproxy.client.http.HTTPClient.open (which then aborts the call: nothing after the request matters
here).  PROJ is kept, but `transform_bbox_to` is wrapped so that its results lie on the 1/1024 lattice and every
call is recorded: the recorded table is the function T of the model (T is a section variable of the theorems).
Each (source, query) pair is evaluated by the model inside Coq (vm_compute) and compared with what was observed:
no request (BlankImage), the complete parameter set of the URL, or the kind of exception.
Streams: single sources; two sources of one upstream requested together (service.wms.combined_layers + get_map of every
resulting layer, model: compatible / combined / render_pair; three sources in varying order: render_list); interleaved requests (a second request is run while the
first is inside the transformation of the extent: get_map must be a function of source and query only); polygon
coverages (difference / union / intersection of bbox coverages loaded by the real loader -> GeomCoverage; shapely's
intersects / contains answers are recorded and are the functions GI / GC of the model; the oracle decides disjointness
exactly on the rectilinear shape).
Oracle: the statement of C17 evaluated directly on the recorded URLs and the YAML values.
"""
from fractions import Fraction
import json
import math
import os
import re
from urllib.parse import urlsplit, parse_qsl

from common import zlit, blit, llit, olit, VERIF

ID = 'C17'
TECHNIQUE = ('Coq proof over an executable model of the upstream request construction + correspondence of the model with '
             'WMSSource/TiledSource built by the real configuration loader (recording HTTP client); WMSSource._is_compatible is regenerated from the source by the ast translator (Gen_compat.v) and proved equal to the model')
LEVEL_TEXT = ('Theorems for every WMS source configuration (supported_srs, preferred_src_proj, supported_formats, bbox coverage, '
              'resolution range, forward_req_params, request template) and every query (bbox, size, SRS, format, dimensions), '
              'for an arbitrary PROJ function T: SRS and format of the request come from the configured lists, the bbox lies in the '
              'coverage extent, only configured dimensions are merged into the URL, nothing is requested outside coverage or '
              'resolution range; for every tile source and grid: the requested tile satisfies limit_tile of the source grid.')
LEVEL_NOTE = ('Trusted: Coq kernel, hand-written model Upstream.v (+ Grid.v), the correspondence harness.  PROJ is abstract (T); '
              'float rounding is not modelled: inputs lie on a 1/1024 lattice where the arithmetic of the modelled functions is exact, '
              'cases whose outcome depends on rounding are counted and skipped.  Polygon coverages are abstract predicates (GI, GC) '
              'with the hypothesis that the bounds of a geometry contain what the geometry contains.  '
              'POST requests, ArcGIS/Mapnik sources, GetFeatureInfo/legend requests are not modelled.')
DESIGN_REF = 'DESIGN.md section 5, C17'
RULE = ('case = (source configuration from generated YAML, query); non-trivial = a case where a gate, negotiation or clipping branch '
        'is taken (blank, transformed, sub-query, alias code, forwarded dimension, tile error) or a request is sent; distinct by '
        '(configuration values, query)')
TRUSTED = ['model Upstream.v hand-written from mapproxy/source/wms.py, source/tile.py, srs.py, client/wms.py, layer.py; '
           'tie = differential run of the real sources vs the model (vm_compute)',
           'PROJ results rounded to the 1/1024 lattice by the harness (T is abstract in the theorems)',
           'strings are identifiers: extension of a mime type, lower-casing and srs_code equality are computed by the harness']
ASSUMPTIONS = ['coverage is a bbox coverage or a single polygon coverage (no MultiCoverage); shapely predicates abstract', 'WMS 1.1.1 and 1.3.0 GET requests (axis order of a CRS = pyproj axis_info)', 'query size > 0 and non-empty bbox',
               'PROJ returns a non-degenerate bbox for a non-degenerate bbox']
EXPLANATION = ('request construction proved over the model for all configurations and queries; implementation compared on generated '
               'configurations loaded by the real loader')

S = 1024          # lattice of the WMS stream: coordinates are multiples of 1/S
LIM = 2.0 ** 28


class Stop(BaseException):
    pass


# ----------------------------------------------------------------------------- string identifiers

class Strs:
    FIXED = {'bbox': 1, 'width': 2, 'height': 3, 'srs': 4, 'format': 5, 'styles': 6, '': 7, 'crs': 8}

    def __init__(self):
        self.ids = dict(self.FIXED)
        self.next = 100

    def id(self, s):
        s = str(s)
        if s not in self.ids:
            self.ids[s] = self.next
            self.next += 1
        return self.ids[s]

    def known(self, s):
        return s in self.ids


def ext_of(s):
    """independent re-statement of ImageFormat.ext / split_mime_type()[1]"""
    e = s
    if '/' in e:
        e = e.split('/', 1)[1]
    if ';' in e:
        e = e.split(';', 1)[0]
    return e.strip()


def mime_of(s):
    return s if '/' in s else 'image/' + s


# ----------------------------------------------------------------------------- patches

class Patches:
    def __init__(self):
        self.urls = []
        self.tcalls = []
        self.gcalls = []
        self.recording = False
        self.hook = None
        self.hook_from = None

    def install(self):
        import mapproxy.client.http as H
        import mapproxy.srs as M
        self.H, self.M = H, M
        self.cls = M._srs_impl
        self.orig_open = H.HTTPClient.open
        self.orig_tb = self.cls.transform_bbox_to
        me = self

        def fake_open(self_, url, data=None, method=None):
            me.urls.append((url, data))
            raise Stop()

        def tb(self_, other, bbox, with_points=16):
            key = (self_.srs_code, other.srs_code, tuple(float(v) for v in bbox))
            if me.hook is not None and not (self_ == other) and self_.srs_code == me.hook_from:
                h, me.hook = me.hook, None
                h()      # another request runs "concurrently", at this point of the outer one
            try:
                r = me.orig_tb(self_, other, bbox, with_points)
                r = tuple(float(v) for v in r)
                if not all(math.isfinite(v) and abs(v) < LIM for v in r):
                    raise M.TransformationError()
                if not (self_ == other):
                    r = tuple(round(v * S) / S for v in r)
            except M.TransformationError:
                if me.recording:
                    me.tcalls.append((key, None))
                raise
            except Exception:
                if me.recording:
                    me.tcalls.append((key, None))
                raise M.TransformationError()
            if me.recording:
                me.tcalls.append((key, r))
            return r

        H.HTTPClient.open = fake_open
        self.cls.transform_bbox_to = tb
        import mapproxy.util.coverage as C
        self.C = C
        self.orig_gi, self.orig_gc = C.GeomCoverage.intersects, C.GeomCoverage.contains

        def rec_geom(kind, orig):
            def f(self_, bbox, srs):
                res = orig(self_, bbox, srs)
                if me.recording and len(bbox) == 4:
                    b = bbox if not (srs != self_.srs) else srs.transform_bbox_to(self_.srs, bbox)
                    me.gcalls.append((kind, getattr(self_, '_verif_gid', -1), tuple(float(v) for v in b), bool(res)))
                return res
            return f
        C.GeomCoverage.intersects = rec_geom('i', self.orig_gi)
        C.GeomCoverage.contains = rec_geom('c', self.orig_gc)

    def remove(self):
        self.H.HTTPClient.open = self.orig_open
        self.cls.transform_bbox_to = self.orig_tb
        self.C.GeomCoverage.intersects, self.C.GeomCoverage.contains = self.orig_gi, self.orig_gc


# ----------------------------------------------------------------------------- SRS knowledge (read from the real objects)

SRS_CODES = ['EPSG:4326', 'CRS:84', 'EPSG:4258', 'EPSG:3857', 'EPSG:900913', 'EPSG:102113', 'EPSG:25832', 'EPSG:25833',
             'EPSG:31467', 'EPSG:3035']
GEO_AREA = (3.0, 44.0, 17.0, 56.0)   # lon/lat window in which all of the above are well defined


class SrsInfo:
    def __init__(self, strs):
        from mapproxy.srs import SRS
        self.strs = strs
        self.obj = {c: SRS(c) for c in SRS_CODES}
        classes = {}
        self.cls = {}
        self.latlong = {}
        for c, o in self.obj.items():
            self.cls[c] = classes.setdefault(o.proj.srs, len(classes) + 1)
            self.latlong[c] = bool(o.is_latlong)
        # axis order of the CRS definition, read from pyproj directly (not from mapproxy's is_axis_order_ne)
        from pyproj import CRS
        self.ne = {}
        for c in SRS_CODES:
            if c == 'CRS:84':
                self.ne[c] = False
            else:
                n = 3857 if c in ('EPSG:900913', 'EPSG:3857', 'EPSG:102100', 'EPSG:102113') else int(c.split(':')[1])
                self.ne[c] = CRS.from_epsg(n).axis_info[0].direction == 'north'

    def lit(self, code):
        return '(mkSrs %d %d %s)' % (self.strs.id(code), self.cls[code], blit(self.latlong[code]))

    def same(self, a, b):
        return self.cls[a] == self.cls[b]


def lat(v):
    return math.floor(v * S + 0.5) / S


def zb(b, scale=S):
    out = []
    for v in b:
        q = Fraction(v) * scale
        if q.denominator != 1:
            raise ValueError('off-lattice value %r' % (v,))
        out.append(int(q))
    return '(%s, %s, %s, %s)' % tuple(zlit(x) for x in out)


def on_lattice(vals, scale=S):
    return all(math.isfinite(v) and (Fraction(v) * scale).denominator == 1 for v in vals)


# ----------------------------------------------------------------------------- configuration generator

FMT_POOL = ['image/png', 'image/jpeg', 'image/gif', 'image/tiff', 'image/png; mode=8bit', 'png', 'jpeg', 'image/png8']
DIM_KEYS = ['time', 'TIME', 'Time', 'elevation', 'ELEVATION', 'dim_foo', 'DIM_FOO', 'Dim_Bar', 'foo', 'Foo', 'map']
RESERVED_KEYS = ['srs', 'SRS', 'format', 'FORMAT', 'bbox', 'WIDTH', 'height', 'layers', 'LAYERS', 'styles', 'request']
DIM_VALS = ['2020-01-01', '500m', 'x', 'EPSG:4326', 'image/gif', 'current', 'v 1', 'zero']


def geo_to(info, code, box):
    """bbox of the lon/lat window `box` in SRS `code` (generation only), lattice rounded."""
    o = info.obj['EPSG:4326']
    r = o.transform_bbox_to(info.obj[code], box)
    return tuple(lat(v) for v in r)


def sub_box(rng, box, lo=0.15, hi=0.9):
    x0, y0, x1, y1 = box
    w, h = x1 - x0, y1 - y0
    fw, fh = rng.uniform(lo, hi), rng.uniform(lo, hi)
    ox, oy = rng.uniform(0, 1 - fw), rng.uniform(0, 1 - fh)
    return (x0 + ox * w, y0 + oy * h, x0 + (ox + fw) * w, y0 + (oy + fh) * h)


def gen_coverage(rng, box, srs, snap):
    """bbox coverage or a rectilinear polygon coverage (difference / union / intersection of bbox coverages)."""
    x0, y0, x1, y1 = [snap(v) for v in box]
    w, h = x1 - x0, y1 - y0
    kind = rng.choice(['bbox', 'bbox', 'hole', 'corner', 'union', 'intersection'])
    A = [x0, y0, x1, y1]
    if kind == 'bbox' or w <= 0 or h <= 0:
        return {'bbox': A, 'srs': srs}
    if kind == 'hole':
        B = [snap(x0 + w * rng.uniform(0.1, 0.3)), snap(y0 + h * rng.uniform(0.1, 0.3)),
             snap(x0 + w * rng.uniform(0.6, 0.9)), snap(y0 + h * rng.uniform(0.6, 0.9))]
        return {'difference': [{'bbox': A, 'srs': srs}, {'bbox': B, 'srs': srs}]}
    if kind == 'corner':
        # cut the upper right part away, leaving an L shape with the same bounds
        B = [snap(x0 + w * rng.uniform(0.3, 0.6)), snap(y0 + h * rng.uniform(0.3, 0.6)), snap(x1 + w / 4), snap(y1 + h / 4)]
        return {'difference': [{'bbox': A, 'srs': srs}, {'bbox': B, 'srs': srs}]}
    if kind == 'union':
        P = [x0, y0, snap(x0 + w * 0.4), snap(y0 + h * 0.4)]
        Q = [snap(x0 + w * 0.6), snap(y0 + h * 0.6), x1, y1]
        return {'union': [{'bbox': P, 'srs': srs}, {'bbox': Q, 'srs': srs}]}
    P = [x0, y0, snap(x0 + w * 0.7), snap(y0 + h * 0.7)]
    Q = [snap(x0 + w * 0.3), snap(y0 + h * 0.3), x1, y1]
    parts = [{'bbox': P, 'srs': srs}, {'bbox': Q, 'srs': srs}]
    # a third member (no random draw): intersection_coverage must fold over ALL members, P & Q & R, not P & (Q | R)
    R = [snap(x0 + w * 0.5), y0, x1, y1]
    if R[0] < P[2] and Q[0] < R[0]:
        parts.append({'bbox': R, 'srs': srs})
    return {'intersection': parts}


def gen_res_range(rng, conf, grid_res):
    mode = rng.choice(['none', 'none', 'none', 'res', 'res', 'min', 'max', 'scale'])
    if mode == 'none':
        return
    if grid_res:
        # thresholds between / on the resolutions of the source grid
        a, b = sorted([rng.randrange(len(grid_res)), rng.randrange(len(grid_res))])
        hi = grid_res[a] * rng.choice([1, 1.5, 2, 1])
        lo = grid_res[b] * rng.choice([1, 0.75, 0.5, 1])
        if hi <= lo:
            hi = lo * 2
        if mode == 'scale':
            mode = 'res'
    else:
        lo = rng.choice([1, 2.5, 10, 25, 100])
        hi = lo * rng.choice([4, 10, 64, 1000])
    if mode == 'res':
        conf['min_res'] = hi
        conf['max_res'] = lo
    elif mode == 'min':
        conf['min_res'] = hi
    elif mode == 'max':
        conf['max_res'] = lo
    else:
        conf['max_scale'] = rng.choice([100000, 250000, 1000000])
        conf['min_scale'] = rng.choice([1000, 5000, 25000])


def gen_config(ctx, info, k):
    rng = ctx.rng
    conf = {'services': {'wms': {}}, 'layers': [], 'sources': {}, 'grids': {}, 'globals': {}}
    # global preferred_src_proj
    pref = {}
    if rng.random() < 0.7:
        for t in rng.sample(SRS_CODES, rng.randrange(1, 4)):
            pref[t] = rng.sample(SRS_CODES, rng.randrange(1, 4))
        conf['globals']['srs'] = {'preferred_src_proj': pref}
    nw = rng.randrange(2, 5)
    for i in range(nw):
        name = 'w%d_%d' % (k, i)
        req = {'url': 'http://up%d.example/service?' % i, 'layers': rng.choice(['a', 'a,b', 'roads'])}
        if rng.random() < 0.3:
            req['transparent'] = rng.choice([True, False])
        if rng.random() < 0.25:
            req['format'] = rng.choice(FMT_POOL[:5])
        if rng.random() < 0.25:
            req['map'] = '/srv/x.map'
        if rng.random() < 0.15:
            req['styles'] = 'default'
        s = {'type': 'wms', 'req': req}
        if rng.random() < 0.3:
            s['wms_opts'] = {'version': '1.3.0'}
        if rng.random() < 0.75:
            s['supported_srs'] = rng.sample(SRS_CODES, rng.randrange(1, 4))
        if rng.random() < 0.6:
            s['supported_formats'] = rng.sample(FMT_POOL[:5], rng.randrange(1, 3))
        if rng.random() < 0.65:
            csrs = rng.choice(SRS_CODES)
            box = geo_to(info, csrs, sub_box(rng, GEO_AREA, 0.3, 0.9))
            s['coverage'] = gen_coverage(rng, [float(v) for v in box], csrs, lat)
        gen_res_range(rng, s, None)
        if rng.random() < 0.7:
            names = rng.sample(DIM_KEYS, rng.randrange(1, 4))
            if rng.random() < 0.12:
                names.append(rng.choice(RESERVED_KEYS))
            s['forward_req_params'] = names
        conf['sources'][name] = s
        if rng.random() < 0.6:
            # a second source on the same upstream (requested together they may be combined into one request)
            import copy
            t = copy.deepcopy(s)
            t['req']['layers'] = rng.choice(['rivers', 'c', 'x,y'])
            if rng.random() < 0.45:
                what = rng.choice(['coverage', 'coverage', 'res', 'fwd', 'srs', 'srs', 'url', 'formats', 'nocov'])
                if what == 'coverage' and 'coverage' in t:
                    csrs = rng.choice(SRS_CODES)
                    t['coverage'] = gen_coverage(rng, [float(v) for v in geo_to(info, csrs, sub_box(rng, GEO_AREA, 0.3, 0.9))], csrs, lat)
                elif what == 'nocov':
                    t.pop('coverage', None)
                elif what == 'res':
                    for key in ('min_res', 'max_res', 'min_scale', 'max_scale'):
                        t.pop(key, None)
                    gen_res_range(rng, t, None)
                elif what == 'fwd':
                    t['forward_req_params'] = rng.sample(DIM_KEYS, rng.randrange(1, 4))
                elif what == 'srs':
                    old = list(s.get('supported_srs', []))
                    how = rng.choice(['prefix', 'extended', 'reversed', 'random', 'prefix', 'extended', 'alias', 'alias'])
                    if how == 'prefix' and len(old) >= 2:
                        t['supported_srs'] = old[:rng.randrange(1, len(old))]
                    elif how == 'extended' and old:
                        t['supported_srs'] = old + [rng.choice([c for c in SRS_CODES if c not in old])]
                    elif how == 'reversed' and len(old) >= 2:
                        t['supported_srs'] = old[::-1]
                    elif how == 'alias' and old:
                        # the same SRS spelled with other codes (EPSG:3857 / EPSG:900913, EPSG:4326 / CRS:84)
                        t['supported_srs'] = [rng.choice([c for c in SRS_CODES if info.same(c, o)]) for o in old]
                    else:
                        t['supported_srs'] = rng.sample(SRS_CODES, rng.randrange(1, 4))
                elif what == 'url':
                    t['req']['url'] = 'http://other%d.example/service?' % i
                elif what == 'formats':
                    t['supported_formats'] = rng.sample(FMT_POOL[:5], rng.randrange(1, 3))
            conf['sources'][name + 'b'] = t
            if rng.random() < 0.6:
                # a third source on the same upstream: copy of the first or of the second, sometimes another layer list only
                u = copy.deepcopy(rng.choice([s, t, t]))
                u['req']['layers'] = rng.choice(['lakes', 'd', 'p,q'])
                if rng.random() < 0.25:
                    u.pop('coverage', None)
                elif rng.random() < 0.2:
                    for key in ('min_res', 'max_res', 'min_scale', 'max_scale'):
                        u.pop(key, None)
                    gen_res_range(rng, u, None)
                conf['sources'][name + 'c'] = u
    nt = rng.randrange(1, 3)
    for i in range(nt):
        gname = 'g%d_%d' % (k, i)
        gsrs = rng.choice(['EPSG:3857', 'EPSG:25832', 'EPSG:900913', 'EPSG:31467'])
        tsz = rng.choice([256, 256, 128, 512, 64])
        mode = rng.choice(['pyramid', 'custom'])
        if mode == 'pyramid':
            base = 5 * rng.choice([1, 2, 3, 8])
            n = rng.randrange(1, 7)
            res = [base * 2 ** (n - 1 - j) for j in range(n)]
        else:
            res = sorted({5 * rng.randrange(1, 400) for _ in range(rng.randrange(1, 6))}, reverse=True)
        x0 = rng.randrange(200000, 600000)
        y0 = rng.randrange(5200000, 5900000)
        span = res[0] * tsz
        w = rng.choice([span, 2 * span, 3 * span + rng.randrange(1, 50), span + res[-1] * rng.randrange(1, 3 * tsz), 5 * span + 1])
        h = rng.choice([span, 2 * span, 3 * span + rng.randrange(1, 50), span + res[-1] * rng.randrange(1, 3 * tsz), 5 * span + 1])
        g = {'srs': gsrs, 'bbox': [x0, y0, x0 + w, y0 + h], 'res': res, 'tile_size': [tsz, tsz],
             'origin': rng.choice(['ll', 'ul', 'nw', 'sw'])}
        if rng.random() < 0.4:
            g['stretch_factor'] = rng.choice([1.125, 1.25, 1.5, 1.0])
        if rng.random() < 0.3:
            g['max_shrink_factor'] = rng.choice([2.0, 1.5, 4.0])
        conf['grids'][gname] = g
        name = 't%d_%d' % (k, i)
        s = {'type': 'tile', 'grid': gname, 'url': 'http://tiles%d.example/%s/%%(z)s/%%(x)s/%%(y)s.png' % (i, name)}
        if rng.random() < 0.5:
            csrs = rng.choice([gsrs, gsrs, 'EPSG:4326', 'EPSG:3857'])
            if csrs == gsrs and rng.random() < 0.4:
                # a block of tiles of one level: the edges of the coverage lie exactly on tile borders
                l = rng.randrange(len(res))
                span_l = res[l] * tsz
                nx_, ny_ = max(1, int(w // span_l)), max(1, int(h // span_l))
                i0, j0 = rng.randrange(0, nx_), rng.randrange(0, ny_)
                i1, j1 = rng.randrange(i0 + 1, nx_ + 1), rng.randrange(j0 + 1, ny_ + 1)
                if g['origin'] in ('ul', 'nw'):
                    box = (x0 + i0 * span_l, y0 + h - j1 * span_l, x0 + i1 * span_l, y0 + h - j0 * span_l)
                else:
                    box = (x0 + i0 * span_l, y0 + j0 * span_l, x0 + i1 * span_l, y0 + j1 * span_l)
                s['coverage'] = {'bbox': [float(v) for v in box], 'srs': csrs}
                gen_res_range(rng, s, res)
                conf['sources'][name] = s
                continue
            if csrs == gsrs or info.same(csrs, gsrs):
                box = tuple(lat(v) for v in sub_box(rng, g['bbox'], 0.2, 1.0))
            else:
                gb = info.obj[gsrs].transform_bbox_to(info.obj[csrs], g['bbox'])
                box = tuple(lat(v) for v in sub_box(rng, gb, 0.2, 1.0))
            s['coverage'] = gen_coverage(rng, [float(v) for v in box], csrs, lat)
        gen_res_range(rng, s, res)
        conf['sources'][name] = s
    conf['layers'] = [{'name': 'l_' + n, 'title': n, 'sources': [n]} for n in conf['sources'] if n.startswith('w')]
    return conf


# ----------------------------------------------------------------------------- model terms of a configuration

def rr_values(sconf):
    """(min_res, max_res) as the loader computes them (independent re-statement)."""
    if 'min_res' in sconf or 'max_res' in sconf:
        return sconf.get('min_res'), sconf.get('max_res')
    if 'min_scale' in sconf or 'max_scale' in sconf:
        return sconf['max_scale'] * 0.00028, sconf['min_scale'] * 0.00028
    return None, None


def rr_lit(sconf, scale):
    mn, mx = rr_values(sconf)
    if not mn and not mx:
        return 'None', None
    lo = hi = None
    if mn:
        lo = Fraction(float(mn) + 1e-6)
    if mx:
        hi = Fraction(float(mx))

    def q(f):
        if f is None:
            return 'None'
        f = f * scale
        return '(Some (%s, %s))' % (zlit(f.numerator), zlit(f.denominator))
    return '(Some (mkRR %s %s))' % (q(lo), q(hi)), (lo, hi)


DEG_C = Fraction(6378137 * 2 * math.pi) / 360   # exact value of the double constant used by deg_to_m


def exact_res(bbox, size, latlong):
    w = Fraction(bbox[2]) - Fraction(bbox[0])
    h = Fraction(bbox[3]) - Fraction(bbox[1])
    if latlong:
        w, h = w * DEG_C, h * DEG_C
    return w / size[0], h / size[1]


def rr_verdict(thr, bbox, size, latlong):
    """exact verdict of the resolution gate: (contains?, float-sensitive?)"""
    lo, hi = thr
    xr, yr = exact_res(bbox, size, latlong)
    near = False
    inside = True
    for r in (xr, yr):
        for t in (lo, hi):
            if t is not None:
                d = abs(r - t)
                if (d != 0 and d <= t / 10 ** 9) or (d == 0 and latlong):
                    near = True
    if lo is not None and (lo <= xr or lo <= yr):
        inside = False
    if hi is not None and (hi > xr or hi > yr):
        inside = False
    return inside, near


GEOMS = {}


def box_and(a, b):
    return (max(a[0], b[0]), max(a[1], b[1]), min(a[2], b[2]), min(a[3], b[3]))


def cov_norm(sconf):
    """coverage of a source configuration: None or {'bbox', 'srs', 'shape', 'gid'}; shape None = bbox coverage, else
    {'pos': [boxes], 'neg': [boxes]} = union(pos) minus union(neg) (independent of shapely)."""
    c = sconf.get('coverage')
    if not c:
        return None
    if 'bbox' in c:
        return {'bbox': [float(v) for v in c['bbox']], 'srs': c['srs'], 'shape': None, 'gid': None}
    kind = [k for k in ('difference', 'union', 'intersection') if k in c][0]
    parts = c[kind]
    boxes = [tuple(float(v) for v in x['bbox']) for x in parts]
    srs = parts[0]['srs']
    if kind == 'difference':
        shape = {'pos': [boxes[0]], 'neg': boxes[1:]}
        bounds = boxes[0]          # the generator only cuts holes / corners that leave the bounds unchanged
    elif kind == 'union':
        shape = {'pos': boxes, 'neg': []}
        bounds = (min(b[0] for b in boxes), min(b[1] for b in boxes), max(b[2] for b in boxes), max(b[3] for b in boxes))
    else:
        bounds = boxes[0]
        for b in boxes[1:]:
            bounds = box_and(bounds, b)
        shape = {'pos': [bounds], 'neg': []}
    key = json.dumps(c, sort_keys=True)
    gid = GEOMS.setdefault(key, len(GEOMS) + 1)
    return {'bbox': [float(v) for v in bounds], 'srs': srs, 'shape': shape, 'gid': gid}


def cov_clearly_outside(cov, qb):
    """exact (rectilinear) test that the closed rectangle qb is disjoint from the coverage."""
    if cov['shape'] is None:
        return not intersects(cov['bbox'], qb)
    for pbox in cov['shape']['pos']:
        r = box_and(pbox, qb)
        if r[0] > r[2] or r[1] > r[3]:
            continue
        if any(n[0] < r[0] and r[2] < n[2] and n[1] < r[1] and r[3] < n[3] for n in cov['shape']['neg']):
            continue
        return False
    return True


def gtable_lit(gcalls, kind, scale=S):
    seen, items = set(), []
    for k, gid, b, res in gcalls:
        if k != kind or (gid, b) in seen:
            continue
        seen.add((gid, b))
        if not on_lattice(b, scale):
            return None
        items.append('(%d, %s, %s)' % (gid, zb(b, scale), blit(res)))
    return '[' + '; '.join(items) + ']'


def fmt_lit(strs, s, typed):
    return '(mkFmt %d %d %s %d)' % (strs.id(s), strs.id(ext_of(s)), blit(typed), strs.id(mime_of(s)))


def cov_lit(info, sconf, scale):
    c = cov_norm(sconf)
    if not c:
        return 'None None'
    return '(Some (%s, %s)) %s' % (zb(c['bbox'], scale), info.lit(c['srs']), olit(c['gid']))


class WmsSrc:
    def __init__(self, name, sconf, conf, info, strs, src, params):
        self.name, self.sconf, self.src = name, sconf, src
        self.pref = (conf['globals'].get('srs') or {}).get('preferred_src_proj') or {}
        self.supported = list(sconf.get('supported_srs', []))
        self.formats = list(sconf.get('supported_formats', []))
        self.fwd = list(sconf.get('forward_req_params', []))
        self.cov = cov_norm(sconf)
        self.v130 = str((sconf.get('wms_opts') or {}).get('version', '1.1.1')) == '1.3.0'
        imgfmt = sconf['req'].get('format') or params.get('format')
        self.imgfmt = imgfmt
        self.rr_lit, self.thr = rr_lit(sconf, S)
        pref_lit = llit(list(self.pref.items()), lambda kv: '(%s, %s)' % (info.lit(kv[0]), llit(kv[1], info.lit)))
        fm = llit(self.formats, lambda f: fmt_lit(strs, ext_of(f), False))
        self.term = '(mkWms %s %s %s %s %s %s %s)' % (
            llit(self.supported, info.lit), pref_lit, fm,
            ('(Some %s)' % fmt_lit(strs, imgfmt, True)) if imgfmt else 'None',
            cov_lit(info, sconf, S), self.rr_lit,
            llit(sorted({strs.id(n.lower()) for n in self.fwd})))
        # request template as the real object holds it (key lower-cased -> values)
        tmpl = []
        t = src.client.request_template
        for key, values in t.params.params.iteritems():
            tmpl.append((strs.id(key.lower()), [strs.id(v) for v in values]))
        self.tmpl_keys = {key.lower() for key, _ in t.params.params.iteritems()}
        self.tmpl_term = llit(tmpl, lambda kv: '(%d, %s)' % (kv[0], llit(kv[1], lambda v: 'VStr %d' % v)))
        self.fixed = dict(t.fixed_params)
        self.fixed_term = llit(list(self.fixed.items()), lambda kv: '(%d, %d)' % (strs.id(kv[0].lower()), strs.id(kv[1])))

    def defs(self):
        return ('Definition %s : wms_source := %s.\nDefinition %s_t : params := %s.\nDefinition %s_f : list (Z * Z) := %s.'
                % (self.name, self.term, self.name, self.tmpl_term, self.name, self.fixed_term))


# ----------------------------------------------------------------------------- queries

def gen_wms_queries(ctx, info, ws, n):
    rng = ctx.rng
    out = []
    for _ in range(n):
        # SRS of the query
        r = rng.random()
        if ws.supported and r < 0.4:
            code = rng.choice(ws.supported)
        elif ws.supported and r < 0.6:
            base = rng.choice(ws.supported)
            al = [c for c in SRS_CODES if info.same(c, base)]
            code = rng.choice(al)
        else:
            code = rng.choice(SRS_CODES)
        # region
        if ws.cov and rng.random() < 0.8:
            cb, cs = ws.cov['bbox'], ws.cov['srs']
            try:
                cq = tuple(info.obj[cs].transform_bbox_to(info.obj[code], cb))
            except Exception:
                cq = geo_to(info, code, GEO_AREA)
            x0, y0, x1, y1 = cq
            w, h = x1 - x0, y1 - y0
            kind = rng.choice(['inside', 'inside', 'overlap', 'overlap', 'contains', 'outside', 'touch', 'equal', 'corner'])
            if ws.cov['shape'] and ws.cov['shape']['neg'] and rng.random() < 0.35:
                kind = 'inhole'
            if kind == 'inhole':
                nb = ws.cov['shape']['neg'][0]
                nb = box_and(nb, cb)
                try:
                    nq = tuple(info.obj[cs].transform_bbox_to(info.obj[code], nb))
                except Exception:
                    nq = cq
                region = sub_box(rng, nq, 0.1, 0.6)
            elif kind == 'inside':
                region = sub_box(rng, cq, 0.05, 0.8)
            elif kind == 'overlap':
                dx, dy = rng.choice([-1, 0, 1]) * rng.uniform(0.2, 0.9) * w, rng.choice([-1, 0, 1]) * rng.uniform(0.2, 0.9) * h
                region = (x0 + dx, y0 + dy, x1 + dx, y1 + dy)
            elif kind == 'contains':
                region = (x0 - 0.3 * w, y0 - 0.2 * h, x1 + 0.1 * w, y1 + 0.4 * h)
            elif kind == 'outside':
                d = rng.choice([(-1.5, 0), (1.5, 0), (0, 1.5), (0, -1.5), (1.2, 1.2)])
                region = (x0 + d[0] * w, y0 + d[1] * h, x1 + d[0] * w, y1 + d[1] * h)
            elif kind == 'touch':
                region = rng.choice([(x1, y0, x1 + w / 2, y1), (x0 - w / 3, y0, x0, y1), (x0, y1, x1, y1 + h / 2), (x0, y0 - h / 2, x1, y0)])
            elif kind == 'equal':
                region = cq
            else:
                region = (x0 - w / 4, y0 - h / 4, x0 + w / 4, y0 + h / 4)
            ctx.count('wms:region=' + kind)
        else:
            region = sub_box(rng, geo_to(info, code, GEO_AREA), 0.02, 0.7)
            if rng.random() < 0.05 and info.latlong[code]:
                region = (-180.0, -90.0, 180.0, 90.0)
            ctx.count('wms:region=free')
        size = rng.choice([(256, 256), (512, 256), (100, 300), (1, 1), (37, 41), (1024, 768), (256, 256)])
        # resolution aimed at the boundaries of the range
        mn, mx = rr_values(ws.sconf)
        if (mn or mx) and rng.random() < 0.85:
            if rng.random() < 0.5:
                t = rng.choice([v for v in (mn, mx) if v])
                res = float(t) * rng.choice([1.0, 1.0, 0.5, 2.0, 1.0 + 2 ** -9, 1.0 - 2 ** -9, 0.99, 1.01, 3.0])
                ctx.count('wms:res=boundary')
            else:
                lo_, hi_ = float(mx or (mn / 50.0)), float(mn or (mx * 50.0))
                res = lo_ * (hi_ / lo_) ** rng.uniform(0.05, 0.95)
                ctx.count('wms:res=inside')
            if info.latlong[code]:
                res = res / float(DEG_C)
            cx, cy = (region[0] + region[2]) / 2, (region[1] + region[3]) / 2
            x0, y0 = lat(cx - res * size[0] / 2), lat(cy - res * size[1] / 2)
            if rng.random() < 0.7:
                region = (x0, y0, x0 + lat(res * size[0]), y0 + lat(res * size[1] * rng.choice([1.0, 1.0, 0.9, 1.1])))
            else:
                region = (x0, y0, x0 + lat(res * size[0] * rng.choice([0.9, 1.1])), y0 + lat(res * size[1]))
        bbox = tuple(lat(v) for v in region)
        if not (bbox[0] < bbox[2] and bbox[1] < bbox[3]) or not all(abs(v) < LIM for v in bbox):
            continue
        fmt = rng.choice(FMT_POOL)
        typed = rng.random() < 0.5
        dims = {}
        if rng.random() < 0.75:
            pool = list(DIM_KEYS)
            for name in ws.fwd:
                pool += [name, name.lower(), name.upper(), 'dim_' + name.lower(), 'DIM_' + name.upper()]
            for key in rng.sample(pool, min(len(pool), rng.randrange(1, 5))):
                dims[key] = rng.choice(DIM_VALS)
            if rng.random() < 0.15:
                dims[rng.choice(RESERVED_KEYS)] = rng.choice(DIM_VALS)
        out.append({'bbox': bbox, 'size': size, 'srs': code, 'format': fmt, 'typed': typed, 'dims': dims})
    return out


def query_lit(info, strs, q, scale=S):
    dl = llit(list(q['dims'].items()), lambda kv: '(%d, %d, %d)' % (strs.id(kv[0]), strs.id(kv[0].lower()), strs.id(kv[1])))
    return '(mkQuery %s %d %d %s %s %s)' % (zb(q['bbox'], scale), q['size'][0], q['size'][1], info.lit(q['srs']),
                                           fmt_lit(strs, q['format'], q['typed']), dl)


def ttable_lit(strs, calls, scale=S):
    seen, items = set(), []
    for key, r in calls:
        if key in seen:
            continue
        seen.add(key)
        if not on_lattice(key[2], scale) or (r is not None and not on_lattice(r, scale)):
            return None
        items.append('(%d, %d, %s, %s)' % (strs.id(key[0]), strs.id(key[1]), zb(key[2], scale),
                                          'None' if r is None else '(Some %s)' % zb(r, scale)))
    return '[' + '; '.join(items) + ']'


def run_query(P, src, q, info):
    """run source.get_map on the real implementation; returns (kind, detail, urls, transform calls)."""
    from mapproxy.layer import MapQuery, BlankImage
    from mapproxy.image.opts import ImageFormat
    from mapproxy.srs import TransformationError
    from mapproxy.grid import NoTiles, GridError
    from mapproxy.source import InvalidSourceQuery
    fmt = ImageFormat(q['format']) if q['typed'] else q['format']
    mq = MapQuery(q['bbox'], q['size'], info.obj[q['srs']], fmt, dimensions=dict(q['dims']))
    saved = (P.urls, P.tcalls, P.gcalls, P.recording)
    P.urls, P.tcalls, P.gcalls = [], [], []
    P.recording = True
    try:
        try:
            src.get_map(mq)
            res = ('returned', None)
        except Stop:
            res = ('request', None)
        except BlankImage:
            res = ('blank', None)
        except TransformationError:
            res = ('err', 'transform')
        except NoTiles:
            res = ('err', 'notiles')
        except GridError:
            res = ('err', 'griderror')
        except InvalidSourceQuery as e:
            m = str(e)
            res = ('err', 'size' if m.startswith('tile size') else 'srs' if m.startswith('SRS of') else
                   'align' if m.startswith('BBOX does not align') else 'invalid:' + m[:40])
        except Exception as e:  # noqa
            res = ('err', type(e).__name__)
        out = (res[0], res[1], list(P.urls), list(P.tcalls), list(P.gcalls))
    finally:
        P.urls, P.tcalls, P.gcalls, P.recording = saved
    return out


def run_pair(P, sa, sb, q, info):
    """service.wms.combined_layers([a, b], query), then get_map of every layer (fresh query objects)."""
    from mapproxy.layer import MapQuery, BlankImage
    from mapproxy.image.opts import ImageFormat
    from mapproxy.srs import TransformationError
    from mapproxy.service.wms import combined_layers

    def mk():
        fmt = ImageFormat(q['format']) if q['typed'] else q['format']
        return MapQuery(q['bbox'], q['size'], info.obj[q['srs']], fmt, dimensions=dict(q['dims']))
    saved = (P.urls, P.tcalls, P.gcalls, P.recording)
    P.tcalls, P.gcalls = [], []
    P.recording = True
    outs = []
    try:
        try:
            layers = combined_layers([sa, sb], mk())
        except Exception:
            return None
        for layer in layers:
            P.urls = []
            try:
                layer.get_map(mk())
                res = ('returned', None)
            except Stop:
                res = ('request', None)
            except BlankImage:
                res = ('blank', None)
            except TransformationError:
                res = ('err', 'transform')
            except Exception as e:  # noqa
                res = ('err', type(e).__name__)
            outs.append((res[0], res[1], list(P.urls)))
        tcalls, gcalls = list(P.tcalls), list(P.gcalls)
    finally:
        P.urls, P.tcalls, P.gcalls, P.recording = saved
    tmpl_ab = None
    if len(layers) == 1:
        t = layers[0].client.request_template
        tmpl_ab = [(key.lower(), list(values)) for key, values in t.params.params.iteritems()]
    static_ok = (sa.client.request_template.url == sb.client.request_template.url and sa.opacity is None and
                 sb.opacity is None and sa.transparent_color == sb.transparent_color and
                 sa.transparent_color_tolerance == sb.transparent_color_tolerance and
                 sb.image_opts.transparent is not False)
    return len(layers), outs, tcalls, gcalls, tmpl_ab, static_ok


def run_chain(P, srcs, q, info):
    """service.wms.combined_layers(sources, query), then get_map of every layer (fresh query objects).
    Returns (list of (outcome, detail, urls, template of the layer's client), transform calls, geometry calls, static_ok
    of every source towards its predecessor)."""
    from mapproxy.layer import MapQuery, BlankImage
    from mapproxy.image.opts import ImageFormat
    from mapproxy.srs import TransformationError
    from mapproxy.service.wms import combined_layers

    def mk():
        fmt = ImageFormat(q['format']) if q['typed'] else q['format']
        return MapQuery(q['bbox'], q['size'], info.obj[q['srs']], fmt, dimensions=dict(q['dims']))
    saved = (P.urls, P.tcalls, P.gcalls, P.recording)
    P.tcalls, P.gcalls = [], []
    P.recording = True
    outs = []
    try:
        try:
            layers = combined_layers(list(srcs), mk())
        except Exception:
            return None
        for layer in layers:
            P.urls = []
            try:
                layer.get_map(mk())
                res = ('returned', None)
            except Stop:
                res = ('request', None)
            except BlankImage:
                res = ('blank', None)
            except TransformationError:
                res = ('err', 'transform')
            except Exception as e:  # noqa
                res = ('err', type(e).__name__)
            t = layer.client.request_template
            tm = [(key.lower(), list(values)) for key, values in t.params.params.iteritems()]
            outs.append((res[0], res[1], list(P.urls), tm))
        tcalls, gcalls = list(P.tcalls), list(P.gcalls)
    finally:
        P.urls, P.tcalls, P.gcalls, P.recording = saved
    oks = []
    for sa, sb in zip(srcs, srcs[1:]):
        oks.append(sa.client.request_template.url == sb.client.request_template.url and sa.opacity is None and
                   sb.opacity is None and sa.transparent_color == sb.transparent_color and
                   sa.transparent_color_tolerance == sb.transparent_color_tolerance and
                   sb.image_opts.transparent is not False)
    return outs, tcalls, gcalls, oks


def parse_url(url):
    sp = urlsplit(url)
    return sp, [(k, v) for k, v in parse_qsl(sp.query, keep_blank_values=True)]


def norm_pairs(ws, info, pairs):
    """URL parameters as a WMS 1.1.1 reader would see them: for a 1.3.0 upstream CRS is renamed to SRS and the
    BBOX of a north/east CRS (axis order from pyproj) is swapped back to x/y order."""
    if not getattr(ws, 'v130', False):
        return pairs
    d = dict((k.lower(), v) for k, v in pairs)
    code = d.get('crs')
    out = []
    for k, v in pairs:
        lk = k.lower()
        if lk == 'crs':
            out.append(('srs', v))
        elif lk == 'bbox' and info.ne.get(code, False):
            parts = v.split(',')
            out.append((k, ','.join([parts[1], parts[0], parts[3], parts[2]]) if len(parts) == 4 else v))
        else:
            out.append((k, v))
    return out


def obs_params_lit(strs, pairs):
    """URL parameters -> Gallina `params` (keys lower-cased); None if a key occurs twice."""
    items, seen = [], set()
    for k, v in pairs:
        lk = k.lower()
        if lk in seen:
            return None
        seen.add(lk)
        vals = None
        if lk == 'bbox':
            try:
                fl = [float(x) for x in v.split(',')]
                if len(fl) == 4 and on_lattice(fl):
                    vals = ['VBox %s' % zb(fl)]
            except ValueError:
                pass
        elif lk in ('width', 'height'):
            if re.fullmatch(r'-?\d+', v):
                vals = ['VInt %s' % zlit(int(v))]
        if vals is None:
            if strs.known(v):
                vals = ['VStr %d' % strs.id(v)]
            elif all(strs.known(p) for p in v.split(',')):
                vals = ['VStr %d' % strs.id(p) for p in v.split(',')]
            else:
                vals = ['VStr %d' % strs.id(v)]
        items.append('(%d, [%s])' % (strs.id(lk), '; '.join(vals)))
    return '[' + '; '.join(items) + ']'


# ----------------------------------------------------------------------------- oracle (independent of the model)

def contains_tol(outer, inner):
    dx = abs(outer[2] - outer[0]) / 1e12
    dy = abs(outer[3] - outer[1]) / 1e12
    return (outer[0] <= inner[0] + dx and outer[2] >= inner[2] - dx and outer[1] <= inner[1] + dy and outer[3] >= inner[3] - dy)


def intersects(a, b):
    return a[0] < b[2] and a[2] > b[0] and a[1] < b[3] and a[3] > b[1]


def wms_oracle(ctx, info, ws, q, kind, urls, rep):
    sconf = ws.sconf
    fwd_lower = {n.lower() for n in ws.fwd}
    if len(urls) > 1:
        ctx.fail('wms-more-than-one-request', 'one get_map call sent %d requests' % len(urls), rep)
    # gates: not contacted at all
    if urls:
        if ws.thr is not None:
            inside, near = rr_verdict(ws.thr, q['bbox'], q['size'], info.latlong[q['srs']])
            if not inside and not near:
                ctx.fail('wms-contacted-outside-res-range', 'source with resolution range %r was asked for resolution %r'
                         % (rr_values(sconf), [float(x) for x in exact_res(q['bbox'], q['size'], info.latlong[q['srs']])]), rep)
        if ws.cov:
            cs = ws.cov['srs']
            try:
                qb = q['bbox'] if info.same(q['srs'], cs) else info.obj[q['srs']].transform_bbox_to(info.obj[cs], q['bbox'])
            except Exception:
                qb = None
            if qb is not None and cov_clearly_outside(ws.cov, qb):
                ctx.fail('wms-contacted-outside-coverage', 'query bbox %r (%s) does not intersect the coverage %r (%s)'
                         % (q['bbox'], q['srs'], ws.cov['shape'] or ws.cov['bbox'], cs), rep)
    for url, data in urls:
        sp, pairs = parse_url(url)
        if getattr(ws, 'v130', False) and any(k.lower() == 'srs' for k, _ in pairs):
            ctx.fail('wms130-srs-parameter', 'request to a WMS 1.3.0 upstream carries an SRS parameter', rep)
        pairs = norm_pairs(ws, info, pairs)
        pd = {}
        for k, v in pairs:
            pd.setdefault(k.lower(), []).append(v)
        fwd_res = {k for k in ('srs', 'format', 'bbox', 'width', 'height') if k in fwd_lower and
                   any(d.lower() == k for d in q['dims'])}
        # SRS
        srs = (pd.get('srs') or [None])[0]
        if ws.supported and srs not in ws.supported:
            if 'srs' in fwd_res:
                sig = 'wms-srs-unsupported:forwarded-param-overrides'
            elif srs in SRS_CODES and any(info.same(srs, c) for c in ws.supported) and \
                    srs in (ws.pref.get(q['srs']) or []):
                sig = 'wms-srs-unsupported:preferred-alias-code'
            else:
                sig = 'wms-srs-unsupported'
            ctx.fail(sig, 'request uses SRS %r, configured supported_srs %r' % (srs, ws.supported), rep)
        # format
        f = (pd.get('format') or [None])[0]
        if ws.formats and (f is None or ext_of(f) not in [ext_of(x) for x in ws.formats]):
            sig = 'wms-format-unsupported:forwarded-param-overrides' if 'format' in fwd_res else 'wms-format-unsupported'
            ctx.fail(sig, 'request uses format %r, configured supported_formats %r' % (f, ws.formats), rep)
        # bbox inside the coverage extent
        if ws.cov and srs in SRS_CODES:
            suffix = ':forwarded-param-overrides' if ({'bbox', 'srs'} & fwd_res) else ''
            try:
                b = [float(x) for x in pd['bbox'][0].split(',')]
            except Exception:
                b = None
            cb, cs = ws.cov['bbox'], ws.cov['srs']
            if b is None or len(b) != 4:
                ctx.fail('wms-bbox-outside-extent' + suffix if suffix else 'wms-bbox-unparsable',
                         'bbox parameter %r is not a bbox inside the coverage' % (pd.get('bbox'),), rep)
            elif suffix and 'srs' in fwd_res and 'bbox' not in fwd_res:
                ctx.count('wms:bbox-check-skipped(srs overridden)')
            else:
                ok = False
                if info.same(srs, cs):
                    ok = contains_tol(cb, b)
                    if ok and not (b[0] < b[2] and b[1] < b[3]):
                        ctx.fail('wms-bbox-empty', 'empty bbox %r requested' % (b,), rep)
                else:
                    try:
                        ok = contains_tol(cb, info.obj[srs].transform_bbox_to(info.obj[cs], b))
                    except Exception:
                        ok = False
                    if not ok:
                        try:
                            e = info.obj[cs].transform_bbox_to(info.obj[srs], cb)
                            ok = contains_tol(e, b)
                        except Exception:
                            ok = False
                if not ok:
                    ctx.fail('wms-bbox-outside-extent' + suffix, 'requested bbox %r (%s) not inside the coverage extent %r (%s)'
                             % (b, srs, cb, cs), rep)
        # only configured dimensions (and template / negotiated / fixed parameters)
        allowed = set(ws.tmpl_keys) | {'bbox', 'width', 'height', 'srs', 'crs', 'format', 'styles'} | {k.lower() for k in ws.fixed}
        for k, vs in pd.items():
            if k in fwd_lower:
                qv = [v for d, v in q['dims'].items() if d.lower() == k]
                if k in allowed and not qv:
                    continue
                got = ','.join(vs).split(',') if len(qv) > 1 else vs
                if k in {x.lower() for x in ws.fixed} or k in ('bbox', 'width', 'height', 'srs', 'format'):
                    continue
                if sorted(got) != sorted(qv):
                    ctx.fail('wms-forwarded-value-changed', 'parameter %r sent as %r, query dimensions %r' % (k, vs, q['dims']), rep)
            elif k not in allowed:
                ctx.fail('wms-param-not-configured', 'parameter %r=%r sent although forward_req_params is %r'
                         % (k, vs, ws.fwd), rep)
        for d, v in q['dims'].items():
            if d.lower() not in fwd_lower and d.lower() not in allowed and d.lower() in pd:
                ctx.fail('wms-param-not-configured', 'dimension %r forwarded although not configured' % d, rep)


# ----------------------------------------------------------------------------- tile sources

TILE_ERR = {'size': 1, 'srs': 2, 'notiles': 3, 'griderror': 4, 'align': 5, 'TypeError': 6, 'transform': 7}


def near_rel(a, b):
    return a != b and abs(a - b) <= Fraction(1, 10 ** 11) * max(abs(a), abs(b))


def tile_float_sensitive(gc, bbox, size):
    w = Fraction(bbox[2]) - Fraction(bbox[0])
    h = Fraction(bbox[3]) - Fraction(bbox[1])
    if Fraction(float(w) / size[0]) != w / size[0] or Fraction(float(h) / size[1]) != h / size[1]:
        exact_q = False
    else:
        exact_q = True
    fq = min(w / size[0], h / size[1])
    prod = fq * gc.sf
    if not (exact_q and Fraction(float(fq) * float(gc.sf)) == prod):
        for r in gc.res:
            if near_rel(r, fq) or near_rel(r, prod) or (not exact_q and (r == fq or r == prod)):
                return True
        if near_rel(fq, gc.res[0] * gc.shr):
            return True
    return False


def gen_tile_queries(ctx, info, ts, n):
    rng = ctx.rng
    gc = ts['gc']
    out = []
    nlev = len(gc.res)
    tsz = (gc.tw, gc.th)
    for _ in range(n):
        l = rng.randrange(nlev)
        nx, ny = gc.grid_size(l)
        x = rng.choice([0, 0, nx - 1, nx, -1, rng.randrange(0, nx), rng.randrange(0, nx)])
        y = rng.choice([0, 0, ny - 1, ny, -1, rng.randrange(0, ny), rng.randrange(0, ny)])
        cov = ts['cov']
        if cov and info.same(cov['srs'], ts['srs']) and rng.random() < 0.6:
            cb = cov['bbox']
            fx, fy = gc.tile_pos(rng.uniform(cb[0], cb[2]), rng.uniform(cb[1], cb[3]), l)
            x, y = math.floor(fx), math.floor(fy)
        if cov and cov['shape'] is None and info.same(cov['srs'], ts['srs']) and rng.random() < 0.3:
            # a tile next to the coverage (sharing an edge or a corner with it when the coverage is tile aligned)
            cb = cov['bbox']
            half = float(gc.res[l]) / 2
            px = rng.choice([cb[0] - half, cb[2] + half, rng.uniform(cb[0], cb[2])])
            py = rng.choice([cb[1] - half, cb[3] + half, rng.uniform(cb[1], cb[3])])
            fx, fy = gc.tile_pos(px, py, l)
            x, y = math.floor(fx), math.floor(fy)
            ctx.count('tile:aimed=next-to-coverage')
        r = [float(v) for v in gc.tile_rect(x, y, l)]
        w, h = r[2] - r[0], r[3] - r[1]
        kind = rng.choice(['exact', 'exact', 'exact', 'exact', 'half', 'double', 'eighth', 'size', 'srs', 'alias', 'wide', 'shrunk'])
        size, code = tsz, ts['srs']
        if kind == 'half':
            r = [r[0] + w / 2, r[1], r[2] + w / 2, r[3]] if rng.random() < 0.5 else [r[0], r[1] + h / 2, r[2], r[3] + h / 2]
        elif kind == 'double':
            r = [r[0], r[1], r[0] + 2 * w, r[1] + 2 * h]
        elif kind == 'eighth':
            d = rng.choice([0.125, -0.125, float(gc.res[l]) / 10, float(gc.res[l]) / 8, -float(gc.res[l]) / 8])
            r = [r[0] + d, r[1] + d, r[2] + d, r[3] + d] if rng.random() < 0.5 else [r[0] - d, r[1], r[2] + d, r[3]]
        elif kind == 'size':
            size = rng.choice([(tsz[0] * 2, tsz[1]), (tsz[0], tsz[1] // 2), (tsz[0] + 1, tsz[1])])
        elif kind == 'srs':
            code = rng.choice([c for c in SRS_CODES if not info.same(c, ts['srs'])])
        elif kind == 'alias':
            code = rng.choice([c for c in SRS_CODES if info.same(c, ts['srs'])])
        elif kind == 'wide':
            r = [r[0], r[1], r[2] + w, r[3]]
        elif kind == 'shrunk':
            f = rng.choice([3, 5, 9])
            r = [r[0], r[1], r[0] + f * w, r[1] + f * h]
        ctx.count('tile:kind=' + kind)
        bbox = tuple(math.floor(v * 8) / 8.0 for v in r)
        if not (bbox[0] < bbox[2] and bbox[1] < bbox[3]):
            continue
        out.append({'bbox': bbox, 'size': size, 'srs': code, 'format': 'image/png', 'typed': False, 'dims': {},
                    'aimed': (x, y, l), 'kind': kind})
    return out


def tile_oracle(ctx, info, ts, q, kind, urls, rep):
    gc = ts['gc']
    sconf = ts['sconf']
    if len(urls) > 1:
        ctx.fail('tile-more-than-one-request', 'one get_map call sent %d requests' % len(urls), rep)
    for url, data in urls:
        m = re.search(r'/(-?\d+)/(-?\d+)/(-?\d+)\.png$', url)
        if not m:
            ctx.fail('tile-url-unparsable', 'tile URL %r' % url, rep)
            continue
        z, x, y = int(m.group(1)), int(m.group(2)), int(m.group(3))
        ok = 0 <= z < len(gc.res)
        if ok:
            nx, ny = gc.grid_size(z)
            ok = 0 <= x < nx and 0 <= y < ny
        if not ok:
            ctx.fail('tile-outside-source-grid', 'tile %r requested, the source grid has sizes %r'
                     % ((x, y, z), [gc.grid_size(i) for i in range(len(gc.res))]), rep)
        elif kind == 'request':
            # the requested tile at least overlaps the queried area
            tr = [float(v) for v in gc.tile_rect(x, y, z)]
            if not intersects(tr, q['bbox']):
                ctx.fail('tile-not-the-queried-area', 'tile %r covers %r, query bbox %r' % ((x, y, z), tr, q['bbox']), rep)
        if ts['thr'] is not None:
            inside, near = rr_verdict(ts['thr'], q['bbox'], q['size'], info.latlong[q['srs']])
            if not inside and not near:
                ctx.fail('tile-contacted-outside-res-range', 'tile source with range %r asked at resolution %r'
                         % (rr_values(sconf), [float(v) for v in exact_res(q['bbox'], q['size'], False)]), rep)
        cov = ts['cov']
        if cov:
            cs = cov['srs']
            try:
                qb = q['bbox'] if info.same(q['srs'], cs) else info.obj[q['srs']].transform_bbox_to(info.obj[cs], q['bbox'])
            except Exception:
                qb = None
            if qb is not None and cov_clearly_outside(cov, qb):
                ctx.fail('tile-contacted-outside-coverage', 'query bbox %r does not intersect coverage %r'
                         % (q['bbox'], cov['shape'] or cov['bbox']), rep)


# ----------------------------------------------------------------------------- corpus

def wms_term(ctx, info, strs, ws, q, kind, detail, urls, tcalls, gcalls, skipped):
    """Gallina pieces (T table, GI table, GC table, query, observation) of one get_map call, or None when skipped."""
    sens = False
    if ws.thr is not None and rr_verdict(ws.thr, q['bbox'], q['size'], info.latlong[q['srs']])[1]:
        sens = True
    for key, r in tcalls:
        if r is None or key[0] == key[1]:
            continue
        w, h = Fraction(r[2]) - Fraction(r[0]), Fraction(r[3]) - Fraction(r[1])
        if w <= 0 or h <= 0:
            sens = True
            continue
        dw, dh = q['size']
        for v in (dw * h / w + Fraction(1, 2), dh * w / h + Fraction(1, 2)):
            if abs(v - round(v)) < Fraction(1, 10 ** 9):
                sens = True
        a, b = w * dh, h * dw
        if a != b and abs(a - b) <= max(a, b) / 10 ** 12:
            sens = True
    if sens:
        skipped['float_sensitive'] += 1
        return None
    tt = ttable_lit(strs, tcalls)
    gi = gtable_lit(gcalls, 'i')
    gc_ = gtable_lit(gcalls, 'c')
    if tt is None or gi is None or gc_ is None:
        skipped['off_lattice'] += 1
        return None
    ql = query_lit(info, strs, q)   # interns the strings of the query before the URL is read
    return tt, gi, gc_, ql, wms_obs_lit(strs, kind, detail, urls, skipped)


def wms_obs_lit(strs, kind, detail, urls, skipped):
    if kind == 'blank':
        return 'OBlank'
    if kind == 'request':
        if len(urls) != 1 or urls[0][1] is not None:
            return 'OErr (-5)'
        pl = obs_params_lit(strs, parse_url(urls[0][0])[1])
        if pl is None:
            skipped['dup_keys'] += 1
            return 'OErr (-6)'
        return 'OUrl %s' % pl
    return 'OErr %s' % zlit({'transform': 1, 'ValueError': 2}.get(detail, -9))


def load_corpus():
    d = os.path.join(VERIF, 'corpus', 'C17')
    out = []
    if os.path.isdir(d):
        for fn in sorted(os.listdir(d)):
            if fn.endswith('.json'):
                out.append(json.load(open(os.path.join(d, fn))))
    return out


# ----------------------------------------------------------------------------- the run

def run(ctx):
    import yaml
    import logging
    logging.disable(logging.CRITICAL)
    from gridlib import GridCase
    P = Patches()
    P.install()
    try:
        _run(ctx, P, yaml, GridCase)
    finally:
        P.remove()
        logging.disable(logging.NOTSET)


def _run(ctx, P, yaml, GridCase):
    from mapproxy.config.loader import load_configuration
    rng = ctx.rng
    strs = Strs()
    info = SrsInfo(strs)
    kn, kd = DEG_C.numerator, DEG_C.denominator
    wms_defs, wms_cases, wms_desc = [], [], []
    tile_defs, tile_cases, tile_desc = [], [], []
    pair_cases, pair_desc = [], []
    chain_cases, chain_desc = [], []
    skipped = {'float_sensitive': 0, 'off_lattice': 0, 'dup_keys': 0}

    import random as _random
    corpus_rng = _random.Random(17)
    corpus = load_corpus()
    confs = [(c['config'], c.get('queries'), c.get('params', {})) for c in corpus]
    ncorpus = len(confs)
    for k in range(ctx.n(28, 150)):
        confs.append((gen_config(ctx, info, k), None, None))
    nq_w = ctx.n(14, 24)
    nq_t = ctx.n(14, 24)

    for ci, (conf, fixed_queries, fixed_params) in enumerate(confs):
        d = ctx.tmpdir('conf')
        path = os.path.join(d, 'mapproxy.yaml')
        with open(path, 'w') as f:
            yaml.safe_dump(conf, f)
        try:
            pc = load_configuration(path)
        except Exception as e:  # noqa
            ctx.problem('harness', 'generated configuration %d rejected by the loader: %r' % (ci, e), conf)
            continue
        built_wms = {}
        for name in sorted(conf['sources']):
            sconf = conf['sources'][name]
            if fixed_params is not None:
                params = dict(fixed_params)
            else:
                params = rng.choice([{}, {'format': 'image/png'}, {'format': 'image/jpeg'}, {'format': 'image/png'}])
            if sconf['type'] == 'tile' and 'format' not in params:
                params = {'format': 'image/png'}
            try:
                src = pc.sources[name].source(dict(params))
            except Exception as e:  # noqa
                ctx.problem('harness', 'source %s could not be built: %r' % (name, e), sconf)
                continue
            uname = 'c%d_%s' % (ci, name)
            cn = cov_norm(sconf)
            if cn:
                if cn['gid'] is not None:
                    src.coverage._verif_gid = cn['gid']
                if [float(v) for v in src.coverage.bbox] != cn['bbox'] or src.coverage.srs.srs_code != cn['srs'].upper() or \
                        (cn['shape'] is None) != (src.coverage.geom is None):
                    ctx.problem('correspondence', 'loader built coverage %r from configuration %r' % (src.coverage, sconf['coverage']), sconf)
            if sconf['type'] == 'wms':
                ws = WmsSrc(uname, sconf, conf, info, strs, src, params)
                # loader cross-check: what the built object holds is what the YAML says
                built = {'srs': [s.srs_code for s in (src.supported_srs or [])],
                         'formats': list(src.supported_formats or []), 'fwd': sorted(src.fwd_req_params)}
                want = {'srs': [c.upper() for c in ws.supported], 'formats': [ext_of(f) for f in ws.formats], 'fwd': sorted(set(ws.fwd))}
                if built != want:
                    ctx.problem('correspondence', 'loader built %r from configuration %r' % (built, want), sconf)
                wms_defs.append(ws.defs())
                if fixed_queries is not None:
                    queries = [dict(q, bbox=tuple(q['bbox']), size=tuple(q['size'])) for q in fixed_queries.get(name, [])]
                else:
                    queries = gen_wms_queries(ctx, info, ws, nq_w)
                def one(q, tag=''):
                    r = run_query(P, src, q, info)
                    finish(q, r, tag)

                def finish(q, r, tag=''):
                    kind, detail, urls, tcalls, gcalls = r
                    rep = {'source': sconf, 'preferred_src_proj': ws.pref, 'source_params': params, 'query': q,
                           'outcome': kind, 'detail': detail, 'urls': [u for u, _ in urls], 'stream': tag or 'single'}
                    ctx.case(('wms', tag, json.dumps(sconf, sort_keys=True), json.dumps(ws.pref, sort_keys=True), repr(sorted(q.items()))),
                             True, rep if (ctx.evaluations % 97 == 0) else None)
                    ctx.count('wms:outcome=' + kind + (':' + str(detail) if detail else ''))
                    if ws.cov and ws.cov['shape']:
                        ctx.count('wms:polygon-coverage:' + kind)
                    if urls:
                        try:
                            u_srs = dict((k.lower(), v) for k, v in norm_pairs(ws, info, parse_url(urls[0][0])[1])).get('srs')
                        except Exception:
                            u_srs = None
                        ctx.count('wms:path=' + ('direct' if u_srs == q['srs'] else 'alias-or-transformed'))
                    if kind == 'returned':
                        ctx.fail('wms-returned-without-request', 'get_map returned without a request or BlankImage', rep)
                        return
                    wms_oracle(ctx, info, ws, q, kind, urls, rep)
                    if kind == 'request' and urls and not tag:
                        pd_ = dict((k.lower(), v) for k, v in norm_pairs(ws, info, parse_url(urls[0][0])[1]))
                        if pd_.get('srs') == q['srs'] and pd_.get('bbox') != ','.join(str(x) for x in q['bbox']):
                            clipped.append(q)
                    t = wms_term(ctx, info, strs, ws, q, kind, detail, urls, tcalls, gcalls, skipped)
                    if t is not None:
                        tt, gi, gc_, ql, obs = t
                        wms_cases.append('(%s, %s, %s_t, %s_f, %s, %s, %s, %s, %s)' % (blit(ws.v130), uname, uname, uname, tt, gi, gc_, ql, obs))
                        wms_desc.append(rep)

                clipped = []
                for q in queries:
                    one(q)
                built_wms[name] = (ws, src, uname, queries)
                # ---- interleaved requests: a second request runs while the first one is inside a transformation;
                # get_map must be a function of (source, query) only (no state shared between requests)
                if ws.cov and fixed_queries is None:
                    cand = [q for q in queries if not info.same(q['srs'], ws.cov['srs'])]
                    clip2 = [q for q in clipped if not info.same(q['srs'], ws.cov['srs'])]
                    for _ in range(2):
                        if len(cand) < 2:
                            break
                        # prefer two clipped (sub query) requests in different SRS: both transform the extent
                        pairs_ = [(x, y) for x in clip2 for y in clip2 if not info.same(x['srs'], y['srs'])]
                        if pairs_:
                            qb_, qa_ = rng.choice(pairs_)
                        else:
                            qb_, qa_ = rng.sample(cand, 2)
                        inner = []
                        P.hook = lambda: inner.append(run_query(P, src, qa_, info))
                        P.hook_from = ws.cov['srs'].upper()     # interleave while the extent is being transformed
                        r_outer = run_query(P, src, qb_, info)
                        P.hook = None
                        finish(qb_, r_outer, 'interleaved-outer')
                        for r in inner:
                            finish(qa_, r, 'interleaved-inner')
                        one(qa_, 'after-interleaving')
                        one(qb_, 'after-interleaving')
                        ctx.count('wms:interleaved=' + ('yes' if inner else 'no transformation reached'))
            else:
                g = src.grid
                gconf = conf['grids'][sconf['grid']]
                gc = GridCase(uname + '_g', g, extra_den=S)
                thr_lit, thr = rr_lit(sconf, gc.S)
                ts = {'gc': gc, 'srs': gconf['srs'], 'sconf': sconf, 'thr': thr, 'cov': cov_norm(sconf)}
                if [float(v) for v in g.bbox] != [float(v) for v in gconf['bbox']] or \
                        [float(r) for r in g.resolutions] != [float(r) for r in gconf['res']] or \
                        tuple(g.tile_size) != tuple(gconf['tile_size']) or \
                        bool(g.flipped_y_axis) != (gconf['origin'] in ('ul', 'nw')) or g.srs.srs_code != gconf['srs']:
                    ctx.problem('correspondence', 'loader built grid %r from configuration %r' % (g, gconf), sconf)
                tile_defs.append(gc.definition())
                tile_defs.append('Definition %s : tile_source := mkTile %s %s %s %s.' % (
                    uname, gc.name, info.lit(gconf['srs']), cov_lit(info, sconf, gc.S), thr_lit))
                if fixed_queries is not None:
                    queries = [dict(q, bbox=tuple(q['bbox']), size=tuple(q['size'])) for q in fixed_queries.get(name, [])]
                else:
                    queries = gen_tile_queries(ctx, info, ts, nq_t)
                for q in queries:
                    kind, detail, urls, tcalls, gcalls = run_query(P, src, q, info)
                    rep = {'source': sconf, 'grid': gconf, 'query': q, 'outcome': kind, 'detail': detail,
                           'urls': [u for u, _ in urls]}
                    ctx.case(('tile', json.dumps(sconf, sort_keys=True), json.dumps(gconf, sort_keys=True), repr(sorted(q.items()))),
                             True, rep if (ctx.evaluations % 97 == 0) else None)
                    ctx.count('tile:outcome=' + kind + (':' + str(detail) if detail else ''))
                    if kind == 'returned':
                        ctx.fail('tile-returned-without-request', 'get_map returned without a request or BlankImage', rep)
                        continue
                    tile_oracle(ctx, info, ts, q, kind, urls, rep)
                    if kind == 'err' and detail == 'TypeError' and urls:
                        ctx.fail('tile-none-coordinate-requested', 'a request was sent for a tile outside the grid', rep)
                    sens = tile_float_sensitive(gc, q['bbox'], q['size'])
                    if thr is not None and rr_verdict(thr, q['bbox'], q['size'], info.latlong[q['srs']])[1]:
                        sens = True
                    if sens:
                        skipped['float_sensitive'] += 1
                        continue
                    tt = ttable_lit(strs, tcalls, gc.S)
                    gi = gtable_lit(gcalls, 'i', gc.S)
                    if ts['cov'] and ts['cov']['shape']:
                        ctx.count('tile:polygon-coverage:' + kind)
                    if tt is None or gi is None or not gc.can_scale(*q['bbox']):
                        skipped['off_lattice'] += 1
                        continue
                    if kind == 'blank':
                        obs = 'TOBlank'
                    elif kind == 'request':
                        m = re.search(r'/(-?\d+)/(-?\d+)/(-?\d+)\.png$', urls[0][0]) if len(urls) == 1 else None
                        obs = 'TOTile (%s, %s, %s)' % (zlit(m.group(2)), zlit(m.group(3)), zlit(m.group(1))) if m else 'TOErr (-5)'
                    else:
                        obs = 'TOErr %s' % zlit(TILE_ERR.get(detail, -9))
                    tile_cases.append('(%s, %s, %s, %s, %s)' % (uname, tt, gi, query_lit(info, strs, q, gc.S), obs))
                    tile_desc.append(rep)

        # ---- sources requested together: service.wms.combined_layers + get_map of every resulting layer
        for name in sorted(built_wms):
            if name + 'b' not in built_wms:
                continue
            wa, sa, ua, qs_a = built_wms[name]
            wb, sb, ub, qs_b = built_wms[name + 'b']
            # queries in an SRS that only one of the two sources lists come first
            diff = set(wa.supported) ^ set(wb.supported)
            special = [q for q in qs_a + qs_b if q['srs'] in diff][:4]
            for q in (special + qs_a[:ctx.n(5, 8)] + qs_b[:ctx.n(3, 5)]):
                pr = run_pair(P, sa, sb, q, info)
                if pr is None:
                    continue
                nlayers, outs, tcalls, gcalls, tmpl_ab, static_ok = pr
                if tmpl_ab is not None:
                    tmpl_ab = llit(tmpl_ab, lambda kv: '(%d, %s)' % (strs.id(kv[0]), llit(kv[1], lambda v: 'VStr %d' % strs.id(v))))
                rep = {'sources': [wa.sconf, wb.sconf], 'preferred_src_proj': wa.pref, 'query': q, 'combined': nlayers == 1,
                       'outcomes': [(k, d, [u for u, _ in us]) for k, d, us in outs], 'stream': 'pair'}
                ctx.case(('pair', json.dumps(wa.sconf, sort_keys=True), json.dumps(wb.sconf, sort_keys=True), repr(sorted(q.items()))),
                         True, rep if (ctx.evaluations % 97 == 0) else None)
                ctx.count('pair:' + ('combined' if nlayers == 1 else 'separate') + ':' + '+'.join(k for k, _, _ in outs))
                if nlayers == 1:
                    kind, detail, urls = outs[0]
                    # the combined request must honour the configuration of both sources
                    for w_ in (wa, wb):
                        wms_oracle(ctx, info, w_, q, kind, urls, rep)
                    for u, _ in urls:
                        if 'layers' in {n.lower() for n in wa.fwd}:
                            continue       # the configuration asks for the client's LAYERS value to be forwarded
                        lay = dict((k.lower(), v) for k, v in parse_url(u)[1]).get('layers')
                        if lay != wa.sconf['req']['layers'] + ',' + wb.sconf['req']['layers']:
                            ctx.fail('pair-layers', 'combined request asks for layers %r' % lay, rep)
                else:
                    for w_, (kind, detail, urls) in zip((wa, wb), outs):
                        wms_oracle(ctx, info, w_, q, kind, urls, rep)
                terms = []
                for w_, (kind, detail, urls) in zip((wa, wb), outs):
                    t = wms_term(ctx, info, strs, w_, q, kind, detail, urls, tcalls, gcalls, skipped)
                    if t is None:
                        terms = None
                        break
                    terms.append(t)
                # the resolution gates of both sources are evaluated by _is_compatible
                for w_ in (wa, wb):
                    if w_.thr is not None and rr_verdict(w_.thr, q['bbox'], q['size'], info.latlong[q['srs']])[1]:
                        terms = None
                if not terms:
                    continue
                tt, gi, gc_, ql, _ = terms[0]
                pair_cases.append('(%s, %s, %s, %s, %s_t, %s_t, %s, %s_f, %s, %s, %s, %s, [%s])' % (
                    blit(wa.v130), blit(static_ok), ua, ub, ua, ub, tmpl_ab if tmpl_ab else ua + '_t', ua, tt, gi, gc_, ql,
                    '; '.join(t[4] for t in terms)))
                pair_desc.append(rep)

        # ---- three sources requested together (any grouping of adjacent layers)
        for name in sorted(built_wms):
            if name + 'b' not in built_wms or name + 'c' not in built_wms:
                continue
            trio = [built_wms[name], built_wms[name + 'b'], built_wms[name + 'c']]
            for q in trio[0][3][:ctx.n(4, 6)] + trio[2][3][:ctx.n(2, 4)]:
                # replayed corpus configurations must not consume the generator's random stream
                order_rng = rng if fixed_queries is None else corpus_rng
                order = order_rng.choice([[0, 1, 2], [0, 1, 2], [1, 0, 2], [0, 2, 1], [2, 1, 0]])
                seq = [trio[i] for i in order]
                pr = run_chain(P, [x[1] for x in seq], q, info)
                if pr is None:
                    continue
                outs, tcalls, gcalls, oks = pr
                # which sources a layer stands for: its LAYERS parameter is the concatenation of theirs
                groups, k = [], 0
                for kind, detail, urls, tm in outs:
                    lay = dict(tm).get('layers', [''])[0]
                    g = []
                    while k < len(seq):
                        g.append(seq[k])
                        k += 1
                        if ','.join(x[0].sconf['req']['layers'] for x in g) == lay:
                            break
                    groups.append(g)
                rep = {'sources': [x[0].sconf for x in seq], 'preferred_src_proj': seq[0][0].pref, 'query': q,
                       'groups': [[x[2] for x in g] for g in groups],
                       'outcomes': [(kk, d, [u for u, _ in us]) for kk, d, us, _ in outs], 'stream': 'chain'}
                if k != len(seq) or any(','.join(x[0].sconf['req']['layers'] for x in g) != dict(o[3]).get('layers', [''])[0]
                                        for g, o in zip(groups, outs)):
                    ctx.fail('chain-grouping', 'the rendered layers do not partition the requested sources in order', rep)
                    continue
                ctx.case(('chain', tuple(json.dumps(x[0].sconf, sort_keys=True) for x in seq), repr(sorted(q.items()))),
                         True, rep if (ctx.evaluations % 97 == 0) else None)
                ctx.count('chain:groups=' + '+'.join(str(len(g)) for g in groups))
                for g, (kind, detail, urls, tm) in zip(groups, outs):
                    for x in g:
                        wms_oracle(ctx, info, x[0], q, kind, urls, rep)     # the request honours every member's configuration
                sens = any(x[0].thr is not None and rr_verdict(x[0].thr, q['bbox'], q['size'], info.latlong[q['srs']])[1] for x in seq)
                terms, tmpls = [], []
                for g, (kind, detail, urls, tm) in zip(groups, outs):
                    tmpls.append(llit(tm, lambda kv: '(%d, %s)' % (strs.id(kv[0]), llit(kv[1], lambda v: 'VStr %d' % strs.id(v)))))
                for g, (kind, detail, urls, tm) in zip(groups, outs):
                    t = wms_term(ctx, info, strs, g[0][0], q, kind, detail, urls, tcalls, gcalls, skipped)
                    if t is None:
                        sens = True
                        break
                    terms.append(t)
                if sens or not terms:
                    continue
                tt, gi, gc_, ql, _ = terms[0]
                chain_cases.append('(%s, %s, [%s], [%s], %s_f, %s, %s, %s, %s, [%s])' % (
                    blit(seq[0][0].v130), seq[0][2], '; '.join('(%s, %s)' % (blit(o), x[2]) for o, x in zip(oks, seq[1:])), '; '.join(tmpls),
                    seq[0][2], tt, gi, gc_, ql, '; '.join(t[4] for t in terms)))
                chain_desc.append(rep)

    for k, v in skipped.items():
        ctx.distribution['skipped_' + k] = v
    ctx.distribution['corpus_configurations'] = ncorpus
    kdefs = 'Definition KN : Z := %s.\nDefinition KD : Z := %s.\n' % (zlit(kn), zlit(kd))
    kdefs += 'Definition NE (c : Z) : bool := existsb (Z.eqb c) %s.\n' % llit([strs.id(c) for c in SRS_CODES if info.ne[c]])
    ctx.corr_check('wms_get_map', 'Grid Upstream',
                   'bool * wms_source * params * list (Z * Z) * ttable * gtable * gtable * query * wms_obs', wms_cases,
                   "fun c => let '(v, src, tmpl, fixed, tb, gi, gc, q, obs) := c in "
                   "wms_obs_eqb v NE tmpl fixed (wms_get_map (T_of tb) KN KD (glookup gi) (glookup gc) src q) obs",
                   lambda i: wms_desc[i], defs=kdefs + '\n'.join(wms_defs), shard=300)
    ctx.corr_check('render_pair', 'Grid Upstream',
                   'bool * bool * wms_source * wms_source * params * params * params * list (Z * Z) * ttable * gtable * gtable * query * list wms_obs',
                   pair_cases,
                   "fun c => let '(v, ok, a, b, ta, tb_, tab, fixed, tt_, gi, gc, q, obs) := c in "
                   "pair_obs_eqb v NE ta tb_ tab fixed (render_pair (T_of tt_) KN KD (glookup gi) (glookup gc) ok a b q) obs",
                   lambda i: pair_desc[i], defs=kdefs + '\n'.join(wms_defs), shard=300)
    ctx.corr_check('render_list', 'Grid Upstream',
                   'bool * wms_source * list (bool * wms_source) * list params * list (Z * Z) * ttable * gtable * gtable * query * list wms_obs',
                   chain_cases,
                   "fun c => let '(v, a, rest, tmpls, fixed, tt_, gi, gc, q, obs) := c in "
                   "outs_eqb v NE tmpls fixed (render_list (T_of tt_) KN KD (glookup gi) (glookup gc) a rest q) obs",
                   lambda i: chain_desc[i], defs=kdefs + '\n'.join(wms_defs), shard=300)
    ctx.corr_check('tiled_get_map', 'Grid Upstream',
                   'tile_source * ttable * gtable * query * tile_obs', tile_cases,
                   "fun c => let '(ts, tb, gi, q, obs) := c in tile_obs_eqb (tiled_get_map (T_of tb) KN KD (glookup gi) ts q) obs",
                   lambda i: tile_desc[i], defs=kdefs + '\n'.join(tile_defs), shard=300)
