"""C14  Layers composite in order with correct alpha; shortcuts never change the picture.

Model: coq/theories/Compose.v, lemmas: Compose_proofs.v, theorems: coq/props/P_C14.v.
Tie (correspondence, exact equality, evaluated by vm_compute inside Coq):
  ops    - Pillow's per-pixel operators (alpha_composite, masked paste, ImageChops.multiply, blend with C float
           arithmetic, int(255*opacity) in doubles, make_transparent) against the integer formulas of the model;
  merge  - the real mapproxy.image.merge.LayerMerger on random small images (RGB / RGBA / P / L, colour keys, palette
           transparency, opacities, per-layer clip coverages, global clip coverage, all request options) against
           `Compose.merge`, per pixel;
  select - WMSSource.is_opaque / _is_compatible / combined_layers and WMSLayer / WMSGroupLayer selection on the real
           objects of a real application built from a generated YAML configuration;
  wms    - the real WSGI application (GetMap, 1-5 layers, synthetic upstream) against `Compose.wms_map`: the sequence
           of upstream requests (pruning + combination) and the returned image, per pixel.
Oracle (independent of the Coq model): a floating point reference compositor that renders the *ideal* semantics of the
property text (every requested layer, every source, bottom to top, standard `over`, opacity, clipping, bgcolor) and
compares within rounding with what the implementation returned.
"""
import io
import json
import os
import threading
import time
import warnings

from common import blit, llit, olit, zlit

ID = 'C14'
TECHNIQUE = ('Coq proof over an executable model of LayerMerger.merge / WMS layer selection / combined_layers + '
             'exact per-pixel correspondence check against the real LayerMerger and the real WSGI application')
LEVEL_TEXT = ('Theorems for all images (any size), any number of layers, all opacities and request options over the '
              'Gallina model Compose.v (Pillow integer formulas); model tied to mapproxy/image/merge.py, service/wms.py, '
              'source/wms.py by differential runs compared inside Coq; float reference compositor as property oracle.')
LEVEL_NOTE = ('Trusted: Coq kernel, hand-written model Compose.v, harness; Pillow operators are modelled by integer '
              'formulas that are validated bit for bit on every run, not verified; rasterisation of coverage masks, PNG '
              'codec, palette lookup and resolution-range / coverage predicates are inputs of the model. '
              'Not proved: the numeric distance between the integer operators and the rational `over` (within_rounding), '
              'checked by the oracle only.')
DESIGN_REF = 'DESIGN.md section 5, C14'
RULE = ('case = (operator arguments) | (request options, layer images with modes/opacity/clip, global clip) | '
        '(configuration, layer list, transparent, bgcolor); non-trivial = at least 2 layers or an opacity/clip/colour key; '
        'distinct by full input tuple')
TRUSTED = ['model Compose.v hand-written from merge.py / service/wms.py / source/wms.py; tie = differential runs vs model',
           'Pillow 12.3 per-pixel formulas (alpha_composite, paste, multiply, blend, convert) re-validated on every run',
           'ImageDraw/shapely rasterisation of clip masks, PNG codec, SRS / resolution predicates: inputs of the model']
ASSUMPTIONS = ['upstream WMS renders a layer list as the bottom-to-top composition of its layers',
               'a source declared non-transparent returns opaque images',
               'all layer images have the requested size; opacity >= 0']
EXPLANATION = ('composition order, opaque pruning, single-layer shortcut and request combination proved on the model; '
               'implementation compared per pixel with the model and, within rounding, with an ideal float compositor')

HERE = os.path.dirname(os.path.abspath(__file__))
CORPUS = os.path.join(os.path.dirname(os.path.dirname(HERE)), 'corpus', 'C14')

warnings.simplefilter('ignore')


# ----------------------------------------------------------------------------- literals

def pxl(p):
    return '(%d, %d, %d, %d)' % tuple(p)


def rgbl(c):
    return '(%d, %d, %d)' % tuple(c[:3])


def fl_lit(x):
    """exact value of a Python float as (m, e) = m * 2^e"""
    m, d = float(x).as_integer_ratio()
    return '(%s, %s)' % (zlit(m), zlit(-(d.bit_length() - 1)))


def opfl(x):
    return 'None' if x is None else '(Some %s)' % fl_lit(x)


def obool(b):
    return 'None' if b is None else '(Some %s)' % blit(b)


def img_lit(mode, trns, pxs):
    if trns is None:
        t = 'T_none'
    elif trns[0] == 'key':
        t = '(T_key %s)' % rgbl(trns[1])
    else:
        t = 'T_pal'
    return '(mk_image M_%s %s %s)' % (mode, t, llit(pxs, pxl))


def mask_lit(m):
    return 'None' if m is None else '(Some %s)' % llit(m, blit)


def ropts_lit(o):
    return '(mk_ropts %s %s %s)' % ('None' if o['mode'] is None else '(Some M_%s)' % o['mode'],
                                   obool(o['transparent']),
                                   'None' if o['bgcolor'] is None else '(Some %s)' % rgbl(o['bgcolor']))


def lopts_lit(o):
    if o is None:
        return 'None'
    return '(Some (mk_lopts %s %s))' % (obool(o['transparent']), opfl(o['opacity']))


def layer_lit(l):
    return '(mk_layer %s %s %s)' % (img_lit(l['mode'], l['trns'], l['px']), lopts_lit(l['opts']), mask_lit(l['clip']))


# ----------------------------------------------------------------------------- PIL helpers

def rgba_pixels(img):
    b = img.convert('RGBA').tobytes()
    return [tuple(b[i:i + 4]) for i in range(0, len(b), 4)]


def raw_pixels(img):
    """pixels as the model stores them: RGB / L with a = 255 (a colour key is not applied), P resolved"""
    if img.mode == 'RGB':
        b = img.tobytes()
        return [tuple(b[i:i + 3]) + (255,) for i in range(0, len(b), 3)]
    if img.mode == 'L':
        return [(v, v, v, 255) for v in img.tobytes()]
    return rgba_pixels(img)


def band_values(img):
    return list(img.tobytes())


def bv(rng):
    return rng.choice([0, 0, 1, 2, 127, 128, 129, 253, 254, 255, 255, rng.randrange(256), rng.randrange(256)])


def pil_image(spec, size):
    """spec: dict(mode, px (resolved RGBA), trns, pal (for P: list of (r,g,b,a)), idx (for P))"""
    from PIL import Image
    mode = spec['mode']
    if mode == 'RGBA':
        im = Image.new('RGBA', size)
        im.putdata([tuple(p) for p in spec['px']])
    elif mode == 'RGB':
        im = Image.new('RGB', size)
        im.putdata([tuple(p[:3]) for p in spec['px']])
        if spec['trns']:
            im.info['transparency'] = tuple(spec['trns'][1])
    elif mode == 'L':
        im = Image.new('L', size)
        im.putdata([p[0] for p in spec['px']])
    else:
        im = Image.new('P', size)
        flat = []
        for c in spec['pal']:
            flat.extend(c[:3])
        im.putpalette(flat)
        im.putdata(spec['idx'])
        if spec['trns']:
            alphas = [c[3] for c in spec['pal']]
            if spec['pal_trns_int'] is not None:
                im.info['transparency'] = spec['pal_trns_int']
            else:
                im.info['transparency'] = bytes(alphas)
    return im


OPACITIES = [None, None, None, None, 0.5, 0.25, 0.75, 0.3, 0.7, 0.1, 0.9, 1.0, 1.5, 0.99, 0.995, 0.0, 1.0 / 3, 0.6,
             0.123456789, 0.0039, 0.999999]


def gen_image(rng, n, alpha_kind=None, modes=('RGB', 'RGBA', 'RGBA', 'P', 'L')):
    mode = rng.choice(modes)
    if alpha_kind is None:
        alpha_kind = rng.choice(['opaque', 'binary', 'any', 'any'])

    def alpha():
        if alpha_kind == 'opaque':
            return 255
        if alpha_kind == 'binary':
            return rng.choice([0, 255])
        return bv(rng)
    spec = {'mode': mode, 'trns': None}
    if mode == 'RGBA':
        spec['px'] = [(bv(rng), bv(rng), bv(rng), alpha()) for _ in range(n)]
    elif mode == 'RGB':
        spec['px'] = [(bv(rng), bv(rng), bv(rng), 255) for _ in range(n)]
        if alpha_kind != 'opaque' and rng.random() < 0.5:
            key = spec['px'][rng.randrange(n)][:3] if rng.random() < 0.8 else (bv(rng), bv(rng), bv(rng))
            spec['trns'] = ('key', tuple(key))
    elif mode == 'L':
        spec['px'] = []
        for _ in range(n):
            v = bv(rng)
            spec['px'].append((v, v, v, 255))
    else:
        k = rng.randrange(1, 5)
        kind = 'none' if alpha_kind == 'opaque' else rng.choice(['none', 'int', 'bytes'])
        pal = [(bv(rng), bv(rng), bv(rng), 255) for _ in range(k)]
        spec['pal_trns_int'] = None
        if kind == 'int':
            t = rng.randrange(k)
            pal[t] = pal[t][:3] + (0,)
            spec['pal_trns_int'] = t
            spec['trns'] = ('pal',)
        elif kind == 'bytes':
            pal = [c[:3] + (alpha(),) for c in pal]
            spec['trns'] = ('pal',)
        spec['pal'] = pal
        spec['idx'] = [rng.randrange(k) for _ in range(n)]
        spec['px'] = [pal[i] for i in spec['idx']]
    return spec


def effective_pixels(l):
    """RGBA pixels of a layer as the ideal compositor sees them (colour key, palette alpha, clip applied)"""
    out = []
    for k, p in enumerate(l['px']):
        a = p[3]
        if l['trns'] and l['trns'][0] == 'key' and tuple(p[:3]) == tuple(l['trns'][1]):
            a = 0
        ic = l.get('ideal_clip') or l['clip']
        if ic is not None and ic[k]:
            a = 0
        out.append((p[0], p[1], p[2], a))
    return out


def ref_compose(n, bg, bg_alpha, layers):
    """ideal float compositor: layers = list of (pixels RGBA ints, opacity factor in [0,1]); returns premultiplied"""
    acc = [(bg[0] / 255.0 * bg_alpha, bg[1] / 255.0 * bg_alpha, bg[2] / 255.0 * bg_alpha, float(bg_alpha))
           for _ in range(n)]
    for pxs, f in layers:
        for k in range(n):
            r, g, b, a = pxs[k]
            al = a / 255.0 * f
            d = acc[k]
            acc[k] = (r / 255.0 * al + d[0] * (1 - al), g / 255.0 * al + d[1] * (1 - al),
                      b / 255.0 * al + d[2] * (1 - al), al + d[3] * (1 - al))
    return acc


def ref_distance(actual, acc, skip=()):
    """largest premultiplied channel distance in 1/255 units (pixel indices in skip are not compared)"""
    worst = 0.0
    for k, (p, q) in enumerate(zip(actual, acc)):
        if k in skip:
            continue
        a = p[3] / 255.0
        for c in range(3):
            worst = max(worst, abs(p[c] / 255.0 * a - q[c]) * 255.0)
        worst = max(worst, abs(a - q[3]) * 255.0)
    if len(actual) != len(acc):
        return 999.0
    return worst


def opfactor(op):
    if op is None:
        return 1.0
    return min(max(float(op), 0.0), 1.0)


# ----------------------------------------------------------------------------- stream ops

def stream_ops(ctx):
    from PIL import Image, ImageChops
    from mapproxy.image import _make_transparent
    rng = ctx.rng
    N = ctx.n(1200, 12000)
    D = [(bv(rng), bv(rng), bv(rng), bv(rng)) for _ in range(N)]
    S = [(bv(rng), bv(rng), bv(rng), bv(rng)) for _ in range(N)]
    d = Image.new('RGBA', (N, 1))
    d.putdata(D)
    s = Image.new('RGBA', (N, 1))
    s.putdata(S)
    out = rgba_pixels(Image.alpha_composite(d, s))
    terms = ['(%s, %s, %s)' % (pxl(D[i]), pxl(S[i]), pxl(out[i])) for i in range(N)]
    ctx.corr_check('op_alpha_composite', 'Compose', 'px * px * px', terms,
                   "fun c => let '(d, s, o) := c in px_eqb (ac_px d s) o",
                   lambda i: {'op': 'alpha_composite', 'dst': D[i], 'src': S[i], 'pillow': out[i]})
    d3 = Image.new('RGB', (N, 1))
    d3.putdata([p[:3] for p in D])
    r = d3.copy()
    r.paste(s, (0, 0), s)
    out2 = rgba_pixels(r)
    terms = ['(%s, %s, %s)' % (pxl(D[i][:3] + (255,)), pxl(S[i]), pxl(out2[i])) for i in range(N)]
    ctx.corr_check('op_paste_mask', 'Compose', 'px * px * px', terms,
                   "fun c => let '(d, s, o) := c in px_eqb (paste_mask_px false d s) o",
                   lambda i: {'op': 'paste with mask', 'dst': D[i][:3], 'src': S[i], 'pillow': out2[i]})
    ctx.evaluations += 2 * N
    # multiply / fade factor / blend
    ops = [o for o in OPACITIES if o is not None] + [rng.random() for _ in range(ctx.n(10, 60))] + \
          [rng.randrange(0, 1000) / 1000.0 for _ in range(ctx.n(10, 60))] + [k / 255.0 for k in (1, 51, 128, 153, 254)]
    M = ctx.n(60, 300)
    t_mul, t_bl, d_mul, d_bl = [], [], [], []
    for op in ops:
        A = [bv(rng) for _ in range(M)]
        B = [bv(rng) for _ in range(M)]
        a = Image.new('L', (M, 1))
        a.putdata(A)
        b = Image.new('L', (M, 1))
        b.putdata(B)
        f = int(255 * op)
        if 0 <= f <= 255:
            o1 = band_values(ImageChops.multiply(a, ImageChops.constant(a, f)))
            for i in range(M):
                t_mul.append('(%s, %d, %d, %d)' % (fl_lit(op), f, A[i], o1[i]))
                d_mul.append({'op': 'multiply', 'opacity': op, 'int(255*opacity)': f, 'alpha': A[i], 'pillow': o1[i]})
        if op < 1.0:
            o2 = band_values(Image.blend(a, b, op))
            for i in range(M):
                t_bl.append('(%s, %d, %d, %d)' % (fl_lit(op), A[i], B[i], o2[i]))
                d_bl.append({'op': 'blend', 'opacity': op, 'in1': A[i], 'in2': B[i], 'pillow': o2[i]})
    ctx.corr_check('op_fade', 'Compose', 'fl * Z * Z * Z', t_mul,
                   "fun c => let '(op, f, a, o) := c in (fade_factor op =? f) && (chop_mul a f =? o)",
                   lambda i: d_mul[i])
    ctx.corr_check('op_blend', 'Compose', 'fl * Z * Z * Z', t_bl,
                   "fun c => let '(op, a, b, o) := c in blend_band op a b =? o", lambda i: d_bl[i])
    ctx.evaluations += len(t_mul) + len(t_bl)
    # make_transparent
    K = ctx.n(300, 3000)
    terms, descr = [], []
    for four in (False, True):
        color = (bv(rng), bv(rng), bv(rng))
        tol = rng.choice([0, 1, 10, 30])
        P = []
        for _ in range(K):
            if rng.random() < 0.5:
                P.append(tuple(min(255, max(0, c + rng.randrange(-tol - 2, tol + 3))) for c in color) + (bv(rng),))
            else:
                P.append((bv(rng), bv(rng), bv(rng), bv(rng)))
        im = Image.new('RGBA' if four else 'RGB', (K, 1))
        im.putdata(P if four else [p[:3] for p in P])
        res = rgba_pixels(_make_transparent(im, color, tol))
        for i in range(K):
            p = P[i] if four else P[i][:3] + (255,)
            terms.append('(%s, %s, %d, %s, %s)' % (blit(four), rgbl(color), tol, pxl(p), pxl(res[i])))
            descr.append({'op': 'make_transparent', 'color': color, 'tolerance': tol, 'pixel': p, 'result': res[i]})
    ctx.corr_check('op_make_transparent', 'Compose', 'bool * rgb * Z * px * px', terms,
                   "fun c => let '(four, col, tol, p, o) := c in px_eqb (make_transparent_px four col tol p) o",
                   lambda i: descr[i])
    ctx.evaluations += len(terms)


# ----------------------------------------------------------------------------- stream merge (real LayerMerger)

def real_mask(size, bbox, cov):
    from mapproxy.image.mask import mask_polygons, image_mask_from_geom
    from mapproxy.srs import SRS
    geom = mask_polygons(bbox, SRS(4326), cov)
    m = image_mask_from_geom(size, bbox, geom)
    vals = band_values(m)
    if any(v not in (0, 255) for v in vals):
        raise ValueError('clip mask is not binary')
    return [v == 255 for v in vals]


def shape_geom(kind, w, h):
    """non-rectangular clip coverages on a w x h map (w, h >= 7 for the island shapes)"""
    from shapely.geometry import box, MultiPolygon
    if kind == 'lshape':
        return box(-1, -1, w + 1, h + 1).difference(box(w - 2, h - 2, w + 1, h + 1))
    if kind == 'two':
        return MultiPolygon([box(-1, -1, 2, h + 1), box(w - 2, -1, w + 1, h + 1)])
    ring = box(0, 0, w, h).difference(box(1, 1, w - 1, h - 1))
    island = box(2, 2, w - 2, h - 2)
    if kind == 'island':                 # enclosing polygon first
        return MultiPolygon([ring, island])
    if kind == 'island-first':           # valid MultiPolygon, island listed before the polygon whose hole holds it
        return MultiPolygon([island, ring])
    raise ValueError(kind)


def cov_geometry(c):
    """shapely geometry of a coverage description {'bbox': ..} / {'shape': .., 'w': .., 'h': ..}"""
    from shapely.geometry import box
    if c.get('shape'):
        return shape_geom(c['shape'], c['w'], c['h'])
    return box(*c['bbox'])


def ideal_outside(geom, bbox, size, exact):
    """per pixel: True = outside the coverage, False = inside, None = within a pixel of the boundary (the
    rasteriser shrinks exteriors by 0.1 px and clears every pixel a hole touches: not decided by the oracle).
    exact: pixel-aligned rectangle, decided by the pixel centre."""
    from shapely.geometry import Point
    w, h = size
    out = []
    for j in range(h):
        for i in range(w):
            pt = Point(bbox[0] + (i + 0.5) * (bbox[2] - bbox[0]) / w, bbox[3] - (j + 0.5) * (bbox[3] - bbox[1]) / h)
            inside = geom.contains(pt)
            if not exact and geom.boundary.distance(pt) <= 0.75 * (bbox[2] - bbox[0]) / w:
                out.append(None)
            else:
                out.append(not inside)
    return out


def aligned(bb):
    return all(float(v) == int(v) for v in bb)


def gen_cov_bbox(rng, w, h):
    kind = rng.choice(['part', 'part', 'part', 'all', 'none', 'frac'])
    if kind == 'all':
        return [-1, -1, w + 1, h + 1]
    if kind == 'none':
        return [w + 2, h + 2, w + 5, h + 5]
    if kind == 'frac':
        x0 = rng.randrange(0, w * 4) / 4.0
        y0 = rng.randrange(0, h * 4) / 4.0
        return [x0, y0, x0 + rng.randrange(1, w * 4 + 1) / 4.0, y0 + rng.randrange(1, h * 4 + 1) / 4.0]
    x0 = rng.randrange(0, w)
    y0 = rng.randrange(0, h)
    return [x0, y0, rng.randrange(x0 + 1, w + 1), rng.randrange(y0 + 1, h + 1)]


def gen_merge_case(rng, valid):
    w, h = rng.choice([(1, 1), (2, 1), (2, 2), (3, 2), (3, 1), (1, 3)])
    shape = None
    if rng.random() < 0.06:
        w, h = 7, 7
        shape = rng.choice(['island', 'island', 'island', 'lshape', 'two', 'island-first'])
    n = w * h
    o = {'mode': rng.choice([None, None, None, 'P', 'RGB', 'RGBA']),
         'transparent': rng.choice([None, False, True, True]),
         'bgcolor': rng.choice([None, (bv(rng), bv(rng), bv(rng))])}
    nl = rng.choice([0, 1, 1, 1, 2, 2, 3, 4, 5])
    layers = []
    for _ in range(nl):
        declared = rng.choice([None, False, True, True])
        has_opts = rng.random() < 0.9
        # a layer not declared transparent may still deliver transparency (png8 with tRNS from a server that
        # ignores transparent=false, tile sources): only the single-layer shortcut relies on the declaration
        alpha_kind = 'opaque' if (valid and has_opts and not declared and rng.random() < 0.5) else None
        spec = gen_image(rng, n, alpha_kind)
        spec['opts'] = {'transparent': declared, 'opacity': rng.choice(OPACITIES)} if has_opts else None
        spec['cov'] = None
        spec['clip'] = None
        r = rng.random()
        if r < 0.25:
            spec['cov'] = {'bbox': gen_cov_bbox(rng, w, h), 'clip': r < 0.18}
            spec['cov']['raw_bbox'] = rng.random() < 0.5
        layers.append(spec)
    gcov = None
    if nl and rng.random() < 0.2:
        gcov = {'bbox': gen_cov_bbox(rng, w, h), 'clip': True, 'raw_bbox': rng.random() < 0.5}
    if shape and nl:
        c = {'shape': shape, 'w': w, 'h': h, 'clip': True, 'bbox': None}
        if rng.random() < 0.75:
            layers[rng.randrange(nl)]['cov'] = c
        else:
            gcov = c
    return {'w': w, 'h': h, 'opts': o, 'layers': layers, 'gcov': gcov, 'size_given': nl == 0 or rng.random() < 0.8}


def create_mode_py(o):
    if o['mode'] in (None, 'P'):
        return 'RGBA' if o['transparent'] else 'RGB'
    return o['mode']


def merge_triggers(case):
    """features of an input outside the contract of LayerMerger (not failures)"""
    trig = []
    o = case['opts']
    ls = case['layers']
    if len(ls) == 1 and ls[0]['opts'] is not None and not ls[0]['opts']['transparent'] and not o['transparent']:
        if any(p[3] < 255 for p in effective_pixels(ls[0])) and ls[0]['clip'] is None:
            trig.append('contract')       # a source declared non-transparent delivered transparency: not a failure
    return trig


def trig_island(case):
    cs = [l['cov'] for l in case['layers'] if l['cov']] + ([case['gcov']] if case['gcov'] else [])
    return any(c.get('shape') == 'island-first' for c in cs)


def merge_triggers_pre(case):
    c = dict(case)
    c['layers'] = [dict(l, clip=([True] * (case['w'] * case['h']) if (l['cov'] and l['cov']['clip']) else None))
                   for l in case['layers']]
    return [t for t in merge_triggers(c) if t != 'contract']


def run_merge_case(case):
    """returns observed (tag, mode, pixels) and fills the clip masks of the case"""
    from mapproxy.image import ImageSource, BlankImageSource
    from mapproxy.image.merge import LayerMerger
    from mapproxy.image.opts import ImageOptions
    from mapproxy.util.coverage import coverage
    from mapproxy.srs import SRS
    from shapely.geometry import box
    w, h = case['w'], case['h']
    size = (w, h)
    bbox = (0, 0, w, h)
    srs = SRS(4326)
    merger = LayerMerger()
    sources = []
    for l in case['layers']:
        im = pil_image(l, size)
        opts = None
        if l['opts'] is not None:
            opts = ImageOptions(transparent=l['opts']['transparent'], opacity=l['opts']['opacity'])
        cov = None
        if l['cov'] is not None:
            if l['cov'].get('raw_bbox'):
                cov = coverage(l['cov']['bbox'], srs, clip=l['cov']['clip'])      # BBOXCoverage
            else:
                cov = coverage(cov_geometry(l['cov']), srs, clip=l['cov']['clip'])  # GeomCoverage
            if l['cov']['clip']:
                l['clip'] = real_mask(size, bbox, cov)
                l['ideal_clip'] = l['clip']
                if l['cov'].get('shape') or aligned(l['cov']['bbox']):
                    # independent of mask.py: decided from the geometry
                    l['ideal_clip'] = ideal_outside(cov_geometry(l['cov']), bbox, size, not l['cov'].get('shape'))
        src = ImageSource(im, size=size, image_opts=opts)
        sources.append(src)
        merger.add(src, cov)
    gc = None
    case['gmask'] = None
    case['ideal_gmask'] = None
    if case['gcov'] is not None:
        if case['gcov'].get('raw_bbox'):
            gc = coverage(case['gcov']['bbox'], srs, clip=True)
        else:
            gc = coverage(cov_geometry(case['gcov']), srs, clip=True)
        case['gmask'] = real_mask(size, bbox, gc)
        case['ideal_gmask'] = case['gmask']
        if case['gcov'].get('shape') or aligned(case['gcov']['bbox']):
            case['ideal_gmask'] = ideal_outside(cov_geometry(case['gcov']), bbox, size, not case['gcov'].get('shape'))
    o = case['opts']
    ropts = ImageOptions(mode=o['mode'], transparent=o['transparent'], bgcolor=o['bgcolor'])
    try:
        res = merger.merge(ropts, size=size if case['size_given'] else None, bbox=bbox, bbox_srs='EPSG:4326', coverage=gc)
        if isinstance(res, BlankImageSource):
            tag = 0
        elif any(res is s for s in sources):
            tag = 1
        else:
            tag = 2
        im = res.as_image()
        return tag, im.mode, raw_pixels(im), rgba_pixels(im)
    except Exception as e:  # noqa
        return 9, 'raised:' + type(e).__name__, [], []


def merge_case_term(case, obs):
    tag, mode, pxs = obs[:3]
    n = case['w'] * case['h']
    obs_img = img_lit(mode if mode in ('RGB', 'RGBA', 'P', 'L') else 'L', None, pxs)
    return '(%d%%nat, %s, %s, %s, %d, %s)' % (n, ropts_lit(case['opts']), llit(case['layers'], layer_lit),
                                             mask_lit(case['gmask']), tag, obs_img)


MERGE_TYPE = 'nat * ropts * list layer * option (list bool) * Z * image'
MERGE_CHECK = ("fun c => let '(n, o, ls, cov, tag, obs) := c in let r := merge n o ls cov in "
               "(mresult_tag r =? tag) && image_eqb (result_image r) obs")


def describe_merge(case, obs):
    return {'size': [case['w'], case['h']], 'request_opts': case['opts'], 'global_coverage': case['gcov'],
            'size_given': case['size_given'],
            'layers': [{'mode': l['mode'], 'pixels': l['px'], 'transparency_info': l['trns'], 'image_opts': l['opts'],
                        'coverage': l['cov']} for l in case['layers']],
            'implementation': {'kind': {0: 'blank', 1: 'layer image returned unchanged', 2: 'merged', 9: 'raised'}[obs[0]],
                               'mode': obs[1], 'pixels': obs[2]}}


def oracle_merge(ctx, case, obs):
    tag, mode, _, pxs = obs
    rep = describe_merge(case, obs)
    if tag == 9:
        ctx.fail('merge,raised', 'LayerMerger.merge raised %s' % mode, rep)
        return
    trig = merge_triggers(case)
    if 'contract' in trig:
        return
    o = case['opts']
    n = case['w'] * case['h']
    bg = o['bgcolor'] or (255, 255, 255)
    rgba = create_mode_py(o) == 'RGBA'
    bg_alpha = 0.0 if (rgba and o['transparent']) else 1.0
    acc = ref_compose(n, bg, bg_alpha,
                      [(effective_pixels(l), opfactor(l['opts']['opacity'] if l['opts'] else None)) for l in case['layers']])
    skip = set()
    for l in case['layers']:
        if l.get('ideal_clip'):
            skip.update(k for k, v in enumerate(l['ideal_clip']) if v is None)
    if case['ideal_gmask'] is not None and case['layers']:
        blank = ref_compose(n, bg, bg_alpha, [])
        acc = [blank[k] if case['ideal_gmask'][k] else acc[k] for k in range(n)]
        skip.update(k for k, v in enumerate(case['ideal_gmask']) if v is None)
    tol = 2.0 + 1.5 * len(case['layers'])
    dist = ref_distance(pxs, acc, skip)
    if dist > tol:
        sig = trig[0] if trig else 'merge,composition-differs'
        ctx.fail(sig, 'LayerMerger result differs from the bottom-to-top over composition by %.1f/255 (tolerance %.1f)'
                 % (dist, tol), rep)


def stream_merge(ctx):
    rng = ctx.rng
    cases = []
    for fn in sorted(os.listdir(CORPUS)) if os.path.isdir(CORPUS) else []:
        if fn.startswith('merge') and fn.endswith('.json'):
            cases.append(json.load(open(os.path.join(CORPUS, fn)))['case'])
    ncorpus = len(cases)
    N = ctx.n(700, 6000)
    terms, descr = [], []
    done = 0
    while done < N + ncorpus:
        if done < ncorpus:
            case = cases[done]
        else:
            valid = rng.random() < 0.85
            case = gen_merge_case(rng, valid)
            case['valid'] = valid
            if valid and case['opts']['mode'] == 'RGB' and case['opts']['transparent']:
                case['opts']['mode'] = None      # explicit RGB with transparent=true: inconsistent request options
        done += 1
        if case['opts']['bgcolor'] is not None:
            case['opts']['bgcolor'] = tuple(case['opts']['bgcolor'])
        for l in case['layers']:
            l['px'] = [tuple(p) for p in l['px']]
            if l.get('pal'):
                l['pal'] = [tuple(p) for p in l['pal']]
            if l['trns']:
                l['trns'] = tuple(l['trns'][:1]) + tuple(tuple(x) for x in l['trns'][1:])
        obs = run_merge_case(case)
        nl = len(case['layers'])
        ctx.case(json.dumps(describe_merge(case, obs), sort_keys=True, default=repr),
                 nl >= 2 or any(l['opts'] and l['opts']['opacity'] is not None or l['clip'] or l['trns'] for l in case['layers']),
                 describe_merge(case, obs))
        ctx.count('merge:layers=%d' % nl)
        ctx.count('merge:result_mode=%s' % create_mode_py(case['opts']))
        ctx.count('merge:outcome=%d' % obs[0])
        for l in case['layers']:
            ctx.count('merge:layer_mode=%s' % l['mode'])
        if case.get('valid', True):
            oracle_merge(ctx, case, obs)
        terms.append(merge_case_term(case, obs))
        descr.append((case, obs))
    ctx.corr_check('merge', 'Compose', MERGE_TYPE, terms, MERGE_CHECK, lambda i: describe_merge(*descr[i]), shard=150)


# ----------------------------------------------------------------------------- stream wms (real application)

W = 5          # map is W x W pixels over bbox (dx, dy, dx + W, dy + W) in EPSG:4326, one world cell per pixel
URLS = ['http://u1.example/service', 'http://u2.example/service']


class World(object):
    """synthetic upstream: every layer name is a function world cell -> RGBA"""

    def __init__(self, rng, names, kind=None, white=(), solid=None):
        self.img = {}
        for nm in names:
            k = kind or rng.choice(['binary', 'binary', 'opaque', 'any'])
            cells = {}
            for x in range(-3, W + 3):
                for y in range(-3, W + 3):
                    a = 255 if k == 'opaque' else (rng.choice([0, 255, 255]) if k == 'binary' else bv(rng))
                    cells[(x, y)] = (bv(rng), bv(rng), bv(rng), a)
            if nm in white:          # opaque white content in the left part of the map
                for (x, y) in cells:
                    if x < 2:
                        cells[(x, y)] = (255, 255, 255, 255)
            if solid and nm in solid:   # one opaque colour everywhere (content independent of the seed)
                for c in cells:
                    cells[c] = tuple(solid[nm])
            self.img[nm] = cells
        self.log = []
        self.tags = threading.local()      # set by the interposition on LayerRenderer._render_layer
        self.raw = {}                      # what was answered to the render task with these source ids
        self.gate = None                   # completion order of the upstream answers (layer names, first answers first)
        self.done = {}                     # layer name -> Event, set when the request for it was answered

    def render(self, layers, transparent, bbox, size, url=None):
        # the two upstream servers render different content for the same layer name
        from PIL import Image
        w, h = size
        out = Image.new('RGBA', size, (255, 255, 255, 0 if transparent else 255))
        for nm in layers:
            lay = Image.new('RGBA', size)
            data = []
            for j in range(h):
                for i in range(w):
                    x = bbox[0] + (i + 0.5) * (bbox[2] - bbox[0]) / w
                    y = bbox[3] - (j + 0.5) * (bbox[3] - bbox[1]) / h
                    p = self.img[nm].get((int(x // 1), int(y // 1)), (0, 0, 0, 0))
                    data.append((p[1], p[2], p[0], p[3]) if url == URLS[1] else p)
            lay.putdata(data)
            out = Image.alpha_composite(out, lay)
        return out if transparent else out.convert('RGB')

    def open(self, url, data=None, method=None):
        from urllib.parse import urlparse, parse_qs
        u = urlparse(url)
        q = {k.lower(): v[0] for k, v in parse_qs(u.query).items()}
        layers = q['layers'].split(',')
        tr = q.get('transparent', 'false').lower() == 'true'
        bbox = [float(v) for v in q['bbox'].split(',')]
        size = (int(q['width']), int(q['height']))
        base = u.scheme + '://' + u.netloc + u.path
        self.log.append((base, layers, tr, getattr(self.tags, 'ids', None)))
        gate = self.gate or ()
        pos = [k for k, nm in enumerate(gate) if nm in layers]
        if pos and max(pos) > 0:
            # this upstream answers only after the one before it in the schedule has answered (and its result was
            # handed over to the pool)
            self.done[gate[max(pos) - 1]].wait(0.5)
            time.sleep(0.05)
        b = io.BytesIO()
        rendered_img = self.render(layers, tr, bbox, size, base)
        rendered_img.save(b, 'png')
        self.raw[repr(getattr(self.tags, 'ids', None))] = (rendered_img.mode, raw_pixels(rendered_img))
        for k in pos:
            self.done[gate[k]].set()
        b.seek(0)
        b.headers = {'Content-type': 'image/png'}
        b.code = 200
        return b


def gen_config(rng, avoid_known):
    nsrc = rng.randrange(2, 7)
    unames = ['u%d' % i for i in range(8)]
    sources = {}
    for i in range(nsrc):
        tr = rng.choice([True, True, True, False, False, None])
        s = {'url': URLS[0] if rng.random() < 0.7 else URLS[1],
             'layers': rng.sample(unames, rng.choice([1, 1, 2])),
             'transparent': tr, 'opacity': None, 'cov': None, 'res': None, 'tcolor': None}
        r = rng.random()
        if r < 0.3:
            s['opacity'] = rng.choice([0.5, 0.25, 0.3, 0.7, 1.0, 0.0, 0.995, 0.99, 1.5])
        r = rng.random()
        if r < 0.3:
            kind = rng.choice(['contains', 'disjoint', 'partial', 'partial-clip', 'partial-clip', 'lshape-clip',
                               'lshape-clip', 'two-clip'])
            if kind == 'lshape-clip':
                # not a rectangle: the extent contains the map, the polygon does not
                a, b = rng.randrange(2, W - 1), rng.randrange(2, W - 1)
                s['cov'] = {'bbox': None, 'clip': True, 'conf': {'clip': True, 'difference': [
                    {'bbox': [-3, -3, W + 3, W + 3], 'srs': 'EPSG:4326'},
                    {'bbox': [a, b, W + 3, W + 3], 'srs': 'EPSG:4326'}]}}
            elif kind == 'two-clip':
                s['cov'] = {'bbox': None, 'clip': True, 'conf': {'clip': True, 'union': [
                    {'bbox': [-3, -3, 2, W + 3], 'srs': 'EPSG:4326'},
                    {'bbox': [W - 1, -3, W + 3, W + 3], 'srs': 'EPSG:4326'}]}}
            elif kind == 'contains':
                s['cov'] = {'bbox': [-1, -1, W + 1, W + 1], 'clip': rng.random() < 0.5}
            elif kind == 'disjoint':
                s['cov'] = {'bbox': [W + 2, 0, W + 4, W], 'clip': rng.random() < 0.5}
            else:
                x0 = rng.randrange(0, W)
                y0 = rng.randrange(0, W)
                x1 = rng.randrange(x0 + 1, W + 1)
                y1 = rng.randrange(y0 + 1, W + 1)
                if [x0, y0, x1, y1] == [0, 0, W, W]:
                    x1 = W - 1
                s['cov'] = {'bbox': [x0, y0, x1, y1], 'clip': kind == 'partial-clip'}
        r = rng.random()
        if r < 0.2:
            s['res'] = rng.choice(['in', 'out'])
        if rng.random() < (0.3 if s['cov'] is not None and not s['cov'].get('conf') else 0.08):
            s['tcolor'] = (255, 255, 255)
        sources['s%d' % i] = s
    snames = sorted(sources)
    if rng.random() < 0.35:
        # two sources of one server with the same opacity (and nothing else that keeps them apart)
        a, b = rng.sample(snames, 2)
        op = rng.choice([0.5, 0.25, 0.7])
        for nm in (a, b):
            sources[nm].update(url=sources[a]['url'], opacity=op, transparent=True, cov=None, res=None, tcolor=None)
    if rng.random() < 0.25:
        # two sources of one server behind the same (not clipping) coverage, the upper one explicitly opaque
        a, b = rng.sample(snames, 2)
        cov = {'bbox': [0, 0, W, W], 'clip': False}
        sources[a].update(cov=dict(cov), transparent=True, opacity=None, res=None, tcolor=None)
        sources[b].update(cov=dict(cov), transparent=False, opacity=None, res=None, tcolor=None, url=sources[a]['url'])
    layers = []
    leafs = []
    counter = [0]

    def leaf():
        nm = 'l%d' % counter[0]
        counter[0] += 1
        leafs.append(nm)
        d = {'name': nm, 'title': nm, 'sources': rng.sample(snames, min(len(snames), rng.choice([1, 1, 2, 3])))}
        if rng.random() < 0.2:
            d['min_res'] = 1000      # layer never renders the query
        return d
    names = []
    for _ in range(rng.randrange(2, 5)):
        if rng.random() < 0.4:
            g = {'name': 'g%d' % counter[0], 'title': 'g', 'layers': [leaf() for _ in range(rng.randrange(1, 4))]}
            counter[0] += 1
            if rng.random() < 0.55:
                g['sources'] = rng.sample(snames, min(len(snames), rng.choice([1, 2])))
            if rng.random() < 0.3:
                g['layers'].append({'name': 'g%d' % counter[0], 'title': 'g', 'layers': [leaf()]})
                counter[0] += 1
            layers.append(g)
        else:
            layers.append(leaf())

    def collect(ls):
        for ly in ls:
            names.append(ly['name'])
            collect(ly.get('layers', []))
    collect(layers)
    return {'sources': sources, 'layers': layers, 'names': names,
            'concurrency': rng.choice([2, 2, 3]) if rng.random() < 0.15 else 1,
            # services.wms.bbox_srs: explicit extent of EPSG:4326; shifted requests reach beyond it
            'srs_extent': [0, 0, W, W] if rng.random() < 0.2 else None}


def write_config(cfg, d):
    import yaml
    srcs = {}
    for nm, s in cfg['sources'].items():
        c = {'type': 'wms', 'req': {'url': s['url'], 'layers': ','.join(s['layers'])}}
        if s['transparent'] is not None:
            c['req']['transparent'] = s['transparent']
        img = {}
        if s['opacity'] is not None:
            img['opacity'] = s['opacity']
        if s['tcolor'] is not None:
            img['transparent_color'] = '#%02x%02x%02x' % s['tcolor']
            img['transparent_color_tolerance'] = 5
        if img:
            c['image'] = img
        if s['cov'] is not None:
            if s['cov'].get('conf'):
                c['coverage'] = s['cov']['conf']
            elif s['cov']['clip'] and s['cov']['bbox'][0] % 2 == 0:
                c['coverage'] = {'union': [{'bbox': s['cov']['bbox'], 'srs': 'EPSG:4326'}], 'clip': True}
            else:
                c['coverage'] = {'bbox': s['cov']['bbox'], 'srs': 'EPSG:4326', 'clip': s['cov']['clip']}
        if s['res'] == 'in':
            c['min_res'] = 10000000
        elif s['res'] == 'out':
            c['min_res'] = 1000
        srcs[nm] = c
    wms_conf = {'md': {'title': 't'}, 'srs': ['EPSG:4326']}
    if cfg.get('concurrency', 1) > 1:
        wms_conf['concurrent_layer_renderer'] = cfg['concurrency']
    if cfg.get('srs_extent'):
        wms_conf['bbox_srs'] = [{'srs': 'EPSG:4326', 'bbox': cfg['srs_extent']}]
    conf = {'services': {'wms': wms_conf},
            'layers': cfg['layers'], 'sources': srcs,
            'globals': {'cache': {'base_dir': d + '/cache', 'lock_dir': d + '/locks'}, 'image': {'paletted': False}}}
    path = os.path.join(d, 'mapproxy.yaml')
    with open(path, 'w') as f:
        yaml.safe_dump(conf, f)
    return path


class Interner(object):
    def __init__(self):
        self.vals = []

    def code(self, v):
        for i, x in enumerate(self.vals):
            if x == v:
                return i + 1
        self.vals.append(v)
        return len(self.vals)


def src_term(s, query, ids, intern, size, bbox):
    """Gallina `src` for a real WMSSource object (attributes read from the object, predicates from its own methods)"""
    from mapproxy.source.wms import WMSSource
    wms = isinstance(s, WMSSource)
    res_ok = not (s.res_range and not s.res_range.contains(query.bbox, query.size, query.srs))
    cov = 0
    clip = None
    if s.coverage:
        if s.coverage.contains(query.bbox, query.srs):
            cov = 1
        elif s.coverage.intersects(query.bbox, query.srs):
            cov = 2
            from mapproxy.image import bbox_position_in_image
            from mapproxy.layer import MapExtent
            if s.extent and not s.extent.contains(MapExtent(query.bbox, query.srs)):
                sub_size = bbox_position_in_image(query.bbox, query.size, s.extent.bbox_for(query.srs))[0]
                if sub_size[0] == 0 or sub_size[1] == 0:
                    cov = 4         # touches the query only: _get_sub_query raises BlankImage
        else:
            cov = 3
    tmpl = s.client.request_template
    lnames = [intern['lname'].code(x) for x in tmpl.params.layers]
    tc = s.transparent_color
    return ('(mk_src %s %s %s %s %s %d %d %s %d %d %s %s %d %d)' % (
        llit(ids), blit(wms), blit(res_ok), obool(s.image_opts.transparent), opfl(s.opacity), cov,
        intern['url'].code(tmpl.url), llit(lnames), intern['srs'].code(s.supported_srs), intern['fmt'].code(s.supported_formats),
        'None' if tc is None else '(Some %s)' % rgbl(tc), olit(s.transparent_color_tolerance),
        0 if s.coverage is None else intern['cov'].code((s.coverage, bool(s.coverage.clip))),
        intern['dims'].code(query.dimensions_for_params(s.fwd_req_params))),
        {'res_ok': res_ok, 'cov': cov, 'wms': wms})


def wlayer_term(layer, srcmap):
    from mapproxy.service.wms import WMSGroupLayer
    if isinstance(layer, WMSGroupLayer):
        this = 'None'
        if layer.this:
            this = '(Some (%d, %s))' % (srcmap['name'](layer.this.name), llit(layer.this.map_layers, srcmap['src']))
        return '(WGroup %d %s %s %s)' % (srcmap['name'](layer.name), blit(srcmap['renders'](layer)), this,
                                         llit(layer.layers, lambda c: wlayer_term(c, srcmap)))
    return '(WLeaf %d %s %s)' % (srcmap['name'](layer.name), blit(srcmap['renders'](layer)),
                                 llit(layer.map_layers, srcmap['src']))


def expand_leaves(layer):
    """(layer name, sources) of the leaf layers an ideal renderer draws for one requested layer (bottom first)"""
    from mapproxy.service.wms import WMSGroupLayer
    if isinstance(layer, WMSGroupLayer):
        if layer.this:
            return [(layer.this.name, list(layer.this.map_layers))]
        out = []
        for c in layer.layers:
            out.extend(expand_leaves(c))
        return out
    return [(layer.name, list(layer.map_layers))]


def expand_ideal(layer):
    return [s for _, srcs in expand_leaves(layer) for s in srcs]


WMS_DEFS = """
Fixpoint lookup_key (t : list (list Z * layer)) (k : list Z) : option layer :=
  match t with [] => None | (k', v) :: r => if list_eqb Z.eqb k' k then Some v else lookup_key r k end.
Definition reqs_of (l : list src) : list (Z * list Z) :=
  map (fun s => (s_url s, s_lnames s)) (filter (fun s => negb (src_blank s)) l).
Definition req_eqb (a b : Z * list Z) : bool := (fst a =? fst b) && list_eqb Z.eqb (snd a) (snd b).
Fixpoint auth_of (l : list (Z * Z)) (k : Z) : Z :=
  match l with [] => 0 | (k', v) :: r => if k' =? k then v else auth_of r k end.
"""
WMS_TYPE = ('list wlayer * list (Z * Z) * list (list Z * layer) * nat * ropts * list (Z * list Z) * image * '
            'option (list (option nat))')
WMS_CHECK = ("fun c => let '(req, auth, table, n, o, log, obs, placement) := c in "
             "let rl := combined_layers (flat_map snd (select_layers_auth true (auth_of auth) req)) in "
             "let r := wms_map_auth true true (auth_of auth) (fun s => lookup_key table (s_ids s)) n o req in "
             "let img := match placement with Some pl => sub_image_source o (result_image r) pl "
             "| None => result_image r end in "
             "list_eqb req_eqb (reqs_of rl) log && image_eqb img obs")


def fixed_scenarios():
    """hand-written configurations and request sequences, run before the generated ones: one per mechanism"""
    def src(url, layers, tr, **kw):
        d = {'url': URLS[url], 'layers': layers, 'transparent': tr, 'opacity': None, 'cov': None, 'res': None,
             'tcolor': None}
        d.update(kw)
        return d

    def cfg(sources, layers, concurrency=1):
        names = []

        def collect(ls):
            for ly in ls:
                names.append(ly['name'])
                collect(ly.get('layers', []))
        collect(layers)
        return {'sources': sources, 'layers': layers, 'names': names, 'concurrency': concurrency}
    both = [(True, None, (0, 0)), (False, (10, 200, 30), (0, 0))]
    out = []
    # two sources of one server with equal opacity: each layer is faded on its own
    out.append((cfg({'s0': src(0, ['u0'], True, opacity=0.5), 's1': src(0, ['u1'], True, opacity=0.5)},
                    [{'name': 'l0', 'title': 'l0', 'sources': ['s0', 's1']}]),
                [(['l0'], t, bg, off) for t, bg, off in both]))
    # an opaque layer that does not render the query (layer level min_res) hides nothing
    out.append((cfg({'s0': src(0, ['u0'], False), 's1': src(1, ['u1'], False)},
                    [{'name': 'l0', 'title': 'l0', 'sources': ['s0']},
                     {'name': 'l1', 'title': 'l1', 'sources': ['s1'], 'min_res': 1000}]),
                [(['l0', 'l1'], t, bg, off) for t, bg, off in both]))
    # an opaque source clipped to a polygon that is not a rectangle: the map is inside the polygon's bbox only
    lshape = {'bbox': None, 'clip': True, 'conf': {'clip': True, 'difference': [
        {'bbox': [-3, -3, W + 3, W + 3], 'srs': 'EPSG:4326'}, {'bbox': [2, 2, W + 3, W + 3], 'srs': 'EPSG:4326'}]}}
    out.append((cfg({'s0': src(0, ['u0'], False), 's1': src(1, ['u1'], False, cov=lshape)},
                    [{'name': 'l0', 'title': 'l0', 'sources': ['s0']}, {'name': 'l1', 'title': 'l1', 'sources': ['s1']}]),
                [(['l0', 'l1'], t, bg, off) for t, bg, off in both]))
    # request sequence: a request that is only partly inside the coverage, then the full one
    cov = {'bbox': [0, 0, W, W], 'clip': False}
    out.append((cfg({'s0': src(0, ['u0'], True, cov=dict(cov)), 's1': src(0, ['u1'], False, cov=dict(cov))},
                    [{'name': 'l0', 'title': 'l0', 'sources': ['s0', 's1']}]),
                [(['l0'], True, None, (0, 0)), (['l0'], True, None, (2, 0)), (['l0'], True, None, (0, 0)),
                 (['l0'], False, None, (-1, 1)), (['l0'], False, None, (0, 0))]))
    # same coverage geometry, one source clips, the other does not (coverage equality ignores the clip flag)
    out.append((cfg({'s0': src(0, ['u0'], True, cov=dict(lshape)),
                     's1': src(0, ['u1'], True, cov=dict(lshape, clip=False, conf=dict(lshape['conf'], clip=False)))},
                    [{'name': 'l0', 'title': 'l0', 'sources': ['s0', 's1']}, {'name': 'l1', 'title': 'l1', 'sources': ['s1', 's0']}]),
                [(['l0'], True, None, (0, 0)), (['l1'], True, None, (0, 0))]))
    # two sources with the same transparent_color; the upper one has key coloured content over the lower one
    keyed = cfg({'s0': src(0, ['u0'], True, tcolor=(255, 255, 255)), 's1': src(0, ['u1'], True, tcolor=(255, 255, 255))},
                [{'name': 'l0', 'title': 'l0', 'sources': ['s0', 's1']}])
    keyed['white'] = ('u1',)
    out.append((keyed, [(['l0'], True, None, (0, 0)), (['l0'], False, None, (0, 0))]))
    # authorisation: the opaque upper layer is removed (implicit member of a group) or limited to an area
    authc = cfg({'s0': src(0, ['u0'], False), 's1': src(1, ['u1'], False), 's2': src(1, ['u2'], True)},
                [{'name': 'l0', 'title': 'l0', 'sources': ['s0']},
                 {'name': 'g1', 'title': 'g', 'layers': [{'name': 'l2', 'title': 'l2', 'sources': ['s1']},
                                                        {'name': 'l3', 'title': 'l3', 'sources': ['s2']}]},
                 {'name': 'l4', 'title': 'l4', 'sources': ['s1']}])
    out.append((authc, [(['l0', 'g1'], True, None, (0, 0), None, {'deny': 'l2'}),
                        (['l0', 'l4'], True, None, (0, 0), None, {'limit': 'l4', 'bbox': [0, -1, 2, W + 1]}),
                        (['l0', 'g1'], False, None, (0, 0), None, {'limit': 'l2', 'bbox': [1, -1, 3, W + 1]}),
                        (['l0', 'g1'], True, None, (0, 0), None, None)]))
    # authorisation: a limited layer directly below (and above) an unrestricted layer of the same upstream server,
    # both combinable: the limit applies to the limited layer only, the neighbour is never swallowed by its request
    limc = cfg({'s0': src(0, ['u0'], True), 's1': src(0, ['u1'], True), 's2': src(0, ['u2'], None)},
               [{'name': 'l0', 'title': 'l0', 'sources': ['s0']}, {'name': 'l1', 'title': 'l1', 'sources': ['s1']},
                {'name': 'l2', 'title': 'l2', 'sources': ['s2', 's1']}])
    limc['solid'] = {'u0': (255, 0, 0, 255), 'u1': (0, 0, 255, 255), 'u2': (200, 200, 0, 255)}
    lim0 = {'limit': 'l0', 'bbox': [0, -1, 2, W + 1]}
    out.append((limc, [(['l0', 'l1'], False, (0, 255, 0), (0, 0), None, dict(lim0)),
                       (['l0', 'l1'], True, None, (0, 0), None, dict(lim0)),
                       (['l1', 'l0'], True, None, (0, 0), None, dict(lim0)),
                       (['l0', 'l1'], True, None, (1, 0), None, {'limit': 'l1', 'bbox': [2, -1, 4, W + 1]}),
                       (['l0', 'l2'], False, None, (0, 0), None, dict(lim0)),
                       (['l0', 'l1'], True, None, (0, 0), None, None)]))
    # explicit SRS extent of the service, a clipped source, requests that reach beyond the extent
    clipc = cfg({'s0': src(0, ['u0'], False), 's1': src(1, ['u1'], True, cov={'bbox': [1, 1, 4, 4], 'clip': True})},
                [{'name': 'l0', 'title': 'l0', 'sources': ['s0']}, {'name': 'l1', 'title': 'l1', 'sources': ['s1']}])
    clipc['srs_extent'] = [0, 0, W, W]
    out.append((clipc, [(['l0', 'l1'], True, None, (0, 0)), (['l0', 'l1'], True, None, (2, 1)),
                        (['l0', 'l1'], False, None, (-2, -1)), (['l1'], True, None, (1, -2)),
                        (['l0', 'l1'], True, None, (-1, 2), None, {'limit': 'l0', 'bbox': [1, -3, 3, W + 3]})]))
    # colour keyed overlay (server without transparency) behind a coverage, requests reaching beyond the coverage
    keyc = cfg({'s0': src(0, ['u0'], False), 's1': src(1, ['u1'], False, tcolor=(255, 255, 255), cov={'bbox': [0, 0, W, W], 'clip': False})},
               [{'name': 'l0', 'title': 'l0', 'sources': ['s0']}, {'name': 'l1', 'title': 'l1', 'sources': ['s1']}])
    out.append((keyc, [(['l0', 'l1'], True, None, (0, 0)), (['l0', 'l1'], True, None, (2, 0)),
                       (['l0', 'l1'], False, None, (-1, 2)), (['l1'], True, None, (1, 1))]))
    # concurrent rendering, more layers than renderer threads, the upstream of a lower layer answers last
    three = cfg({'s0': src(0, ['u0'], True), 's1': src(1, ['u1'], True), 's2': src(0, ['u2'], True)},
                [{'name': 'l%d' % i, 'title': 'l', 'sources': ['s%d' % i]} for i in range(3)], concurrency=2)
    out.append((three, [(['l0', 'l1', 'l2'], True, None, (0, 0), ('u1', 'u0')),
                        (['l1', 'l0', 'l2'], False, None, (0, 0), ('u0', 'u1')),
                        (['l0', 'l1', 'l2'], True, None, (0, 0), ('u1', 'u2')),
                        (['l2', 'l1', 'l0'], False, (1, 2, 3), (0, 0), ('u0', 'u2'))]))
    # as many renderer threads as layers: every completion order of the three upstream answers
    import itertools
    three3 = cfg({'s0': src(0, ['u0'], True), 's1': src(1, ['u1'], True), 's2': src(0, ['u2'], True)},
                 [{'name': 'l%d' % i, 'title': 'l', 'sources': ['s%d' % i]} for i in range(3)], concurrency=3)
    out.append((three3, [(['l0', 'l1', 'l2'], k % 2 == 0, None, (0, 0), perm)
                         for k, perm in enumerate(itertools.permutations(['u0', 'u1', 'u2']))]))
    # a layer with an unlimited and a limited source, requested outside the range of the limited one
    out.append((cfg({'s0': src(0, ['u0'], True), 's1': src(1, ['u1'], True, res='out'), 's2': src(1, ['u2'], True)},
                    [{'name': 'l0', 'title': 'l0', 'sources': ['s0', 's1']},
                     {'name': 'l1', 'title': 'l1', 'sources': ['s2']},
                     {'name': 'g2', 'title': 'g', 'layers': [{'name': 'l3', 'title': 'l3', 'sources': ['s1']},
                                                            {'name': 'l4', 'title': 'l4', 'sources': ['s0']}]}]),
                [(['l0'], True, None, (0, 0)), (['l1', 'l0'], False, None, (0, 0)), (['l1', 'g2'], True, None, (0, 0))]))
    return out


def layer_confs(cfg):
    out = {}

    def collect(ls):
        for ly in ls:
            out[ly['name']] = ly
            collect(ly.get('layers', []))
    collect(cfg['layers'])
    return out


def query_res(bbox):
    """resolution of the map request in m/px as ResolutionRange.contains computes it (EPSG:4326)"""
    from mapproxy.grid import deg_to_m
    return deg_to_m(bbox[2] - bbox[0]) / W


def explicit_range_ok(conf, bbox):
    """None when the layer has no configured range, else whether the request is inside it (from the YAML values)"""
    if conf is None or 'min_res' not in conf:
        return None
    return not (conf['min_res'] + 1e-6 <= query_res(bbox))


def stream_wms(ctx):
    import mapproxy.client.http as H
    from mapproxy.wsgiapp import make_wsgi_app
    from mapproxy.layer import MapQuery
    from mapproxy.srs import SRS
    from webtest import TestApp
    from PIL import Image
    rng = ctx.rng
    nconf = ctx.n(24, 200)
    nreq = ctx.n(8, 10)
    size = (W, W)
    n = W * W
    terms, descr = [], []
    sel_terms, sel_descr = [], []
    orig_open = H.HTTPClient.open
    from mapproxy.service.wms import LayerRenderer
    from mapproxy.source.wms import WMSSource
    orig_render = LayerRenderer._render_layer
    orig_combined = WMSSource.combined_layer
    from mapproxy.image.merge import LayerMerger
    orig_add = LayerMerger.add
    added = {}             # id(image source) -> (ids, image source, coverage): what each render task produced
    add_order = []         # id(image source) in the order LayerMerger.add was called
    cur_ids = {}
    curworld = {}
    rng_ranges = []
    rng_descr = []
    src_images = []        # (transparent_color, tolerance, placement, upstream image, image returned by get_map)

    def ids_of(layer):
        from mapproxy.layer import LimitedLayer
        if isinstance(layer, LimitedLayer):
            layer = layer._layer
        return getattr(layer, '_c14_ids', None) or [cur_ids.get(id(layer), 0)]

    def rec_render(self, layer):
        curworld['w'].tags.ids = ids_of(layer)
        try:
            res = orig_render(self, layer)
        finally:
            curworld['w'].tags.ids = None
        if res[1] is not None:
            added[id(res[1])] = (ids_of(layer), res[1], layer.coverage)
            try:
                # WMSSource.get_map: upstream image -> (sub image) -> colour key, compared with the model (source_image)
                from mapproxy.layer import MapExtent
                from mapproxy.image import bbox_position_in_image
                q = self.query
                raw = curworld['w'].raw.get(repr(ids_of(layer)))
                tc, tol = getattr(layer, 'transparent_color', None), getattr(layer, 'transparent_color_tolerance', None)
                if raw is not None and isinstance(getattr(layer, '_layer', layer), WMSSource) and (tc is None or tol is not None):
                    placement = None
                    if layer.extent and not layer.extent.contains(MapExtent(q.bbox, q.srs)):
                        ssize, offs, _ = bbox_position_in_image(q.bbox, q.size, layer.extent.bbox_for(q.srs))
                        placement = [((j - offs[1]) * ssize[0] + (i - offs[0]))
                                     if (offs[0] <= i < offs[0] + ssize[0] and offs[1] <= j < offs[1] + ssize[1]) else None
                                     for j in range(q.size[1]) for i in range(q.size[0])]
                    pil = res[1].as_image()
                    src_images.append((tc, tol, placement, raw, (pil.mode, raw_pixels(pil))))
            except Exception as e:  # noqa
                src_images.append(('error', repr(e)))
        return res

    def rec_add(self, img, coverage=None):
        if img is not None:
            add_order.append(id(img))
        return orig_add(self, img, coverage)
    LayerMerger.add = rec_add

    def rec_combined(self, other, query):
        res = orig_combined(self, other, query)
        if res is not None:
            res._c14_ids = ids_of(self) + ids_of(other)
        return res
    LayerRenderer._render_layer = rec_render
    WMSSource.combined_layer = rec_combined
    fixed = fixed_scenarios()
    try:
        for ci in range(len(fixed) + nconf):
            if ci < len(fixed):
                cfg, planned = fixed[ci]
                avoid_known = False
                world = World(rng, ['u%d' % i for i in range(8)], kind='binary', white=cfg.get('white', ()),
                              solid=cfg.get('solid'))
            else:
                avoid_known = rng.random() < 0.75
                cfg, planned = gen_config(rng, avoid_known), None
                world = World(rng, ['u%d' % i for i in range(8)])
            d = ctx.tmpdir('wms')
            path = write_config(cfg, d)
            curworld['w'] = world
            confs = layer_confs(cfg)
            H.HTTPClient.open = lambda self, url, data=None, method=None, _w=world: _w.open(url, data, method)
            try:
                app = make_wsgi_app(path)
                server = app.handlers['service'].services['wms']
                tapp = TestApp(app)
            except Exception as e:  # noqa
                ctx.problem('harness', 'generated configuration rejected: %r' % (e,), cfg)
                continue
            cur = {'bbox': (0, 0, W, W)}
            cur['query'] = MapQuery(cur['bbox'], size, SRS(4326), 'image/png')
            intern = {k: Interner() for k in ('url', 'lname', 'srs', 'fmt', 'cov', 'dims', 'name')}
            src_ids = cur_ids
            src_ids.clear()
            snapshot = {}       # image_opts.transparent of every source as configured (before any request)

            def src_lit(s, _ids=src_ids, _snap=snapshot, _cur=cur):
                if id(s) not in _ids:
                    _ids[id(s)] = len(_ids) + 1
                    _snap[id(s)] = s.image_opts.transparent
                t, info = src_term(s, _cur['query'], [_ids[id(s)]], intern, size, _cur['bbox'])
                return t
            srcmap = {'name': lambda nm: intern['name'].code(nm), 'src': src_lit,
                      'renders': lambda ly, _cur=cur: bool(ly.renders_query(_cur['query']))}
            # correspondence of the predicates on the real objects: is_opaque, renders, map_layers
            for nm in cfg['names']:
                ly = server.layers[nm]
                real_op = bool(ly.is_opaque(cur['query']))
                t = wlayer_term(ly, srcmap)
                real_ml = [(intern['name'].code(k), [src_ids[id(s)] for s in v])
                           for k, v in ly.map_layers_for_query(cur['query'])]
                sel_terms.append('(%s, %s, %s)' % (t, blit(real_op), llit(
                    real_ml, lambda kv: '(%d, %s)' % (kv[0], llit(kv[1])))))
                sel_descr.append({'config': cfg, 'layer': nm, 'is_opaque': real_op, 'map_layers': real_ml})
                ctx.evaluations += 1
                # resolution range of the layer: configured, or merged from its members (sources / sub layers)
                from mapproxy.service.wms import WMSGroupLayer
                from mapproxy.grid import merge_resolution_range
                from functools import reduce
                q0 = cur['query']
                objs = [ly] + ([ly.this] if isinstance(ly, WMSGroupLayer) and ly.this else [])
                for o in objs:
                    if isinstance(o, WMSGroupLayer):
                        mem = list(o.layers) + ([o.this] if o.this else [])
                        explicit = None
                    else:
                        mem = list(o.map_layers)
                        explicit = explicit_range_ok(confs.get(o.name), cur['bbox'])
                    members = [(bool(m.res_range), not (m.res_range and not m.res_range.contains(q0.bbox, q0.size, q0.srs)))
                               for m in mem]
                    hull = True
                    if mem and all(h for h, _ in members):
                        hull = bool(reduce(merge_resolution_range, [m.res_range for m in mem]).contains(q0.bbox, q0.size, q0.srs))
                    real = bool(o.renders_query(q0))
                    rng_ranges.append('(%s, %s, %s, %s)' % (obool(explicit), llit(
                        members, lambda m: '(%s, %s)' % (blit(m[0]), blit(m[1]))), blit(hull), blit(real)))
                    rng_descr.append({'config': cfg, 'layer': o.name, 'configured_range_ok': explicit,
                                      'members (has range, renders)': members, 'merged_range_contains': hull,
                                      'renders_query': real})
                    ctx.evaluations += 1
            # requests (a sequence on one application instance)
            history = []
            first = None
            nthis = len(planned) if planned else nreq
            for ri in range(nthis + 1):
                if ri == nthis:
                    if first is None:
                        break
                    req_names, transparent, bg, off = first[0]      # the first request once more
                    gate = None
                    auth = first[2]
                elif planned:
                    req_names, transparent, bg, off = planned[ri][:4]
                    gate = planned[ri][4] if len(planned[ri]) > 4 else None
                    auth = planned[ri][5] if len(planned[ri]) > 5 else None
                else:
                    gate = None
                    auth = 'random' if rng.random() < 0.12 else None
                    if cfg.get('concurrency', 1) > 1 and rng.random() < 0.6:
                        used = sorted(set(x for sc in cfg['sources'].values() for x in sc['layers']))
                        if len(used) >= 2:
                            gate = tuple(rng.sample(used, min(len(used), rng.choice([2, 3, 3]))))
                    k = rng.choice([1, 1, 2, 2, 3, 3, 4, 5])
                    req_names = [rng.choice(cfg['names']) for _ in range(k)]
                    transparent = rng.random() < 0.5
                    bg = rng.choice([None, (bv(rng), bv(rng), bv(rng))])
                    off = (0, 0) if rng.random() < 0.7 else (rng.randrange(-2, 3), rng.randrange(-2, 3))
                bbox = (off[0], off[1], off[0] + W, off[1] + W)
                # WMSServer.map: a request beyond the SRS extent is answered from the part inside of it
                qbbox, qsize, placement, outside_extent = bbox, size, None, set()
                if cfg.get('srs_extent'):
                    from mapproxy.layer import MapExtent
                    from mapproxy.image import bbox_position_in_image
                    ext, qext = MapExtent(cfg['srs_extent'], SRS(4326)), MapExtent(bbox, SRS(4326))
                    if not ext.contains(qext):
                        lim = ext.intersection(qext)
                        qsize, offs, qbbox = bbox_position_in_image(bbox, size, lim.bbox)
                        placement = []
                        for j in range(W):
                            for i in range(W):
                                if offs[0] <= i < offs[0] + qsize[0] and offs[1] <= j < offs[1] + qsize[1]:
                                    placement.append((j - offs[1]) * qsize[0] + (i - offs[0]))
                                else:
                                    placement.append(None)
                                    outside_extent.add(j * W + i)
                cur['bbox'] = qbbox
                cur['query'] = query = MapQuery(qbbox, qsize, SRS(4326), 'image/png')
                if avoid_known and not planned and ri < nthis:
                    seen_keys, kept = set(), []
                    for nm in req_names:
                        ks = [k for k, _ in server.layers[nm].map_layers_for_query(query)]
                        if nm in kept or any(k in seen_keys for k in ks):
                            continue
                        kept.append(nm)
                        seen_keys.update(ks)
                    req_names = kept
                url = ('/service?SERVICE=WMS&VERSION=1.1.1&REQUEST=GetMap&LAYERS=%s&STYLES=&SRS=EPSG:4326&BBOX=%s'
                       '&WIDTH=%d&HEIGHT=%d&FORMAT=image/png&TRANSPARENT=%s' % (
                           ','.join(req_names), ','.join(str(v) for v in bbox), W, W, 'true' if transparent else 'false'))
                if bg is not None:
                    url += '&BGCOLOR=0x%02x%02x%02x' % bg
                if auth == 'random':
                    # authorize callback that removes an implicitly requested layer or limits one layer to an area
                    leaves = [(leaf, srcs) for nm in req_names for leaf, srcs in expand_leaves(server.layers[nm])]
                    plain = [leaf for leaf, srcs in leaves if not any(sc.coverage is not None and sc.coverage.clip for sc in srcs)]
                    implicit = [leaf for leaf, _ in leaves if leaf not in req_names]
                    auth = None
                    if implicit and rng.random() < 0.5:
                        auth = {'deny': rng.choice(implicit)}
                    elif plain:
                        x0 = bbox[0] + rng.randrange(0, W - 1)
                        auth = {'limit': rng.choice(plain), 'bbox': [x0, bbox[1] - 1, x0 + rng.randrange(1, 3), bbox[3] + 1]}
                env = {}
                if auth:
                    def authorize(service, layers, environ=None, _a=auth, **kw):
                        d_ = {}
                        for l_ in layers:
                            if l_ == _a.get('deny'):
                                continue
                            d_[l_] = {'map': True}
                            if l_ == _a.get('limit'):
                                d_[l_]['limited_to'] = {'geometry': _a['bbox'], 'srs': 'EPSG:4326'}
                        return {'authorized': 'partial', 'layers': d_}
                    env = {'mapproxy.authorize': authorize}
                auth_t = '[]'
                if auth:
                    auth_t = '[(%d, %d)]' % ((intern['name'].code(auth['deny']), 1) if 'deny' in auth
                                             else (intern['name'].code(auth['limit']), 2))
                # model terms are built BEFORE the request from the state of the real objects
                req_t = llit([server.layers[nm] for nm in req_names], lambda ly: wlayer_term(ly, srcmap))
                del world.log[:]
                added.clear()
                del add_order[:]
                world.done = {nm: threading.Event() for nm in (gate or ())}
                world.gate = gate
                try:
                    resp = tapp.get(url, expect_errors=True, extra_environ=env)
                    if resp.status_int != 200 or not resp.content_type.startswith('image/'):
                        obs = ('error', resp.status_int, resp.body[:200].decode('latin1'))
                    else:
                        im = Image.open(io.BytesIO(resp.body))
                        obs = ('image', im.mode, rgba_pixels(im))
                except Exception as e:  # noqa
                    obs = ('error', 0, repr(e)[:200])
                world.gate = None
                log = list(world.log)
                adds = [added[k] for k in add_order if k in added]       # in the order they were merged
                # upstream requests in the order their images were merged (concurrent rendering starts them in any order)
                by_ids = {}
                for e in log:
                    by_ids.setdefault(repr(e[3]), []).append(e)
                merged_log = [by_ids[repr(a[0])].pop(0) for a in adds if by_ids.get(repr(a[0]))]
                if len(merged_log) == len(log):
                    log = merged_log
                rep = {'config': cfg, 'sub_query_inside_srs_extent': None if placement is None else [list(qbbox), list(qsize)],
                       'authorize_callback': auth, 'upstream_schedule': None if gate is None else
                       'upstream layers answer in the order %s' % (list(gate),), 'previous_requests_on_this_application': list(history), 'request': url,
                       'layers': req_names, 'transparent': transparent, 'bgcolor': bg, 'bbox': bbox,
                       'upstream_requests': log, 'response': obs,
                       'upstream_layers': {k: sorted((list(c), v) for c, v in world.img[k].items()
                                                     if bbox[0] <= c[0] < bbox[2] and bbox[1] <= c[1] < bbox[3])
                                           for k in world.img}}
                history.append(url)
                if ri == nthis:
                    # same request, same application: the answer must not depend on what was asked in between
                    if obs != first[1]:
                        ctx.fail('wms,answer-depends-on-history', 'the first request of the sequence, repeated at the end, '
                                 'is answered differently', dict(rep, first_response=first[1]))
                    continue
                if first is None:
                    first = ((req_names, transparent, bg, off), obs, auth)
                nontrivial = len(req_names) >= 2
                ctx.case(json.dumps([cfg, req_names, transparent, bg, off, ri], sort_keys=True, default=repr), nontrivial,
                         {k: rep[k] for k in ('layers', 'transparent', 'bgcolor', 'bbox', 'upstream_requests', 'response')}
                         if len(ctx.samples) < 6 else None)
                ctx.count('wms:layers=%d' % len(req_names))
                ctx.count('wms:upstream_requests=%d' % len(log))
                ctx.count('wms:bbox=%s' % ('base' if off == (0, 0) else 'shifted'))
                ctx.count('wms:concurrent_layer_renderer=%d' % cfg.get('concurrency', 1))
                ctx.count('wms:request=%s' % ('beyond the SRS extent' if placement is not None else 'plain'))
                if obs[0] != 'image':
                    ctx.fail('wms,error', 'GetMap failed: %r' % (obs,), rep)
                    continue
                # ---- oracle: ideal composition of the individually rendered sources
                oracle_wms(ctx, server, req_names, transparent, bg, world, query, obs, rep, size, bbox, snapshot, confs, auth,
                           outside_extent)
                # ---- model
                if len(adds) != len(log):
                    ctx.problem('harness', 'number of merged images differs from number of upstream requests', rep)
                    continue
                table = []
                for (u, lnames, tr, _tag), (ids, img, cov) in zip(log, adds):
                    pil = img.as_image()
                    lay = {'mode': pil.mode if pil.mode in ('RGB', 'RGBA', 'P', 'L') else 'L',
                           'trns': (('pal',) if pil.mode == 'P' else ('key', pil.info['transparency']))
                           if 'transparency' in pil.info else None,
                           'px': raw_pixels(pil),
                           'opts': None if img.image_opts is None else
                           {'transparent': img.image_opts.transparent, 'opacity': img.image_opts.opacity},
                           'clip': real_mask(qsize, qbbox, cov) if (cov and cov.clip) else None}
                    key = llit(ids)
                    table.append('(%s, %s)' % (key, layer_lit(lay)))
                o = {'mode': None, 'transparent': transparent, 'bgcolor': bg}
                log_t = llit(log, lambda e: '(%d, %s)' % (intern['url'].code(e[0]),
                                                          llit([intern['lname'].code(x) for x in e[1]])))
                terms.append('(%s, %s, %s, %d%%nat, %s, %s, %s, %s)' % (
                    req_t, auth_t, '[' + '; '.join(table) + ']', qsize[0] * qsize[1], ropts_lit(o), log_t,
                    img_lit(obs[1] if obs[1] in ('RGB', 'RGBA', 'P', 'L') else 'L', None, obs[2]),
                    'None' if placement is None else '(Some %s)' % llit(
                        placement, lambda k: 'None' if k is None else '(Some %d%%nat)' % k)))
                descr.append(rep)
    finally:
        H.HTTPClient.open = orig_open
        LayerRenderer._render_layer = orig_render
        WMSSource.combined_layer = orig_combined
        LayerMerger.add = orig_add
    si_terms, si_descr = [], []
    for e in src_images:
        if e[0] == 'error':
            ctx.problem('harness', 'could not record a source image: %s' % e[1])
            continue
        tc, tol, placement, raw, got = e
        if raw[0] not in ('RGB', 'RGBA') or got[0] not in ('RGB', 'RGBA', 'P', 'L'):
            continue
        si_terms.append('(%s, %s, %s, %s, %s)' % (
            'None' if tc is None else '(Some %s)' % rgbl(tc), zlit(tol or 0),
            'None' if placement is None else '(Some %s)' % llit(placement, lambda k: 'None' if k is None else '(Some %d%%nat)' % k),
            img_lit(raw[0], None, raw[1]), img_lit(got[0], None, got[1])))
        si_descr.append({'transparent_color': tc, 'tolerance': tol, 'sub_image_placement': placement,
                         'upstream_image': raw, 'image_returned_by_get_map': got})
    ctx.evaluations += len(si_terms)
    ctx.corr_check('source_image', 'Compose', 'option rgb * Z * option (list (option nat)) * image * image', si_terms,
                   "fun c => let '(tc, tol, pl, raw, got) := c in image_eqb (source_image tc tol pl raw) got",
                   lambda i: si_descr[i], shard=150)
    ctx.corr_check('layer_range', 'Compose', 'option bool * list (bool * bool) * bool * bool', rng_ranges,
                   "fun c => let '(ex, members, hull, obs) := c in Bool.eqb (layer_res_ok ex members hull) obs",
                   lambda i: rng_descr[i], shard=400)
    ctx.corr_check('select', 'Compose', 'wlayer * bool * list (Z * list Z)', sel_terms,
                   "fun c => let '(w, op, ml) := c in Bool.eqb (w_is_opaque w) op && "
                   "list_eqb (fun a b => (fst a =? fst b) && list_eqb Z.eqb (snd a) (snd b)) "
                   "(map (fun kv => (fst kv, flat_map s_ids (snd kv))) (w_map_layers w)) ml",
                   lambda i: sel_descr[i], shard=200)
    ctx.corr_check('wms', 'Compose', WMS_TYPE, terms, WMS_CHECK, lambda i: descr[i], shard=40, defs=WMS_DEFS)


def wms_triggers(server, req_names, transparent, query, world, snapshot, confs=None, bbox=None, drawn=None):
    trig = []
    if len(set(req_names)) != len(req_names):
        trig.append('wms,duplicate-layer-name')
    keys = []
    for nm in req_names:
        ly = server.layers[nm]
        for k, _ in ly.map_layers_for_query(query):
            keys.append(k)
    if len(set(keys)) != len(keys) and 'wms,duplicate-layer-name' not in trig:
        trig.append('wms,duplicate-layer-name')
    allsrc = []
    for nm in req_names:
        allsrc.extend(expand_ideal(server.layers[nm]))
    if drawn is not None:
        allsrc = drawn      # the sources that are drawn for this request (layers / sources outside their range left out)
    for a, b in zip(allsrc, allsrc[1:]):
        if a.client.request_template.url == b.client.request_template.url and a.opacity is None and b.opacity is None:
            if a.transparent_color and b.transparent_color:
                # the colour key is applied to the image composited by the server: key coloured content of the
                # upper layer erases what is below it
                trig.append('wms,combine-transparent-color')
            # judged by the CONFIGURED transparent flag (snapshot), not by the current state of the object
            if snapshot.get(id(b), b.image_opts.transparent) is None or (
                    b.transparent_color and
                    str(b.client.request_template.params.get('transparent', 'false')).lower() != 'true'):
                # the upper source is still combined although its upstream request is not transparent (no
                # transparent flag at all, or transparent: false together with transparent_color): rendered alone
                # it is matted on the upstream background, combined the lower layers show through its holes
                trig.append('wms,combine-opaque-request')
    return trig


def oracle_wms(ctx, server, req_names, transparent, bg, world, query, obs, rep, size, bbox, snapshot, confs, auth=None,
               outside_extent=()):
    n = size[0] * size[1]
    layers = []
    # pixels outside the SRS extent of the service are not decided by the oracle (MapProxy leaves them transparent)
    skip = set(outside_extent)
    count = 0
    ideal_srcs = []
    for nm in req_names:
        # a leaf layer is drawn unless its CONFIGURED range excludes the request (judged from the YAML values, not
        # from layer.res_range); without a configured range every source decides for itself
        for leaf, srcs in expand_leaves(server.layers[nm]):
            if explicit_range_ok(confs.get(leaf), bbox) is False:
                continue
            if auth and auth.get('deny') == leaf:
                continue            # not permitted: not drawn, everything else is
            lim = auth['bbox'] if auth and auth.get('limit') == leaf else None
            ideal_srcs.extend((sc, lim) for sc in srcs)
    for _ in [0]:
        for s, lim in ideal_srcs:
            if s.res_range and not s.res_range.contains(query.bbox, query.size, query.srs):
                continue
            tmpl = s.client.request_template
            tr = str(tmpl.params.get('transparent', 'false')).lower() == 'true'
            pxs = rgba_pixels(world.render(list(tmpl.params.layers), tr, bbox, size, tmpl.url))
            if s.transparent_color:
                tol = s.transparent_color_tolerance
                pxs = [p[:3] + (0,) if all(abs(p[c] - s.transparent_color[c]) <= tol for c in range(3)) else p for p in pxs]
            if s.coverage:
                geom = getattr(s.coverage, 'geom', None)
                if geom is None:
                    from shapely.geometry import box
                    geom = box(*s.coverage.bbox)
                if not s.coverage.clip:
                    geom = geom.envelope        # without clip only the extent limits what is requested
                outside = ideal_outside(geom, bbox, size, geom.equals(geom.envelope))
                skip.update(k for k, v in enumerate(outside) if v is None)
                pxs = [p[:3] + (0,) if out else p for p, out in zip(pxs, outside)]
            if lim is not None:
                from shapely.geometry import box
                outside = ideal_outside(box(*lim), bbox, size, True)
                pxs = [p[:3] + (0,) if out else p for p, out in zip(pxs, outside)]
            layers.append((pxs, opfactor(s.opacity)))
            count += 1
    bgc = bg or (255, 255, 255)
    acc = ref_compose(n, bgc, 0.0 if transparent else 1.0, layers)
    tol = 2.0 + 1.5 * count
    dist = ref_distance(obs[2], acc, skip)
    if dist > tol:
        drawn = [sc for sc, _ in ideal_srcs
                 if not (sc.res_range and not sc.res_range.contains(query.bbox, query.size, query.srs))]
        trig = wms_triggers(server, req_names, transparent, query, world, snapshot, confs, bbox, drawn)
        sig = trig[0] if trig else 'wms,composition-differs'
        ctx.fail(sig, 'GetMap LAYERS=%s TRANSPARENT=%s BBOX=%s differs from the bottom-to-top composition of its layers by '
                 '%.1f/255 (tolerance %.1f)' % (','.join(req_names), transparent, ','.join(str(v) for v in bbox), dist, tol),
                 rep)


def run(ctx):
    only = os.environ.get('C14_ONLY')          # debugging aid: run a single stream
    if only in (None, 'ops'):
        stream_ops(ctx)
    if only in (None, 'merge'):
        stream_merge(ctx)
    if only in (None, 'wms'):
        stream_wms(ctx)
    if os.environ.get('C14_DUMP'):
        with open(os.environ['C14_DUMP'], 'w') as f:
            json.dump([x for x in ctx.failures if x['signature'].endswith('composition-differs')][:3], f, default=repr)
    sigs = {}
    for f in ctx.failures:
        sigs[f['signature']] = sigs.get(f['signature'], 0) + 1
    ctx.notes.append('oracle failures by signature: %r' % (sorted(sigs.items()),))
    if os.environ.get('VERIF_VERBOSE'):
        print('signatures', sorted(sigs.items()))
