"""C07  File locks are exclusive and semaphores bounded under every interleaving.

Model: coq/theories/Lock.v, theorems: coq/props/P_C07.v.
Tie: correspondence - 2-4 real FileLock / SemLock users run as threads on real lock files; every call the lock
code makes to the outside (open, fcntl.flock, os.stat, file close - explicit or by reference counting -,
os.remove, time.time, time.sleep, random.randint) is gated by a deterministic scheduler, so exactly one
contender performs exactly one call at a time, in the order a schedule (list of contender ids) dictates.
flock locks belong to the open file description, so the threads exclude each other through the kernel exactly
like processes do.  The observed (pid, call, result, user-visible event) sequence is replayed through
`Lock.step` inside Coq: every call must be the one the model expects in that control state and must return
what the model returns.
Oracle (independent of the model): never two contenders inside one FileLock path, never more than n inside a
SemLock; an attempt fails only against a flock held by another contender or after the lock file was removed by
another contender during the attempt; LockTimeout only at a clock reading >= start + timeout; a contender that
runs a whole attempt undisturbed while nobody holds or attempts must acquire; a poll (_try_lock) fails only if one of
its attempts met a holder, never on a free lock; cleanup_lockdir (a clean-up contender, modelled by Lock.stepc; lock
file modification times run on the scheduler's clock) unlinks only files older than max_lock_time - after such a
documented override two holders are counted, not reported; every raw write of the compact cache to a bundle happens
while the bundle lock is held (run_bundle_scope) and so does every creation of a bundle file (two first writers of a new
bundle, run_bundle_first_writers); two worker processes with different string-hash salts that take the tile lock (TileLocker) of the same tile of the same
cache exclude each other - they compute the same lock file (run_tile_lock_processes); cleanup_lockdir never examines or
unlinks the slot files of a semaphore that shares the lock directory (corpus sem-cleanup-witness, semaphore systems with a
clean-up contender); injected faults (flock fails with ENOLCK, os.remove of unlock fails with EPERM; schedule
entries with choice >= 100, modelled by Lock.step_fault): lock() never returns without its flock, a contender that has
returned from unlock() holds no flock on the file at the lock path.
"""
import errno
import glob
import itertools
import json
import os
import threading
import weakref

from common import blit, llit, zlit, VERIF

ID = 'C07'
TECHNIQUE = ('Coq proof (inductive invariant over all schedules of an unbounded number of processes) + correspondence '
             'check of the executable transition system against the real FileLock/SemLock under a deterministic scheduler')
LEVEL_TEXT = ('Theorems (P_C07.v) over the Gallina transition system of LockFile/_lock_file/FileLock.lock/unlock/SemLock._try_lock at '
              'file-system-call granularity, for every schedule (list of (process, call)), every number of processes and every '
              'mix of release styles on one path: mutex_keepfile, mutex_remove_on_unlock, mutex_per_lock_file (inductive invariant '
              'of 14 clauses: flock owner = holder, a constructed LockFile owns the inode its path names, left-over files have no '
              'name, ...), semaphore_bounded (<= n inside, pigeonhole over the per-file mutex), failed_attempt_means_held (flock '
              'refused => another process holds that inode), failed_check_means_held (identity check failed => another process was '
              'inside on that inode during the attempt and removed the file; history theorem), released_lock_acquirable (alone, <= 6 '
              'own calls), timeout_partial (LockTimeout only by a clock reading >= stop directly after a failed attempt that tried '
              'all n files), unlock_idempotent; with cleanup_lockdir in the system (stepc/runc): mutex_with_cleanup and '
              'semaphore_bounded_with_cleanup for schedules without an effective clean-up unlink, cleanup_age_guard (unlink only after a '
              'modification-time reading below clock - max_lock_time), cleanup_override_refuted (the documented take-over of old '
              'locks); with time in the model (tstep/treach: one clock, modification time = last open("w+") / pid write): '
              'cleanup_never_unlinks, cleanup_never_removes_held_file and mutex_timed for remove-on-unlock locks along runs in which '
              'no process keeps a lock file open longer than max_lock_time, cleanup_needs_timely_refuted; with environment faults (runf/stepf): '
              'mutex_with_faults, semaphore_bounded_with_faults, flock_fault_fails_attempt, remove_fault_releases; with the clean-up of a lock '
              'directory that holds semaphore slot files (runs/steps: the suffix test matches no `<name>.lck<i>`): semaphore_bounded_in_shared_lock_dir '
              '(every schedule, faults included, no condition on ages) and semaphore_files_never_removed.  Mutual exclusion is REFUTED (3 processes, 11 calls) for the same system without the identity check of '
              'commit 493c25f.  The model is tied to the code by running real lock users on real files under a scheduler that '
              'serialises their system calls and replaying the observed trace through Lock.step in Coq.')
LEVEL_NOTE = ('Trusted: Coq kernel, the hand-written model Lock.v, the scheduler harness.  Modelled, not verified: flock(2) '
              'semantics (exclusive per inode, owned by the open file description, released on close), unlink/open/stat '
              'semantics, no inode reuse while a descriptor is open, CPython reference counting closing a dropped LockFile. '
              'Not proved (false): clean-up safety for keep-the-file locks and for lock files left by a crashed holder - a stale file '
              'that nobody has open can be locked between the getmtime and the unlink of a clean-up pass.  Outside the statement: file_permissions/chmod, '
              'the Windows branch of lockfile.py, "continuously unavailable between two polls" (not expressible for a polling '
              'lock: timeout_partial says what is proved instead); released_lock_acquirable is for a process running alone '
              '(no fairness/liveness claim under contention).')
DESIGN_REF = 'DESIGN.md section 5, C07'
RULE = ('case = one schedule (lock kind, per-contender timeouts and lock/unlock/drop programs, sequence of contender ids and clock '
        'increments) run to completion; non-trivial = at least two contenders took steps and at least one attempt failed '
        '(flock refused or lock file replaced); distinct by configuration + executed (pid, call, result) sequence')
TRUSTED = ['model Lock.v hand-written from mapproxy/util/lock.py and mapproxy/util/ext/lockfile.py; tie = differential run of the '
           'real classes under a call-level scheduler vs Lock.step',
           'kernel flock/unlink/open semantics and CPython refcount-driven close are assumptions of the model']
ASSUMPTIONS = ['flock is exclusive per inode, belongs to the open file description and is released when it is closed',
               'an inode number is not reused while a descriptor on it is open',
               'every user of a lock path goes through FileLock/SemLock or cleanup_lockdir; the lock-user theorems on `run` have no clean-up '
               'process, those on `runc` require that no clean-up pass reaches its unlink',
               'open(path, "w+") and the pid write set the modification time of the lock file to the current clock (harness: os.utime)',
               'a dropped LockFile closes its file at once (reference counting)']
EXPLANATION = ('mutual exclusion / semaphore bound proved as an inductive invariant for all schedules; real lock code driven '
               'through chosen interleavings at system-call granularity and compared step by step with the model')

HANG_S = 20.0


class Abort(BaseException):
    pass


class Hang(Exception):
    pass


class GatedFile(object):
    """what open() returns to lockfile.py: close - explicit or when the object is dropped - is a scheduled call."""

    def __init__(self, sched, real, ino_id):
        self._sched = sched
        self._real = real
        self.name = real.name
        self.ino_id = ino_id
        self.locked = False
        self.is_closed = False

    def fileno(self):
        return self._real.fileno()

    def write(self, data):
        return self._real.write(data)

    def truncate(self, *a):
        return self._real.truncate(*a)

    def flush(self):
        r = self._real.flush()
        self._sched.touch(self._real.fileno())
        return r

    def close(self):
        if self.is_closed:
            return
        entry = self._sched.gate('close')
        self.is_closed = True
        self._sched.note_close(self, entry)
        self._real.close()

    def __del__(self):
        try:
            if self.is_closed:
                return
            if self._sched.aborting or not self._sched.active:
                self.is_closed = True
                self._real.close()
                return
            self.close()
        except Abort:
            try:
                self._real.close()
            except Exception:
                pass


class Proxy(object):
    def __init__(self, real, **over):
        self._real = real
        self.__dict__.update(over)

    def __getattr__(self, name):
        return getattr(self._real, name)


class Sched(object):
    """One run: contenders are threads; every gated call blocks until the scheduler grants it."""

    def __init__(self, conf, base):
        self.conf = conf
        self.base = base
        self.m = len(conf['contenders'])
        self.sems = [threading.Semaphore(0) for _ in range(self.m)]
        self.arrived = threading.Semaphore(0)
        self.pending = [None] * self.m
        self.finished = [False] * self.m
        self.tls = threading.local()
        self.active = True
        self.aborting = False
        self.clock = 0
        self.choice = 0
        self.trace = []
        self.cur = None
        self.weird = []            # things the model has no word for (unexpected exceptions ...)
        self.oracle_fail = []      # (signature, what)
        # inode naming
        self.ino_ids = {}
        self.next_id = 0
        # oracle bookkeeping
        self.inside = {}           # tid -> (slot, inode id)
        self.flock_holder = {}     # inode id -> tid
        self.removes = 0           # number of successful os.remove so far
        self.att = [None] * self.m  # per contender: current attempt {'removes0':, 'undisturbed':, 'quiet':}
        self.lock_call = [None] * self.m  # per contender: {'t0':, 'last_t':}
        self.open_files = [set() for _ in range(self.m)]
        self.max_inside = 0
        self.sem_slots = [None] * self.m  # per contender: lock files opened since the last random.randint
        self.poll_cause = [0] * self.m    # per contender: attempts of the current poll that met a holder / a removal
        self.cleaner = [None] * self.m    # per clean-up contender: {'expire':, 'm':} of the running cleanup_lockdir call
        self.overridden = False
        self.fault = False                # the call granted now fails with an environment fault (ENOLCK from flock, EPERM from remove)
        self.faults = 0
        self.phase = ['outside'] * self.m  # per contender: outside / locking / inside / unlocking
        self.max_span = 0                 # longest time any contender had a lock file open (from open to close / remove)
        self.override = False             # the age guard of cleanup_lockdir fired: the documented override of old locks

    # ------------------------------------------------------------------ contender side
    def tid(self):
        return getattr(self.tls, 'tid', None)

    def gate(self, opname):
        tid = self.tid()
        if tid is None or not self.active:
            return None
        if self.aborting:
            raise Abort()
        self.pending[tid] = opname
        self.arrived.release()
        self.sems[tid].acquire()
        if self.aborting:
            raise Abort()
        return self.cur

    def event(self, ev):
        tid = self.tid()
        if self.trace and self.trace[-1]['pid'] == tid:
            self.trace[-1]['events'].append(ev)
        else:
            self.weird.append('event %r of contender %r outside its step' % (ev, tid))

    def touch(self, fd):
        """the modification time of lock files is kept on the scheduler's clock: set when the file is created or
        truncated by open(path, 'w+') and when the pid is written (what the kernel does with the real clock)"""
        try:
            os.utime(fd, (self.clock, self.clock))
        except OSError as ex:
            self.weird.append('utime failed: %r' % (ex,))

    def slot_of(self, path):
        if path == self.base:
            return 0
        if path.startswith(self.base) and path[len(self.base):].isdigit():
            return int(path[len(self.base):])
        self.weird.append('unexpected path %r' % (path,))
        return 99

    # wrapped calls --------------------------------------------------------------
    def w_open(self, path, mode='r', *a, **kw):
        entry = self.gate('open')
        if entry is None:
            return open(path, mode, *a, **kw)
        tid = entry['pid']
        existed = os.path.lexists(path)
        real = open(path, mode, *a, **kw)
        self.touch(real.fileno())
        ino = os.fstat(real.fileno()).st_ino
        if not existed:
            self.ino_ids[ino] = self.next_id
            self.next_id += 1
        iid = self.ino_ids.get(ino, 777)
        k = self.slot_of(path)
        entry['res'] = ('open', k, iid, not existed)
        if self.sem_slots[tid] is not None:
            self.sem_slots[tid].add(k)
        if mode != 'w+':
            self.weird.append('open mode %r' % (mode,))
        f = GatedFile(self, real, iid)
        self.open_files[tid].add(id(f))
        # oracle: is everybody else away from this lock?
        quiet = not self.inside and all(self.att[q] is None for q in range(self.m) if q != tid)
        # NB: only a weak reference - a strong one held by the scheduler would move the reference-count close of a
        # dropped LockFile out of the contender's thread (and out of the schedule)
        self.att[tid] = {'removes0': self.removes, 'undisturbed': True, 'quiet': quiet, 'file': weakref.ref(f),
                         'ino': iid, 'fid': id(f), 'slot': k, 't_open': self.clock}
        return f

    def file_of_fd(self, tid, fd):
        a = self.att[tid]
        f = a['file']() if a is not None else None
        if f is not None and not f.is_closed and f.fileno() == fd:
            return f
        return None

    def w_flock(self, fd, flags):
        import fcntl
        entry = self.gate('flock')
        if entry is None:
            return fcntl.flock(fd, flags)
        tid = entry['pid']
        f = self.file_of_fd(tid, fd)
        if flags != (fcntl.LOCK_EX | fcntl.LOCK_NB) or f is None:
            self.weird.append('flock flags %r / unknown descriptor' % (flags,))
        if self.fault:
            # fault: the lock service fails with something other than "held by somebody else"; the attempt must fail
            self.faults += 1
            entry['res'] = ('flock', None)
            self.poll_cause[tid] += 1
            if self.att[tid] is not None:
                self.att[tid]['failed'] = True
                self.att[tid]['fault'] = True
            raise OSError(errno.ENOLCK, 'No locks available')
        try:
            fcntl.flock(fd, flags)
        except (IOError, OSError):
            entry['res'] = ('flock', False)
            if f is not None:
                holder = self.flock_holder.get(f.ino_id)
                if holder not in (None, tid) and self.phase[holder] == 'outside':
                    # the holder has returned from unlock(): it may keep a flock only on a file that it has unlinked
                    try:
                        still_named = self.ino_ids.get(os.stat(f.name).st_ino, 777) == f.ino_id
                    except OSError:
                        still_named = False
                    if still_named:
                        self.oracle_fail.append(('released-lock-still-held',
                                                 'flock of contender %d refused: contender %d has returned from unlock() but still holds '
                                                 'the flock of the file at the lock path' % (tid, holder)))
                if holder is None or holder == tid:
                    self.oracle_fail.append(('attempt-failed-on-free-lock',
                                             'flock of contender %d refused although no other contender holds a flock on that file' % tid))
                else:
                    self.poll_cause[tid] += 1
                self.att[tid]['failed'] = True
            raise
        entry['res'] = ('flock', True)
        if f is not None:
            f.locked = True
            self.flock_holder[f.ino_id] = tid

    def w_stat(self, path, *a, **kw):
        entry = self.gate('stat')
        if entry is None:
            return os.stat(path, *a, **kw)
        tid = entry['pid']
        self.slot_of(path)
        try:
            st = os.stat(path, *a, **kw)
        except (IOError, OSError):
            entry['res'] = ('stat', None)
            self.note_replaced(tid, None)
            raise
        iid = self.ino_ids.get(st.st_ino, 777)
        entry['res'] = ('stat', iid)
        self.note_replaced(tid, iid)
        return st

    def note_replaced(self, tid, iid):
        a = self.att[tid]
        if a is None:
            return
        if iid != a['ino']:
            a['failed'] = True
            if self.removes == a['removes0']:
                self.oracle_fail.append(('attempt-failed-on-free-lock',
                                         'contender %d found its lock file replaced although nobody removed it during the attempt' % tid))
            else:
                self.poll_cause[tid] += 1

    def note_close(self, f, entry):
        """bookkeeping when file object f is closed (entry None = outside the schedule)"""
        if f.locked and self.flock_holder.get(f.ino_id) is not None:
            del self.flock_holder[f.ino_id]
        f.locked = False
        if entry is None:
            return
        tid = entry['pid']
        entry['res'] = ('close',)
        self.open_files[tid].discard(id(f))
        a = self.att[tid]
        if a is not None and a['fid'] == id(f):
            # the file of the running attempt is closed: the attempt failed (or, for a lock that was taken, unlock)
            self.att[tid] = None

    def w_remove(self, path):
        entry = self.gate('remove')
        if entry is None:
            return os.remove(path)
        if self.slot_of(path) != 0:
            self.weird.append('remove of %r' % (path,))
        if self.fault:
            # fault: the lock file cannot be removed (read-only directory, EPERM); unlock() must release by closing
            self.faults += 1
            entry['res'] = ('remove', None)
            raise OSError(errno.EPERM, 'Operation not permitted')
        try:
            os.remove(path)
        except OSError:
            entry['res'] = ('remove', False)
            raise
        entry['res'] = ('remove', True)
        self.removes += 1
        # the lock is released: the attempt record of this contender ends (its file stays open)
        self.att[entry['pid']] = None

    def w_time(self):
        entry = self.gate('time')
        if entry is None:
            import time
            return time.time()
        entry['res'] = ('time', self.clock)
        tid = entry['pid']
        if self.conf['contenders'][tid].get('clean'):
            self.cleaner[tid] = {'expire': self.clock - self.conf['contenders'][tid]['timeout'], 'm': None}
            return float(self.clock)
        lc = self.lock_call[tid]
        if lc is None:
            self.lock_call[tid] = {'t0': self.clock, 'last': self.clock}
        else:
            lc['last'] = self.clock
            # this reading follows a LockError of _try_lock: some attempt of this poll must have met a holder (or a
            # removal by a holder); a poll that gives up without that, while the lock is free, is a failure to take a
            # released lock (and, at the deadline, a LockTimeout on a lock that was not unavailable)
            if self.poll_cause[tid] == 0:
                free = self.free_slots(tid)
                if free:
                    self.oracle_fail.append(('lock-error-on-free-lock',
                                             'contender %d: _try_lock failed without any attempt meeting a holder although '
                                             'no flock is held on %s' % (tid, ', '.join(free))))
            self.poll_cause[tid] = 0
            # this reading follows a LockError: a semaphore may give up only after trying each of its n files
            if self.conf['kind'] == 'sem' and self.sem_slots[tid] is not None:
                n = self.conf['contenders'][tid]['n']
                if self.sem_slots[tid] != set(range(n)):
                    self.oracle_fail.append(('semaphore-gave-up-without-trying-every-slot',
                                             'SemLock(n=%d) of contender %d raised LockError after trying only the files %s' % (
                                                 n, tid, sorted(self.sem_slots[tid]))))
        return float(self.clock)

    def w_listdir(self, d):
        entry = self.gate('list')
        if entry is None:
            return os.listdir(d)
        names = sorted(os.listdir(d))
        present = os.path.basename(self.base) in names and os.path.isfile(self.base)
        entry['res'] = ('list', present)
        bn = os.path.basename(self.base)
        if self.conf['kind'] == 'sem':
            # the slot files of the semaphore (l.lck0, l.lck1 ...) share the lock directory with the tile locks
            other = [n for n in names if not (n.startswith(bn) and n[len(bn):].isdigit())]
        else:
            other = [n for n in names if n != bn]
        if d != os.path.dirname(self.base) or other:
            self.weird.append('listdir of %r -> %r' % (d, names))
        return names

    def sem_file_touched(self, tid, what, path):
        """cleanup_lockdir(suffix='.lck') has no business with the slot files of a SemLock (`<name>.lck<i>`): nothing ever
        removes them, which is what keeps the semaphore bounded for holders of any age"""
        if self.conf['kind'] != 'sem':
            return False
        holder = None
        try:
            holder = self.flock_holder.get(self.ino_ids.get(os.stat(path).st_ino, 777))
        except OSError:
            pass
        self.oracle_fail.append(('cleanup-touches-semaphore-file',
                                 'cleanup_lockdir(suffix=.lck, max_lock_time %s) of contender %d %s the semaphore slot file %s%s' % (
                                     self.conf['contenders'][tid]['timeout'], tid, what, os.path.basename(path),
                                     '' if holder is None else ' while contender %d holds the slot' % holder)))
        return True

    def w_getmtime(self, path):
        entry = self.gate('mtime')
        if entry is None:
            return os.path.getmtime(path)
        if self.sem_file_touched(entry['pid'], 'examines', path):
            pass
        elif self.slot_of(path) != 0:
            self.weird.append('getmtime of %r' % (path,))
        c = self.cleaner[entry['pid']]
        try:
            m = os.path.getmtime(path)
        except OSError:
            entry['res'] = ('mtime', None)
            raise
        entry['res'] = ('mtime', int(m))
        if c is not None:
            c['m'] = int(m)
        return m

    def w_unlink(self, path):
        entry = self.gate('unlink')
        if entry is None:
            return os.unlink(path)
        tid = entry['pid']
        c = self.cleaner[tid]
        sem_file = self.sem_file_touched(tid, 'unlinks', path)
        if not sem_file and (self.slot_of(path) != 0 or c is None):
            self.weird.append('unlink of %r' % (path,))
        # the contract of cleanup_lockdir: only files older than max_lock_time are removed
        if c is not None and (c['m'] is None or not c['m'] < c['expire']):
            holder = None
            try:
                holder = self.flock_holder.get(self.ino_ids.get(os.stat(path).st_ino, 777))
            except OSError:
                pass
            self.oracle_fail.append(('cleanup-removed-young-lock-file',
                                     'cleanup_lockdir (max_lock_time %s, clock %s) unlinks a lock file modified at %s%s' % (
                                         self.conf['contenders'][tid]['timeout'], c['expire'] + self.conf['contenders'][tid]['timeout'], c['m'],
                                         '' if holder is None else ' while contender %d holds its flock' % holder)))
        try:
            os.unlink(path)
        except OSError:
            entry['res'] = ('unlink', False)
            raise
        entry['res'] = ('unlink', True)
        self.removes += 1
        if c is not None and c['m'] is not None and c['m'] < c['expire'] and not sem_file:
            # (the documented take-over of old locks is about `.lck` files; a semaphore has no such clause)
            self.override = True

    def free_slots(self, tid):
        """lock files of contender tid's lock that are absent or carry no flock of any contender"""
        c = self.conf['contenders'][tid]
        paths = [self.base + str(i) for i in range(c['n'])] if self.conf['kind'] == 'sem' else [self.base]
        free = []
        for pth in paths:
            try:
                iid = self.ino_ids.get(os.stat(pth).st_ino, 777)
            except OSError:
                free.append(os.path.basename(pth) + ' (absent)')
                continue
            if self.flock_holder.get(iid) is None:
                free.append(os.path.basename(pth) + ' (unlocked)')
        return free

    def w_sleep(self, secs):
        entry = self.gate('sleep')
        if entry is None:
            return
        entry['res'] = ('sleep',)

    def w_randint(self, a, b):
        entry = self.gate('rand')
        if entry is None:
            import random
            return random.randint(a, b)
        r = a + (self.choice % (b - a + 1)) if b >= a else a
        entry['res'] = ('rand', r)
        self.sem_slots[entry['pid']] = set()
        return r

    # ------------------------------------------------------------------ contender programs
    def make_lock(self, tid):
        from mapproxy.util.lock import FileLock, SemLock
        c = self.conf['contenders'][tid]
        if self.conf['kind'] == 'sem':
            return SemLock(self.base, c['n'], timeout=c['timeout'], step=1)
        return FileLock(self.base, timeout=c['timeout'], step=1, remove_on_unlock=c['rm'])

    def body(self, tid):
        from mapproxy.util.lock import LockTimeout
        self.tls.tid = tid
        lock = None
        try:
            lock = None if self.conf['contenders'][tid].get('clean') else self.make_lock(tid)
            self.gate_start(tid)
            for what in self.conf['contenders'][tid]['program']:
                if what == 'lock':
                    self.lock_call[tid] = None
                    self.poll_cause[tid] = 0
                    self.phase[tid] = 'locking'
                    try:
                        lock.lock()
                    except LockTimeout:
                        self.phase[tid] = 'outside'
                        self.on_timeout(tid)
                        self.event(('timeout',))
                    except Abort:
                        raise
                    except BaseException as ex:  # noqa
                        self.phase[tid] = 'outside'
                        self.weird.append('lock() of contender %d raised %s: %s' % (tid, type(ex).__name__, str(ex)[:200]))
                        self.event(('raised', type(ex).__name__))
                    else:
                        self.phase[tid] = 'inside'
                        self.on_acquired(tid, lock)
                elif what == 'unlock':
                    self.phase[tid] = 'unlocking'
                    try:
                        lock.unlock()
                    except Abort:
                        raise
                    except BaseException as ex:  # noqa
                        self.weird.append('unlock() of contender %d raised %s: %s' % (tid, type(ex).__name__, str(ex)[:200]))
                        self.event(('raised', type(ex).__name__))
                    self.phase[tid] = 'outside'
                elif what == 'clean':
                    import mapproxy.util.lock as L
                    try:
                        L.cleanup_lockdir(os.path.dirname(self.base), suffix='.lck',
                                          max_lock_time=self.conf['contenders'][tid]['timeout'], force=True)
                    except Abort:
                        raise
                    except BaseException as ex:  # noqa
                        self.weird.append('cleanup_lockdir of contender %d raised %s: %s' % (tid, type(ex).__name__, str(ex)[:200]))
                        self.event(('raised', type(ex).__name__))
                    self.cleaner[tid] = None
                elif what == 'drop':
                    # the idiom `with FileLock(...):` creates one object per critical section
                    lock = None
                    lock = self.make_lock(tid)
            lock = None
        except Abort:
            pass
        except BaseException as ex:  # noqa
            self.weird.append('contender %d crashed: %s: %s' % (tid, type(ex).__name__, str(ex)[:200]))
        finally:
            self.tls.tid = None
            lock = None
            self.finished[tid] = True
            self.arrived.release()

    def gate_start(self, tid):
        # nothing: the first gated call is the first step
        pass

    def on_acquired(self, tid, lock):
        try:
            lf = lock._lock
            k = self.slot_of(lf._path)
            iid = lf._fp.ino_id
        except Exception as ex:  # noqa
            self.weird.append('cannot inspect acquired lock: %r' % (ex,))
            k, iid = 99, 777
        self.event(('acquired', k, iid))
        try:
            if not lock._lock._fp.locked:
                self.oracle_fail.append(('inside-without-flock',
                                         'lock() of contender %d returned although its flock call did not succeed' % tid))
        except Exception:  # noqa
            pass
        a = self.att[tid]
        if a is not None and a.get('failed'):
            self.weird.append('lock() returned after a failed attempt without a new one')
        self.inside[tid] = (k, iid)
        self.max_inside = max(self.max_inside, len(self.inside))
        limit = self.conf['limit']
        if len(self.inside) > limit and self.override:
            self.overridden = True    # documented: a lock older than max_lock_time may be taken over
        elif len(self.inside) > limit:
            self.oracle_fail.append(('too-many-inside,' + self.conf['kind'],
                                     '%d contenders inside (%s) where at most %d are allowed' % (
                                         len(self.inside), sorted(self.inside.items()), limit)))

    def on_timeout(self, tid):
        lc = self.lock_call[tid]
        c = self.conf['contenders'][tid]
        if lc is None or lc['last'] < lc['t0'] + c['timeout']:
            self.oracle_fail.append(('early-timeout', 'LockTimeout of contender %d at clock %r, lock() started at %r with timeout %r' % (
                tid, lc and lc['last'], lc and lc['t0'], c['timeout'])))

    # ------------------------------------------------------------------ scheduler side
    def wait_arrival(self):
        if not self.arrived.acquire(timeout=HANG_S):
            raise Hang('a contender did not reach its next call within %.0f s' % HANG_S)

    def grant(self, pid, dt, choice):
        self.clock += dt
        self.fault = choice >= 100
        self.choice = choice % 100
        for q in range(self.m):
            if self.att[q] is not None:
                self.max_span = max(self.max_span, self.clock - self.att[q]['t_open'])
        entry = {'pid': pid, 'op': self.pending[pid], 'res': None, 'events': [], 'dt': dt}
        self.trace.append(entry)
        self.cur = entry
        # oracle: the first call after lock() returned is the release
        self.inside.pop(pid, None)
        for q in range(self.m):
            if q != pid and self.att[q] is not None:
                self.att[q]['undisturbed'] = False
        a = self.att[pid]
        self.sems[pid].release()
        self.wait_arrival()
        # oracle: an attempt that ran alone on a free lock must not fail
        if a is not None and a.get('failed') and not a.get('reported'):
            a['reported'] = True
            if a['quiet'] and a['undisturbed'] and not a.get('fault'):
                self.oracle_fail.append(('free-lock-not-acquired',
                                         'contender %d ran a whole attempt alone while nobody held or attempted the lock and failed' % pid))

    def run(self, schedule, max_steps):
        threads = [threading.Thread(target=self.body, args=(t,), daemon=True) for t in range(self.m)]
        hang = None
        try:
            for t in threads:
                t.start()
            for _ in range(self.m):
                self.wait_arrival()
            steps = 0
            for pid, dt, choice in schedule:
                if pid >= self.m or self.finished[pid]:
                    continue
                self.grant(pid, dt, choice)
                steps += 1
            rr = 0
            while not all(self.finished):
                if steps >= max_steps:
                    raise Hang('contenders did not finish within %d steps' % max_steps)
                pid = rr % self.m
                rr += 1
                if self.finished[pid]:
                    continue
                self.grant(pid, 1, rr % 6)
                steps += 1
        except Hang as ex:
            hang = str(ex)
        finally:
            self.aborting = True
            for s in self.sems:
                s.release()
            for t in threads:
                t.join(2.0)
            self.active = False
        return hang


class Patches(object):
    """Interpose on the names the lock modules use; everything else goes to the real modules."""

    def __init__(self):
        self.sched = None

    def __enter__(self):
        import fcntl
        import os as real_os
        import random as real_random
        import time as real_time
        import mapproxy.util.lock as L
        import mapproxy.util.ext.lockfile as LF
        self.L, self.LF = L, LF
        import logging
        self.logger = logging.getLogger('mapproxy.util.lock')
        self.level = self.logger.level
        self.logger.setLevel(logging.ERROR)   # "could not remove old lock file" is an expected branch here
        self.saved = {'L.os': L.os, 'L.time': L.time, 'L.random': L.random, 'LF.os': LF.os, 'LF.fcntl': LF.fcntl}
        me = self
        L.os = Proxy(real_os, remove=lambda p: me.sched.w_remove(p) if me.sched else real_os.remove(p),
                     listdir=lambda d: me.sched.w_listdir(d) if me.sched else real_os.listdir(d),
                     unlink=lambda p: me.sched.w_unlink(p) if me.sched else real_os.unlink(p),
                     path=Proxy(real_os.path, getmtime=lambda p: me.sched.w_getmtime(p) if me.sched else real_os.path.getmtime(p)))
        L.time = Proxy(real_time, time=lambda: me.sched.w_time() if me.sched else real_time.time(),
                       sleep=lambda s: me.sched.w_sleep(s) if me.sched else real_time.sleep(s))
        L.random = Proxy(real_random, randint=lambda a, b: me.sched.w_randint(a, b) if me.sched else real_random.randint(a, b))
        LF.os = Proxy(real_os, stat=lambda p, *a, **kw: me.sched.w_stat(p, *a, **kw) if me.sched else real_os.stat(p, *a, **kw))
        LF.fcntl = Proxy(fcntl, flock=lambda fd, fl: me.sched.w_flock(fd, fl) if me.sched else fcntl.flock(fd, fl))
        LF.open = lambda p, mode='r', *a, **kw: me.sched.w_open(p, mode, *a, **kw) if me.sched else open(p, mode, *a, **kw)
        return self

    def __exit__(self, *a):
        L, LF = self.L, self.LF
        self.logger.setLevel(self.level)
        L.os, L.time, L.random = self.saved['L.os'], self.saved['L.time'], self.saved['L.random']
        LF.os, LF.fcntl = self.saved['LF.os'], self.saved['LF.fcntl']
        try:
            del LF.open
        except AttributeError:
            pass
        self.sched = None


# ----------------------------------------------------------------------------- generators

def make_conf(kind, contenders):
    if kind == 'sem':
        limit = max(c['n'] for c in contenders)
    else:
        limit = 1
    return {'kind': kind, 'contenders': contenders, 'limit': limit}


def gen_program(rng, cycles, reuse):
    prog = []
    for _ in range(cycles):
        prog += ['lock', 'unlock']
        if not reuse or rng.random() < 0.3:
            prog.append('drop')
    return prog


def gen_conf(rng, kind=None):
    kind = kind or rng.choice(['file', 'file', 'file', 'sem'])
    m = rng.choice([2, 3, 3, 4])
    cont = []
    if kind == 'sem':
        n = rng.choice([1, 2, 2, 3])
        m = max(m, min(4, n + 1))
        for _ in range(m):
            cont.append({'n': n if rng.random() < 0.85 else rng.choice([1, 2, 3]), 'rm': False,
                         'timeout': rng.choice([0, 2, 4, 8, 30]),
                         'program': gen_program(rng, rng.choice([1, 2, 2, 3]), rng.random() < 0.5)})
        if rng.random() < 0.25:
            # the tile-lock clean-up shares the lock directory with the semaphore files (cache.lock_dir)
            cont.append(cleaner(rng.choice([0, 3, 10]), rng.choice([1, 2, 3])))
    else:
        style = rng.choice(['rm', 'rm', 'rm', 'keep', 'mixed'])
        for _ in range(m):
            rm = {'rm': True, 'keep': False, 'mixed': rng.random() < 0.5}[style]
            cont.append({'n': 1, 'rm': rm, 'timeout': rng.choice([0, 2, 4, 8, 30]),
                         'program': gen_program(rng, rng.choice([1, 2, 2, 3]), rng.random() < 0.5)})
        if rng.random() < 0.3:
            cont.append(cleaner(rng.choice([3, 10, 10, 1000]), rng.choice([1, 2, 3])))
    return make_conf(kind, cont)


def cleaner(max_lock_time, runs):
    """a process that runs cleanup_lockdir (TileLocker.lock does, on every 50th call)"""
    return {'clean': True, 'n': 1, 'rm': False, 'timeout': max_lock_time, 'program': ['clean'] * runs}


def cleanup_family(rng, count):
    """Schedules around: A holds the lock, B's failed attempt truncates A's lock file, a clean-up pass runs while A is
    inside, B (or D) tries again."""
    out = []
    base_seq = [0, 0, 0, 0, 1, 1, 1, 1, 2, 2, 2, 2, 1, 1, 1, 1, 1, 3, 3, 3, 3]
    for v in range(count):
        seq = list(base_seq)
        if v > 0:
            for _ in range(rng.choice([1, 1, 2, 3])):
                r = rng.random()
                if r < 0.4:
                    seq.insert(rng.randrange(len(seq) + 1), rng.randrange(4))
                elif r < 0.7:
                    del seq[rng.randrange(len(seq))]
                else:
                    i, j = rng.randrange(len(seq)), rng.randrange(len(seq))
                    seq[i], seq[j] = seq[j], seq[i]
        rm = True if v == 0 else rng.random() < 0.8
        cont = [{'n': 1, 'rm': rm, 'timeout': 30, 'program': ['lock', 'unlock', 'drop']},
                {'n': 1, 'rm': rm, 'timeout': 30, 'program': ['lock', 'unlock']},
                cleaner(10 if v == 0 else rng.choice([2, 10, 1000]), 1 if v == 0 else rng.choice([1, 2])),
                {'n': 1, 'rm': rm, 'timeout': 0 if v else 30, 'program': ['lock', 'unlock']}]
        out.append((make_conf('file', cont), [(p, 0 if v == 0 else rng.choice([0, 0, 1, 4]), 0) for p in seq], 'cleanup-family'))
    return out


def gen_schedule(rng, m, length):
    sched = []
    pid = rng.randrange(m)
    sticky = rng.choice([0.0, 0.3, 0.5, 0.7])
    for _ in range(length):
        if rng.random() >= sticky:
            pid = rng.randrange(m)
        sched.append((pid, rng.choice([0, 0, 0, 1, 1, 3]), rng.randrange(0, 6) + (100 if rng.random() < 0.05 else 0)))
    return sched


def f5_family(rng, count):
    """Schedules around the F5 witness: the owner unlinks while a contender sits between open and flock and a
    third contender re-creates the file."""
    out = []
    base_seq = [0, 0, 0, 0, 1, 1, 0, 0, 2, 2, 2, 2, 1, 1, 1, 1]
    progs = [['lock', 'unlock', 'drop'], ['lock', 'unlock'], ['lock', 'unlock', 'drop', 'lock', 'unlock']]
    for v in range(count):
        seq = list(base_seq)
        if v > 0:
            # perturb: move / insert / delete a few steps
            for _ in range(rng.choice([1, 1, 2, 3])):
                r = rng.random()
                if r < 0.4:
                    seq.insert(rng.randrange(len(seq) + 1), rng.randrange(3))
                elif r < 0.7 and len(seq) > 4:
                    del seq[rng.randrange(len(seq))]
                else:
                    i, j = rng.randrange(len(seq)), rng.randrange(len(seq))
                    seq[i], seq[j] = seq[j], seq[i]
        perm = [0, 1, 2]
        if v > 0:
            rng.shuffle(perm)
        cont = []
        for t in range(3):
            role = perm.index(t)
            cont.append({'n': 1, 'rm': True, 'timeout': rng.choice([5, 30]) if v else 30,
                         'program': list(progs[role] if v == 0 or rng.random() < 0.7 else gen_program(rng, 2, rng.random() < 0.5))})
        out.append((make_conf('file', cont), [(perm[p], 0, 0) for p in seq], 'f5-family'))
    return out


def exhaustive(m, length, conf_builder):
    for seq in itertools.product(range(m), repeat=length):
        yield conf_builder(), [(p, 0, 0) for p in seq], 'exhaustive'


def corpus_cases():
    out = []
    for fn in sorted(glob.glob(os.path.join(VERIF, 'corpus', 'C07', '*.json'))):
        try:
            d = json.load(open(fn))
            conf = make_conf(d['kind'], d['contenders'])
            out.append((conf, [tuple(x) for x in d['schedule']], 'corpus:' + os.path.basename(fn)))
        except Exception as ex:  # noqa
            out.append((None, None, 'corpus-unreadable:%s:%r' % (fn, ex)))
    return out


# ----------------------------------------------------------------------------- Coq terms

def conf_lit(conf):
    def one(c):
        if c.get('clean'):
            k = 'KClean'
        elif conf['kind'] == 'sem':
            k = '(KSem %d%%nat)' % c['n']
        else:
            k = '(KFile %s)' % blit(c['rm'])
        return '(mk_pconf %s %s)' % (k, zlit(c['timeout']))
    return llit(conf['contenders'], one)


IMPOSSIBLE = '(0%nat, OSleep, RRemove true, ETimeout)'


def obs_lit(e):
    """Gallina term for one observed step; something the model cannot produce when the observation is malformed."""
    res = e['res']
    if res is None or res[0] != e['op']:
        return IMPOSSIBLE
    kind = res[0]
    if kind == 'time':
        op, r = 'OTime %s' % zlit(res[1]), 'RUnit'
    elif kind == 'rand':
        op, r = 'ORand %d%%nat' % res[1], 'RUnit'
    elif kind == 'open':
        op, r = 'OOpen', 'ROpen %d%%nat %d%%nat %s' % (res[1], res[2], blit(res[3]))
    elif kind == 'flock' and res[1] is None:
        op, r = 'OFlockErr', 'RFlock false'
    elif kind == 'remove' and res[1] is None:
        op, r = 'ORemoveErr', 'RRemove false'
    elif kind == 'flock':
        op, r = 'OFlock', 'RFlock %s' % blit(res[1])
    elif kind == 'stat':
        op, r = 'OStat', 'RStat %s' % ('None' if res[1] is None else '(Some %d%%nat)' % res[1])
    elif kind == 'close':
        op, r = 'OClose', 'RUnit'
    elif kind == 'remove':
        op, r = 'ORemove', 'RRemove %s' % blit(res[1])
    elif kind == 'sleep':
        op, r = 'OSleep', 'RUnit'
    elif kind == 'list':
        op, r = 'OList', 'RList %s' % blit(res[1])
    elif kind == 'mtime':
        op, r = 'OMtime %s' % ('None' if res[1] is None else '(Some %s)' % zlit(res[1])), 'RUnit'
    elif kind == 'unlink':
        op, r = 'OUnlink', 'RRemove %s' % blit(res[1])
    else:
        return IMPOSSIBLE
    evs = e['events']
    if not evs:
        ev = 'ENone'
    elif len(evs) == 1 and evs[0][0] == 'acquired':
        ev = 'EAcquired %d%%nat %d%%nat' % (evs[0][1], evs[0][2])
    elif len(evs) == 1 and evs[0][0] == 'timeout':
        ev = 'ETimeout'
    else:
        return IMPOSSIBLE
    return '(%d%%nat, %s, %s, %s)' % (e['pid'], op, r, ev)


def compact_trace(trace):
    return [[e['pid'], list(e['res']) if e['res'] else [e['op'], '?']] + ([list(x) for x in e['events']] or []) for e in trace]


# ----------------------------------------------------------------------------- main

def run_one(ctx, patches, conf, schedule, origin, seq_no, lockdir):
    d = os.path.join(lockdir, 'c%d' % seq_no)
    os.makedirs(d, exist_ok=True)
    base = os.path.join(d, 'l.lck')
    s = Sched(conf, base)
    patches.sched = s
    try:
        hang = s.run(schedule, max_steps=len(schedule) + 600)
    finally:
        patches.sched = None
    for fn in glob.glob(base + '*'):
        try:
            os.unlink(fn)
        except OSError:
            pass
    try:
        os.rmdir(d)
    except OSError:
        pass
    return s, hang


def run(ctx):
    rng = ctx.rng
    lockdir = ctx.tmpdir('locks')
    todo = []
    for c in corpus_cases():
        if c[0] is None:
            ctx.problem('harness', c[2])
        else:
            todo.append(c)
    todo += f5_family(rng, ctx.n(60, 600))
    todo += cleanup_family(rng, ctx.n(60, 600))
    for _ in range(ctx.n(700, 6000)):
        conf = gen_conf(rng)
        todo.append((conf, gen_schedule(rng, len(conf['contenders']), rng.choice([10, 20, 30, 40, 60])), 'random'))
    if not ctx.quick:
        def two():
            return make_conf('file', [{'n': 1, 'rm': True, 'timeout': 30, 'program': ['lock', 'unlock', 'lock', 'unlock']},
                                      {'n': 1, 'rm': True, 'timeout': 30, 'program': ['lock', 'unlock', 'drop']}])

        def three():
            return make_conf('file', [{'n': 1, 'rm': True, 'timeout': 30, 'program': ['lock', 'unlock', 'drop']},
                                      {'n': 1, 'rm': True, 'timeout': 30, 'program': ['lock', 'unlock']},
                                      {'n': 1, 'rm': True, 'timeout': 30, 'program': ['lock', 'unlock']}])

        def sem3():
            return make_conf('sem', [{'n': 2, 'rm': False, 'timeout': 30, 'program': ['lock', 'unlock']} for _ in range(3)])
        todo += list(exhaustive(2, 11, two))
        todo += list(exhaustive(3, 8, three))
        todo += list(exhaustive(3, 7, sem3))
    else:
        def three_q():
            return make_conf('file', [{'n': 1, 'rm': True, 'timeout': 30, 'program': ['lock', 'unlock', 'drop']},
                                      {'n': 1, 'rm': True, 'timeout': 30, 'program': ['lock', 'unlock']},
                                      {'n': 1, 'rm': True, 'timeout': 30, 'program': ['lock', 'unlock']}])
        todo += list(exhaustive(3, 5, three_q))

    terms, descr = [], []
    sem_terms, sem_descr = [], []
    reported = set()
    with Patches() as patches:
        for seq_no, (conf, schedule, origin) in enumerate(todo):
            s, hang = run_one(ctx, patches, conf, schedule, origin, seq_no, lockdir)
            trace = s.trace
            results = [e['res'] for e in trace]
            refused = sum(1 for r in results if r == ('flock', False))
            replaced = count_replaced(trace)
            nfail = refused + replaced
            pids = set(e['pid'] for e in trace)
            nontrivial = len(pids) >= 2 and nfail > 0
            rep = {'origin': origin, 'kind': conf['kind'], 'contenders': conf['contenders'],
                   'schedule': [list(x) for x in schedule], 'trace': compact_trace(trace)}
            ctx.case((conf_lit(conf), tuple((e['pid'], e['res']) for e in trace)), nontrivial,
                     {'kind': conf['kind'], 'contenders': conf['contenders'], 'steps': len(trace),
                      'trace_head': compact_trace(trace[:25])})
            ctx.count('origin=' + origin.split(':')[0])
            ctx.count('kind=' + conf['kind'])
            ctx.count('contenders=%d' % len(conf['contenders']))
            ctx.count('steps', len(trace))
            ctx.count('flock-refused', refused)
            ctx.count('lock-file-replaced', replaced)
            ctx.count('timeouts', sum(1 for e in trace if ('timeout',) in e['events']))
            ctx.count('acquired', sum(1 for e in trace for ev in e['events'] if ev[0] == 'acquired'))
            ctx.count('max-inside=%d' % s.max_inside)
            ctx.count('injected-faults (flock ENOLCK / remove EPERM)', s.faults)
            ctx.count('cleanup-unlinks', sum(1 for r in results if r == ('unlink', True)))
            if s.overridden:
                ctx.count('old-lock-taken-over-after-cleanup (documented override, not a failure)')
            # theorem cleanup_never_unlinks, as an oracle on the real code: remove-on-unlock locks only, nobody has the lock
            # file open for longer than max_lock_time => no clean-up pass unlinks anything
            cleaners = [c for c in conf['contenders'] if c.get('clean')]
            if conf['kind'] == 'file' and cleaners and all(c['rm'] for c in conf['contenders'] if not c.get('clean')):
                if s.max_span <= min(c['timeout'] for c in cleaners):
                    ctx.count('timely-runs-with-cleanup')
                    if ('unlink', True) in results and 'cleanup-unlinked-in-timely-run' not in reported:
                        reported.add('cleanup-unlinked-in-timely-run')
                        ctx.fail('cleanup-unlinked-in-timely-run',
                                 'cleanup_lockdir removed a lock file although no contender had it open for longer than '
                                 'max_lock_time (longest: %s)' % s.max_span, rep)
            if hang:
                sig = 'hang'
                if sig not in reported:
                    reported.add(sig)
                    ctx.fail(sig, 'lock users did not terminate: ' + hang, rep)
            for sig, what in s.oracle_fail:
                if sig not in reported:
                    reported.add(sig)
                    ctx.fail(sig, what, rep)
            for w in s.weird[:3]:
                key = 'weird:' + w.split(':')[0][:60]
                if key not in reported:
                    reported.add(key)
                    if ' raised ' in w or 'crashed' in w:
                        ctx.fail('unexpected-exception', w, rep)
                    else:
                        ctx.problem('harness', 'unexpected behaviour of the lock code under the scheduler: ' + w, rep)
            obs = []
            for e in trace:
                if e.get('dt'):
                    obs.append('TTick %s' % zlit(e['dt']))
                if (conf['kind'] == 'sem' and conf['contenders'][e['pid']].get('clean') and e['res'] is not None
                        and (e['res'][0] == 'time' or e['res'] == ('list', False)) and not e['events']):
                    # Lock.v: "the files of a SemLock end in a digit and do not match the suffix" - in a semaphore system a
                    # clean-up pass is time.time(), os.listdir and nothing else (no step of the model); any further call of
                    # it (getmtime, unlink) is handed to the model, which has no such step
                    ctx.count('cleanup-passes-over-semaphore-files (calls: time, listdir only)', 1 if e['res'][0] == 'list' else 0)
                    continue
                obs.append('TObs %s' % obs_lit(e))
            if hang or s.weird:
                obs.append('TObs ' + IMPOSSIBLE)
            terms.append('(%s, [%s])' % (conf_lit(conf), '; '.join(obs)))
            descr.append(rep)
            if conf['kind'] == 'sem' and any(c.get('clean') for c in conf['contenders']):
                # the whole trace, clean-up calls included, through Lock.steps (semaphore users + the clean-up of a directory of
                # slot files: time, listdir -> nothing matches; + faults); untimed (the readings are checked by the replay above)
                full = [obs_lit(e) for e in trace] + ([IMPOSSIBLE] if hang or s.weird else [])
                sem_terms.append('(%s, [%s])' % (conf_lit(conf), '; '.join(full)))
                sem_descr.append(rep)
    # replay through the timed layer: Lock.stepc for calls and results, Lock.tstep for the readings (every time.time()
    # equals the clock, every getmtime equals the time of the last open('w+') / pid write of the file at the path)
    ctx.corr_check('lock_trace', 'Lock', 'list pconf * list tobs', terms,
                   "fun c => ttrace_ok true (fst c) (snd c)", lambda i: descr[i], shard=150)
    ctx.corr_check('sem_dir_trace', 'Lock', 'list pconf * list obs', sem_terms,
                   "fun c => sem_trace_ok true (fst c) (snd c)", lambda i: sem_descr[i], shard=150)
    run_bundle_scope(ctx)
    run_tile_lock_processes(ctx)


# ----------------------------------------------------------------------------- users of the lock: tile locks of two processes

TILE_LOCK_CHILD = r'''
import json, os, sys
sys.path.insert(0, sys.argv[1])
role, root, timeout = sys.argv[2], sys.argv[3], float(sys.argv[4])
coord = tuple(json.loads(sys.argv[5]))
out = {'ids': {}, 'files': {}, 'result': {}}
def caches():
    from mapproxy.cache.file import FileCache
    from mapproxy.cache.compact import CompactCacheV1, CompactCacheV2
    from mapproxy.cache.mbtiles import MBTilesCache, MBTilesLevelCache
    yield 'file', lambda: FileCache(os.path.join(root, 'file'), 'png')
    yield 'compact-v1', lambda: CompactCacheV1(os.path.join(root, 'cv1'))
    yield 'compact-v2', lambda: CompactCacheV2(os.path.join(root, 'cv2'))
    yield 'mbtiles', lambda: MBTilesCache(os.path.join(root, 'a.mbtiles'))
    yield 'sqlite-levels', lambda: MBTilesLevelCache(os.path.join(root, 'levels'))
    def gpkg():
        from mapproxy.cache.geopackage import GeopackageCache
        from mapproxy.grid import tile_grid
        return GeopackageCache(os.path.join(root, 'a.gpkg'), tile_grid(3857), 'tiles')
    yield 'geopackage', gpkg
from mapproxy.cache.base import TileLocker
from mapproxy.cache.tile import Tile
from mapproxy.util.lock import LockTimeout
held = []
for name, make in caches():
    try:
        cache = make()
        out['ids'][name] = cache.lock_cache_id
        locker = TileLocker(os.path.join(root, 'tile_locks'), timeout, cache.lock_cache_id)
        out['files'][name] = os.path.basename(locker.lock_filename(Tile(coord)))
        lock = locker.lock(Tile(coord))
        try:
            lock.lock()
            held.append(lock)
            out['result'][name] = 'inside'
        except LockTimeout:
            out['result'][name] = 'timeout'
    except Exception as ex:
        out['result'][name] = 'raised ' + type(ex).__name__ + ': ' + str(ex)[:120]
sys.stdout.write(json.dumps(out) + '\n')
sys.stdout.flush()
sys.stdin.readline()
for lock in held:
    lock.unlock()
'''


def run_tile_lock_processes(ctx):
    """Two worker PROCESSES (own interpreters, different string-hash salts as with the default PYTHONHASHSEED=random) serve
    the same caches with the same lock_dir.  Process A takes the tile lock of one tile of every cache kind (TileLocker of
    cache/base.py with the cache's lock_cache_id) and stays inside; process B then tries the same tile with a short
    lock_timeout.  Exclusion between processes exists only on one lock file: B must time out on every one, and both must
    have computed the same lock file name.  Deterministic (fixed tile, fixed salts; the outcome does not depend on timing:
    A is inside during the whole of B's attempt)."""
    import subprocess
    import sys
    from common import REPO
    root = ctx.tmpdir('tilelocks')
    coord = [3, 4, 5]
    procs = []
    outs = {}
    err = None
    try:
        for role, salt, timeout in (('A', '1', '5'), ('B', '2', '0.2')):
            env = dict(os.environ, PYTHONHASHSEED=salt)
            p = subprocess.Popen([sys.executable, '-c', TILE_LOCK_CHILD, REPO, role, root, timeout, json.dumps(coord)],
                                 stdin=subprocess.PIPE, stdout=subprocess.PIPE, stderr=subprocess.PIPE, env=env, text=True)
            procs.append(p)
            line = p.stdout.readline()
            try:
                outs[role] = json.loads(line)
            except ValueError:
                err = 'process %s printed %r' % (role, line[:200])
                break
    except Exception as ex:  # noqa
        err = '%s: %s' % (type(ex).__name__, str(ex)[:200])
    finally:
        for p in reversed(procs):
            try:
                so, se = p.communicate('\n', timeout=60)
                if err and se:
                    err += ' / stderr: ' + se.strip()[-300:]
            except Exception:  # noqa
                p.kill()
    if err:
        ctx.problem('harness', 'tile locks of two processes: ' + err)
        return
    a, b = outs['A'], outs['B']
    for name in sorted(a['result']):
        ra, rb = a['result'].get(name), b['result'].get(name)
        both = ra == 'inside' and rb == 'inside'
        ctx.case(('tile-lock-two-processes', name, ra, rb), ra == 'inside' and rb == 'timeout',
                 {'cache': name, 'tile': coord, 'process_A': ra, 'process_B': rb, 'lock_file_A': a['files'].get(name),
                  'lock_file_B': b['files'].get(name)})
        ctx.count('origin=tile-lock-two-processes')
        ctx.count('tile-lock-two-processes: A inside, B timed out', 1 if (ra == 'inside' and rb == 'timeout') else 0)
        rep = {'origin': 'tile-lock-two-processes', 'cache': name, 'tile': coord, 'PYTHONHASHSEED': {'A': 1, 'B': 2},
               'schedule': 'process A: TileLocker(lock_dir, 5, cache.lock_cache_id).lock(Tile(coord)).lock(), stays inside; '
                           'process B: the same with lock_timeout 0.2',
               'process_A': {'lock_cache_id': a['ids'].get(name), 'lock_file': a['files'].get(name), 'result': ra},
               'process_B': {'lock_cache_id': b['ids'].get(name), 'lock_file': b['files'].get(name), 'result': rb}}
        if both:
            ctx.fail('too-many-inside,tile-lock-of-two-processes',
                     '%s cache: process B entered the locked section of tile %r while process A was inside: A locked %s, B locked %s'
                     % (name, tuple(coord), a['files'].get(name), b['files'].get(name)), rep)
        elif ra != 'inside' or rb != 'timeout':
            if (ra or '').startswith('raised') and ra == rb and name == 'geopackage':
                ctx.count('tile-lock-two-processes: cache kind not constructible here (%s)' % name)
            else:
                ctx.fail('tile-lock-of-two-processes-unexpected', '%s cache: process A: %s, process B: %s (expected inside / timeout)'
                         % (name, ra, rb), rep)
        elif a['files'].get(name) != b['files'].get(name):
            ctx.fail('tile-lock-file-name-differs-between-processes',
                     '%s cache: the lock file of tile %r is %s in process A and %s in process B'
                     % (name, tuple(coord), a['files'].get(name), b['files'].get(name)), rep)


# ----------------------------------------------------------------------------- users of the lock: compact bundles

def run_bundle_scope(ctx):
    """The compact cache guards every modification of a bundle (.bundle / .bundlx) by the remove-on-unlock FileLock
    `<bundle>.lck` (compact.py BundleV1/BundleV2 store_tiles, remove_tile).  The lock excludes other writers only
    while it is held: every raw write() that reaches an existing bundle file through a read-write handle must
    happen between lock() returning and unlock() being called.  (Buffered writes count when they reach the file.)"""
    import io
    rng = ctx.rng
    try:
        import mapproxy.cache.compact as C
        from mapproxy.cache.tile import Tile
        from mapproxy.image import ImageSource
        from mapproxy.image.opts import ImageOptions
        from mapproxy.util.lock import FileLock as RealFileLock
    except Exception as ex:  # noqa
        ctx.problem('harness', 'cannot import the compact cache: %r' % (ex,))
        return
    log = []
    held = {}

    class ScopeLock(RealFileLock):
        def lock(self):
            RealFileLock.lock(self)
            held[self.lock_file] = held.get(self.lock_file, 0) + 1
            log.append(('lock', os.path.basename(self.lock_file)))

        def unlock(self):
            if self._locked:
                held[self.lock_file] = held.get(self.lock_file, 0) - 1
                log.append(('unlock', os.path.basename(self.lock_file)))
            RealFileLock.unlock(self)

    class TracedRaw(io.FileIO):
        def write(self, b):
            lock_file = os.path.splitext(self.name)[0] + '.lck'
            log.append(('write', os.path.basename(self.name), self.tell(), len(b), held.get(lock_file, 0) > 0))
            return io.FileIO.write(self, b)

    def traced_open(name, mode='r', *a, **kw):
        if mode == 'r+b' and not a and not kw:
            return io.BufferedRandom(TracedRaw(name, 'r+'))
        return open(name, mode, *a, **kw)

    def make_tile(coord, fill, size):
        return Tile(coord, ImageSource(io.BytesIO(bytes([fill]) * size), image_opts=ImageOptions(format='image/png')))

    real_write_atomic = C.write_atomic
    race = {'second': None, 'fired': None}

    def traced_write_atomic(filename, data):
        # creation of a bundle file = write a temporary file and rename it over the bundle path
        lock_file = os.path.splitext(filename)[0] + '.lck'
        inside_lock = held.get(lock_file, 0) > 0
        log.append(('create', os.path.basename(filename), len(data), inside_lock))
        second = race['second']
        if second is not None and not inside_lock and race['fired'] is None:
            # this writer sits between its exists() check and its rename, outside the lock: let a second writer of the same
            # bundle run its whole store now
            race['second'] = None
            race['fired'] = os.path.basename(filename)
            second()
        return real_write_atomic(filename, data)

    saved_lock = C.FileLock
    C.FileLock = ScopeLock
    C.open = traced_open
    C.write_atomic = traced_write_atomic
    base = ctx.tmpdir('bundles')
    reported = False
    created_reported = set()
    try:
        run_bundle_first_writers(ctx, C, Tile, make_tile, log, held, race, base)
        for case_no in range(ctx.n(24, 200)):
            version = rng.choice(['v1', 'v2'])
            cache_dir = os.path.join(base, 'c%d' % case_no)
            level = rng.choice([0, 3, 12])
            x0, y0 = (0, 0) if level < 7 else (rng.choice([0, 128, 4992]), rng.choice([0, 128, 896]))
            ops = []
            for _ in range(rng.choice([1, 2, 3, 5])):
                kind = rng.choice(['store', 'store', 'store_many', 'remove'])
                lim = min(128, 2 ** level)
                coords = [(x0 + rng.randrange(lim), y0 + rng.randrange(lim), level)
                          for _ in range(1 if kind != 'store_many' else rng.choice([2, 3, 5]))]
                ops.append((kind, coords, rng.randrange(1, 255), rng.choice([1, 100, 4000, 9000, 70000])))
            del log[:]
            held.clear()
            raised = None
            try:
                cache = (C.CompactCacheV1 if version == 'v1' else C.CompactCacheV2)(cache_dir)
                for kind, coords, fill, size in ops:
                    log.append(('op', kind, coords, size))
                    if kind == 'remove':
                        cache.remove_tile(Tile(coords[0]))
                    elif kind == 'store':
                        cache.store_tile(make_tile(coords[0], fill, size))
                    else:
                        cache.store_tiles([make_tile(c, fill, size) for c in coords])
            except Exception as ex:  # noqa
                raised = '%s: %s' % (type(ex).__name__, str(ex)[:200])
            writes = [e for e in log if e[0] == 'write']
            outside = [e for e in writes if not e[4]]
            nlocks = sum(1 for e in log if e[0] == 'lock')
            ctx.case(('bundle', version, tuple((k, tuple(c), sz) for k, c, _, sz in ops)), bool(writes),
                     {'bundle_version': version, 'ops': [(k, c, sz) for k, c, _, sz in ops], 'raw_writes': len(writes),
                      'locked_sections': nlocks})
            ctx.count('origin=bundle-scope')
            ctx.count('bundle-raw-writes', len(writes))
            ctx.count('bundle-locked-sections', nlocks)
            rep = {'origin': 'bundle-scope', 'bundle_version': version, 'ops': [[k, [list(c) for c in cs], f, sz] for k, cs, f, sz in ops],
                   'events': [list(map(lambda v: list(v) if isinstance(v, tuple) else v, e)) for e in log][:120]}
            if raised and not reported:
                reported = True
                ctx.fail('unexpected-exception', 'compact cache %s raised %s' % (version, raised), rep)
            if outside and not reported:
                reported = True
                e = outside[0]
                ctx.fail('bundle-write-outside-locked-section',
                         'compact %s: a write of %d bytes at offset %d reached %s while its bundle lock was not held (%d of %d '
                         'raw writes outside the locked section)' % (version, e[3], e[2], e[1], len(outside), len(writes)), rep)
            created_outside = [e for e in log if e[0] == 'create' and not e[3]]
            if created_outside and ('created', version) not in created_reported:
                created_reported.add(('created', version))
                e = created_outside[0]
                ctx.fail('bundle-created-outside-locked-section,' + version,
                         'compact %s: %s is created (temporary file renamed over the bundle path) while its bundle lock is not held: '
                         'a concurrent first writer of the bundle can have its file replaced' % (version, e[1]), rep)
            if writes and nlocks == 0 and not reported:
                reported = True
                ctx.fail('bundle-write-outside-locked-section', 'compact %s modified a bundle without taking its lock' % version, rep)
    finally:
        C.FileLock = saved_lock
        C.write_atomic = real_write_atomic
        try:
            del C.open
        except AttributeError:
            pass


def run_bundle_first_writers(ctx, C, Tile, make_tile, log, held, race, base):
    """Two first writers of one new bundle.  Writer B is stopped where it is about to create the bundle file while it does
    not hold the bundle lock (if the code has such a point); writer A (own cache object, same directory) then stores its
    tile completely; B goes on.  Afterwards both tiles must be readable with their own bytes."""
    rng = ctx.rng
    reported = set()
    for case_no in range(ctx.n(8, 60)):
        version = ['v1', 'v2'][case_no % 2]
        cls = C.CompactCacheV1 if version == 'v1' else C.CompactCacheV2
        cache_dir = os.path.join(base, 'w%d' % case_no)
        level = rng.choice([0, 3, 12])
        lim = min(128, 2 ** level)
        ca = (rng.randrange(lim), rng.randrange(lim), level)
        cb = (rng.randrange(lim), rng.randrange(lim), level)
        if ca == cb:
            cb = ((ca[0] + 1) % max(lim, 2), ca[1], level) if lim > 1 else None
        if cb is None:
            continue
        sa, sb = rng.choice([1, 500, 9000]), rng.choice([1, 700, 70000])
        b_op = rng.choice(['store', 'store', 'remove'])
        del log[:]
        held.clear()
        raised = None
        try:
            A, B = cls(cache_dir), cls(cache_dir)
            race['fired'] = None
            race['second'] = lambda: A.store_tile(make_tile(ca, 65, sa))
            if b_op == 'store':
                B.store_tile(make_tile(cb, 66, sb))
            else:
                B.remove_tile(Tile(cb))
            fired = race['fired']
            race['second'] = None
            ok_a = ok_b = True
            if fired:
                R = cls(cache_dir)
                ta = Tile(ca)
                ok_a = bool(R.load_tile(ta)) and ta.source is not None and ta.source.as_buffer().read() == bytes([65]) * sa
                if b_op == 'store':
                    tb = Tile(cb)
                    ok_b = bool(R.load_tile(tb)) and tb.source is not None and tb.source.as_buffer().read() == bytes([66]) * sb
        except Exception as ex:  # noqa
            raised = '%s: %s' % (type(ex).__name__, str(ex)[:200])
            fired, ok_a, ok_b = race['fired'], True, True
        finally:
            race['second'] = None
        ctx.case(('first-writers', version, ca, cb, sa, sb, b_op, fired), bool(fired),
                 {'bundle_version': version, 'writer_a': [ca, sa], 'writer_b': [b_op, cb, sb], 'b_stopped_at': fired})
        ctx.count('origin=bundle-first-writers')
        ctx.count('first-writers: B stopped outside the lock before creating a bundle file', 1 if fired else 0)
        rep = {'origin': 'bundle-first-writers', 'bundle_version': version, 'writer_a_stores': [list(ca), sa],
               'writer_b': [b_op, list(cb), sb],
               'schedule': 'B: %s until it is about to rename a new %s over the bundle path (lock not held); A: complete store_tile; '
                           'B: continues' % (b_op, fired)}
        if raised and 'exc' not in reported:
            reported.add('exc')
            ctx.fail('unexpected-exception', 'compact cache %s, two first writers: %s' % (version, raised), rep)
        if fired and not (ok_a and ok_b) and version not in reported:
            reported.add(version)
            ctx.fail('bundle-created-outside-locked-section,' + version,
                     'compact %s, two first writers of a new bundle: B replaces the bundle file after A stored its tile under the lock; '
                     'afterwards tile %r of A is %s, tile of B is %s' % (version, ca, 'intact' if ok_a else 'lost or foreign',
                                                                        'intact' if ok_b else 'lost or foreign'), rep)


def count_replaced(trace):
    """number of identity checks that found another (or no) file under the lock path"""
    last_open = {}
    n = 0
    for e in trace:
        r = e['res']
        if not r:
            continue
        if r[0] == 'open':
            last_open[e['pid']] = r[2]
        elif r[0] == 'stat' and r[1] != last_open.get(e['pid']):
            n += 1
    return n
