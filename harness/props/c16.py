"""C16  Invalid or oversized requests are refused before they cost anything.

Model: coq/theories/Limits.v (control flow of the tile services, WMS-C and WMS GetMap on a cached layer, returning
(answer, effects)), grid arithmetic from Grid.v; theorems: coq/props/P_C16.v.
Tie: correspondence - the real WSGI application (make_wsgi_app on generated YAML, driven through webtest) answers
tile requests of every tile service (TMS, /tiles, KML, WMTS KVP and REST, GetTile and GetFeatureInfo) and WMS
GetMap requests (plain and tiled=true) on random grids of the exact lattice (integer bbox, resolutions that are
multiples of 10: all float arithmetic of grid.py is exact) and on GLOBAL_MERCATOR / GLOBAL_WEBMERCATOR / sqrt2
grids; a recording upstream (HTTPClient.open replaced) and a recording cache (FileCache methods wrapped) give the
observed effects; Coq evaluates Limits.serve_tile / serve_map on the same request and cache state and compares
answer class and effects.
Oracle (independent of the model): invalid address / format / dimension value, pixel or tile limit exceeded =>
error answer and no upstream request and no cache write; every cache coordinate ever touched is inside the grid;
a WMS-C request (tiled=true) that causes any cache or upstream operation has a BBOX that is a tile of the tile set
(every border within 1/10 request pixel of the tile of some level under its centre; computed with mapproxy.grid /
gridlib only).  Fixed probes (seed independent): tiled requests 1/8 .. 8 pixels short of a tile at every border
combination, on two exact grids (also through the correspondence) and on GLOBAL_MERCATOR.
"""
import io
import json
import os
import re
from fractions import Fraction
from urllib.parse import urlparse, parse_qs, quote

from common import zlit, blit, llit, olit, VERIF
from gridlib import GridCase

ID = 'C16'
TECHNIQUE = ('Coq proof over a control-flow model (answer, effects) of the tile / map request paths + correspondence of the '
             'model with the real WSGI application under a recording upstream and a recording cache; the TILEMATRIX/row/col parsers and the max_tile_limit test are regenerated from the source by the ast translator (Gen_wmts_parse.v, Gen_tile_limit.v)')
LEVEL_TEXT = ('Theorems for every grid, layer configuration, cache state and request (any integer or non-numeric address '
              'component, any format / dimension value, any bbox / size) over the Gallina model of TileServer.map, KMLServer.map, '
              'WMTSServer.tile/featureinfo (KVP, REST), TileLayer.render, WMSServer.check_map_request, CacheMapLayer.get_map/_image '
              'and TileManager.load_tile_coords (single tiles, meta tiles with meta_buffer, minimize_meta_requests); tied to the code by running the real '
              'application on generated configurations and comparing answers and cache/upstream operations.')
LEVEL_NOTE = ('Trusted: Coq kernel; hand-written model Limits.v (+Grid.v); the correspondence harness. Not modelled: '
              'bulk_meta_tiles, rescale_tiles, coverages / authorization limits, reprojection (the model and the correspondence take requests in the '
              'grid SRS; GetMap in EPSG:4326 on mercator caches around max_tile_limit is checked by the oracle only, fixed probes), seeding. IEEE rounding not modelled (exact lattice: bit-exact; realistic grids: 1e-6 tolerance on bboxes). '
              'The EXCEPTIONS parameter is sent only with requests over the pixel limit (their refusal must be the XML document whatever it asks for). WMTS GetFeatureInfo does not compare FORMAT with the layer format (pinned by the test-suite of mapproxy: documented, _refuted theorem); dimension values are validated as for GetTile.')
DESIGN_REF = 'DESIGN.md section 5, C16'
RULE = ('case = (layer configuration incl. grid, cache state, service, request); non-trivial = address on / next to a matrix '
        'boundary or of huge magnitude, non-numeric component, wrong format / dimension value, or a map request within +-1 of '
        'a pixel / tile limit or tile edge; distinct by (grid parameters, layer options, request)')
TRUSTED = ['model Limits.v hand-written from service/tile.py, service/wmts.py, service/kml.py, service/wms.py, layer.py, cache/tile.py, grid.py',
           'tie = differential run of the real WSGI app vs the model (vm_compute); request SRS = grid SRS only (other SRS: oracle-only fixed probes)']
ASSUMPTIONS = ['upstream answers every GetMap with a cacheable image (no source errors)',
               'no coverage / authorization callback configured',
               'with meta_buffer > 0 the grid bbox is at least one pixel of the coarsest level wide and high']
EXPLANATION = ('refusal-before-effects and effects-inside-grid proved for all requests over the model; real application compared on '
               'boundary addresses, limits, malformed values under a recording upstream and cache')

GEN = ['Gen_wmts_parse.v']     # address parsers of request/wmts.py and request/tile.py (translator/specs/wmts_parse.py)

FMT_ID = {'png': 1, 'jpeg': 2}
DIM_ID = {'time': 1, 'elevation': 2}
VAL_ID = {'default': 0}
SVCS = ['TMS', 'Tiles', 'KML', 'WmtsKvp', 'WmtsRest', 'WmtsKvpFI', 'WmtsRestFI']
NUM_RE = re.compile(r'-?[0-9]+\Z')


def fmt_id(s):
    if s not in FMT_ID:
        FMT_ID[s] = len(FMT_ID) + 1
    return FMT_ID[s]


def val_id(s):
    if s not in VAL_ID:
        VAL_ID[s] = len(VAL_ID)
    return VAL_ID[s]


# ----------------------------------------------------------------------------- recording layers

class Recorder(object):
    """Replaces HTTPClient.open (synthetic upstream) and wraps the FileCache methods; restores on exit."""

    def __init__(self):
        self.log = []
        self.saved = []

    def __enter__(self):
        import mapproxy.client.http as mhttp
        import mapproxy.cache.file as mfile
        from PIL import Image
        rec = self
        import logging
        logging.disable(logging.CRITICAL)

        def fake_open(self_, url, data=None, method=None):
            rec.log.append(('up', url))
            q = dict((k.lower(), v[0]) for k, v in parse_qs(urlparse(url).query, keep_blank_values=True).items())
            if q.get('request', '').lower() == 'getfeatureinfo':
                b = io.BytesIO(b'info')
                b.headers = {'Content-type': 'text/plain'}
                b.code = 200
                return b
            w, h = int(q['width']), int(q['height'])
            img = Image.new('RGB', (min(w, 4096), min(h, 4096)), (200, 10, 10))
            b = io.BytesIO()
            img.save(b, 'PNG')
            b.seek(0)
            b.headers = {'Content-type': 'image/png'}
            b.code = 200
            return b

        self.saved.append((mhttp.HTTPClient, 'open', mhttp.HTTPClient.open))
        mhttp.HTTPClient.open = fake_open

        def wrap(name, tag):
            orig = getattr(mfile.FileCache, name)

            def wrapper(self_, tile, *a, **kw):
                coord = getattr(tile, 'coord', None)
                if coord is not None:
                    try:
                        loc = self_.tile_location(tile, dimensions=kw.get('dimensions'))
                    except Exception as e:  # noqa
                        loc = 'ERR:' + type(e).__name__
                    rec.log.append((tag, tuple(coord), loc, id(self_)))
                return orig(self_, tile, *a, **kw)
            self.saved.append((mfile.FileCache, name, orig))
            setattr(mfile.FileCache, name, wrapper)

        wrap('load_tile', 'read')
        wrap('is_cached', 'probe')
        wrap('load_tile_metadata', 'probe')
        wrap('store_tile', 'store')
        wrap('remove_tile', 'remove')
        return self

    def __exit__(self, *a):
        import logging
        logging.disable(logging.NOTSET)
        for obj, name, orig in reversed(self.saved):
            setattr(obj, name, orig)


# ----------------------------------------------------------------------------- configurations

class LayerInfo(object):
    pass


def exact_grid_spec(rng):
    tw, th = rng.choice([(16, 16), (32, 16), (8, 8), (20, 10), (16, 32)])
    mode = rng.choice(['pyramid', 'pyramid', 'custom'])
    if mode == 'pyramid':
        base = 10 * rng.choice([1, 2, 3, 5])
        n = rng.randrange(2, 5)
        res = [base * 2 ** (n - 1 - j) for j in range(n)]
    else:
        res = sorted({10 * rng.randrange(1, 40) for _ in range(rng.randrange(2, 5))}, reverse=True)
        if len(res) < 2:
            res = [res[0] * 2, res[0]]
    x0 = rng.randrange(-3000, 3000)
    y0 = rng.randrange(-3000, 3000)
    aligned = rng.random() < 0.75
    if aligned and mode == 'custom' and rng.random() < 0.7:
        n = rng.randrange(2, 5)
        res = [10 * 2 ** (n - 1 - j) for j in range(n)]
    sx, sy = res[0] * tw, res[0] * th
    if aligned:
        # extent an exact multiple of the coarsest tile span: every level lines up, WMTS offers the layer
        w = sx * rng.choice([1, 1, 2, 3])
        h = sy * rng.choice([1, 1, 2, 3])
    else:
        w = rng.choice([sx * 2 + rng.randrange(1, 50), sx + res[-1] * rng.randrange(1, 3 * tw), rng.randrange(50, 2000), 3 * sx - 1])
        h = rng.choice([sy * 2 + rng.randrange(1, 50), sy + res[-1] * rng.randrange(1, 3 * th), rng.randrange(50, 2000), 3 * sy - 1])
    return {'srs': 'EPSG:3857', 'bbox': [x0, y0, x0 + w, y0 + h], 'tile_size': [tw, th], 'res': res,
            'origin': rng.choice(['ll', 'ul', 'sw', 'nw']),
            'stretch_factor': rng.choice([1.0, 1.125, 1.25, 1.5, 2.0]),
            'max_shrink_factor': rng.choice([4.0, 2.0, 1.5])}


def layer_opts(rng):
    return {'meta': rng.choice([[1, 1], [1, 1], [2, 2], [3, 2], [4, 4], [1, 3]]),
            'max_tiles': rng.choice([None, None, 1, 2, 4, 6, 9]),
            'dims': rng.choice([{}, {'time': (['2020', '2021'], '2020')},
                                {'time': (['2020', '2021', 'default'], '2021'), 'elevation': (['0', '100'], '0')},
                                {'time': (['2012-11-14T00:00:00Z', '2012-11-15T00:00:00Z'], '2012-11-15T00:00:00Z'),
                                 'elevation': (['Winter', 'summer', 'X1'], 'Winter')}]),
            'queryable': rng.random() < 0.7,
            'mixed': rng.random() < 0.3,       # cache `format: mixed`: the layer still offers png only
            'buffer': rng.choice([0, 0, 0, 3, 10, 25]),    # meta_buffer in pixels
            'minimize': rng.random() < 0.35,   # minimize_meta_requests: one upstream request for all missing tiles
            'format': 'png'}


REAL_GRIDS = [
    ('gm', {'base': 'GLOBAL_MERCATOR', 'num_levels': 5}, True, False),
    ('gw', {'base': 'GLOBAL_WEBMERCATOR', 'num_levels': 4}, True, False),
    ('gq', {'base': 'GLOBAL_MERCATOR', 'res_factor': 'sqrt2', 'num_levels': 7}, True, True),
    ('gl', {'base': 'GLOBAL_MERCATOR', 'origin': 'nw', 'num_levels': 4, 'tile_size': [128, 128]}, True, False),
    # sqrt2 pyramid numbered from the north-west: offered by WMTS (TileMatrix m = level m), TMS / KML see level 2m
    ('gn', {'base': 'GLOBAL_MERCATOR', 'res_factor': 'sqrt2', 'origin': 'nw', 'num_levels': 8}, True, True),
]


class App(object):
    def __init__(self, ctx, specs, max_pixels, srs_extent=None, info_formats=True, multi=None):
        """specs: list of (grid name, grid yaml dict, layer options, skip_first, skip_odd).
        srs_extent: explicit bbox of services.wms.bbox_srs for EPSG:3857 (integers) or None."""
        import yaml
        from mapproxy.config.loader import load_configuration
        from mapproxy.wsgiapp import MapProxyApp
        import webtest
        self.tmp = ctx.tmpdir('app')
        self.max_pixels = max_pixels
        self.srs_extent = srs_extent
        # services.wmts.featureinfo_formats is optional: without it the service offers no InfoFormat at all
        self.info_formats = {'txt': 'text/plain'} if info_formats else {}
        conf = {
            'services': {
                'tms': {'use_grid_names': True},
                'kml': {'use_grid_names': True},
                'wmts': dict({'kvp': True, 'restful': True},
                             **({'featureinfo_formats': [{'mimetype': 'text/plain', 'suffix': 'txt'}]} if info_formats else {})),
                'wms': {'srs': ['EPSG:3857', 'EPSG:4326'], 'image_formats': ['image/png', 'image/jpeg'],
                        'md': {'title': 'c16'}},
            },
            'sources': {
                'up': {'type': 'wms', 'req': {'url': 'http://upstream.invalid/service', 'layers': 'base'},
                       'supported_srs': ['EPSG:3857']},
                'upq': {'type': 'wms', 'req': {'url': 'http://upstream.invalid/service', 'layers': 'base'},
                        'wms_opts': {'featureinfo': True}, 'supported_srs': ['EPSG:3857']},
            },
            'grids': {}, 'caches': {}, 'layers': [],
            'globals': {'cache': {'base_dir': os.path.join(self.tmp, 'cache'), 'lock_dir': os.path.join(self.tmp, 'locks'),
                                  'tile_lock_dir': os.path.join(self.tmp, 'tlocks'), 'meta_buffer': 0, 'meta_size': [1, 1]}},
        }
        if max_pixels is not None:
            conf['services']['wms']['max_output_pixels'] = max_pixels
        if srs_extent is not None:
            conf['services']['wms']['bbox_srs'] = [{'srs': 'EPSG:3857', 'bbox': list(srs_extent)}]
        for gname, gspec, opts, _sf, _so in specs:
            conf['grids'][gname] = gspec
            cache = {'grids': [gname], 'sources': ['upq' if opts['queryable'] else 'up'], 'format': 'image/' + opts['format'],
                     'meta_size': list(opts['meta']), 'meta_buffer': int(opts.get('buffer', 0)), 'cache': {'type': 'file'}}
            if opts['max_tiles'] is not None:
                cache['max_tile_limit'] = opts['max_tiles']
            if opts.get('minimize'):
                cache['minimize_meta_requests'] = True
            if opts.get('mixed'):
                cache['format'] = 'mixed'
                cache['request_format'] = 'image/png'
            conf['caches']['c_' + gname] = cache
            lyr = {'name': 'l_' + gname, 'title': 'x', 'sources': ['c_' + gname]}
            if opts['dims']:
                lyr['dimensions'] = dict((k, {'values': v[0], 'default': v[1]}) for k, v in opts['dims'].items())
            conf['layers'].append(lyr)
        # a cache with two grids of the same SRS (multi = (first grid name, second grid name, options)): WMS GetMap is
        # served by the CacheMapLayer of the LAST grid of that SRS (SRSConditional.srs_map); every grid of a cache must
        # carry the configured max_tile_limit
        if multi is not None:
            ga, gb, mo = multi
            cache = {'grids': [ga, gb], 'sources': ['up'], 'format': 'image/png', 'meta_size': list(mo['meta']),
                     'meta_buffer': int(mo.get('buffer', 0)), 'cache': {'type': 'file'}}
            if mo['max_tiles'] is not None:
                cache['max_tile_limit'] = mo['max_tiles']
            if mo.get('minimize'):
                cache['minimize_meta_requests'] = True
            conf['caches']['c_multi'] = cache
            conf['layers'].append({'name': 'l_multi', 'title': 'm', 'sources': ['c_multi']})
        # a WMS layer backed directly by the source (no cache): ignores tiled=true, only the pixel limit bounds it
        conf['layers'].append({'name': 'l_direct', 'title': 'd', 'sources': ['up']})
        path = os.path.join(self.tmp, 'mapproxy.yaml')
        with open(path, 'w') as f:
            yaml.safe_dump(conf, f)
        cfg = load_configuration(mapproxy_conf=path, ignore_warnings=True)
        self.app = webtest.TestApp(MapProxyApp(cfg.configured_services(), cfg.base_config))
        self.layers = []
        for k, (gname, gspec, opts, sf, so) in enumerate(specs):
            li = LayerInfo()
            li.app = self
            li.name = 'l_' + gname
            li.gname = gname
            li.spec = gspec
            li.opts = opts
            li.grid = cfg.grids[gname].tile_grid()
            li.exact = 'base' not in gspec
            li.gc = GridCase('G_' + gname, li.grid, extra_den=8)
            li.tol = 0 if li.exact else max(1, li.gc.S // 10 ** 6)
            li.skip_first, li.skip_odd = sf, so
            li.limit = opts['max_tiles'] if opts['max_tiles'] is not None else 500
            li.stored = set()      # file locations written so far
            li.fresh = True
            self.layers.append(li)
        self.multi_layer = None
        if multi is not None:
            ga, gb, mo = multi
            gspec = [s_[1] for s_ in specs if s_[0] == gb][0]
            li = LayerInfo()
            li.app = self
            li.name = 'l_multi'
            li.gname = gb
            li.spec = dict(gspec, second_grid_of_cache_with_first_grid=ga)
            li.opts = mo
            li.grid = cfg.grids[gb].tile_grid()
            li.exact = True
            li.gc = GridCase('G_multi', li.grid, extra_den=8)
            li.tol = 0
            li.skip_first, li.skip_odd = False, False
            li.limit = mo['max_tiles'] if mo['max_tiles'] is not None else 500
            li.stored = set()
            li.fresh = True
            li.wmts_ok = False
            self.multi_layer = li

    def layer_term(self, li):
        o = li.opts
        dims = llit(sorted(o['dims'].items()), lambda kv: '(%d, (%s, %d))' % (
            DIM_ID[kv[0]], llit([val_id(v) for v in kv[1][0]]), val_id(kv[1][1])))
        return '(mkLayer %s %d %s %d %d %s %s %s (Some %d) %s %s %d)' % (
            li.gc.name, fmt_id('mixed' if o.get('mixed') else o['format']), dims, o['meta'][0], o['meta'][1],
            blit(li.skip_first), blit(li.skip_odd), blit(o['queryable']), li.limit, blit(bool(o.get('mixed'))),
            blit(bool(o.get('minimize'))), int(o.get('buffer', 0)))


# ----------------------------------------------------------------------------- requests

def tile_url(li, q):
    """q: dict svc, x, y, z (strings), fmt (string or None), dims (dict), layer, gridname, origin, i, j, infofmt."""
    svc = q['svc']
    lay, gname = q['layer'], q['gridname']
    x, y, z = q['x'], q['y'], q['z']
    if svc in ('TMS', 'Tiles', 'KML'):
        prefix = {'TMS': '/tms/1.0.0', 'Tiles': '/tiles', 'KML': '/kml'}[svc]
        url = '%s/%s/%s/%s/%s/%s.%s' % (prefix, lay, gname, quote(z), quote(x), quote(y), q['fmt'])
        if svc == 'Tiles' and q.get('origin'):
            url += '?origin=' + q['origin']
        return url
    if svc == 'WmtsRest':
        return '/wmts/%s/%s/%s/%s/%s.%s' % (lay, gname, quote(z), quote(x), quote(y), q['fmt'])
    if svc == 'WmtsRestFI':
        return '/wmts/%s/%s/%s/%s/%s/%d/%d.%s' % (lay, gname, quote(z), quote(x), quote(y), q['i'], q['j'], q['infofmt'])
    params = [('service', 'WMTS'), ('version', '1.0.0'), ('layer', lay), ('style', ''), ('tilematrixset', gname),
              ('tilematrix', z), ('tilerow', y), ('tilecol', x)]
    if q['fmt'] is not None:
        params.append(('format', 'image/' + q['fmt']))
    if svc == 'WmtsKvp':
        params.append(('request', 'GetTile'))
    else:
        params += [('request', 'GetFeatureInfo'), ('infoformat', q['infofmt']), ('i', str(q['i'])), ('j', str(q['j']))]
    for k, v in sorted(q['dims'].items()):
        params.append((k, v))
    return '/service?' + '&'.join('%s=%s' % (k, quote(v, safe='')) for k, v in params)


def classify(resp):
    """answer class of a response: 'Ok' or an error name of Limits.err, or ('other', status, text)."""
    st = resp.status_int
    ct = resp.content_type or ''
    if st == 200:
        return 'Ok'
    try:
        body = resp.body.decode('utf-8', 'replace')
    except Exception:  # noqa
        body = ''
    table = [('outside the bounding box', 'OutOfRange'), ('invalid format', 'InvalidFormat'),
             ('invalid dimension value', 'InvalidDimension'), ('unknown layer', 'UnknownLayer'),
             ('unknown tilematrixset', 'UnknownMatrixSet'), ('unknown infoformat', 'UnknownInfoFormat'),
             ('not queryable', 'NotQueryable'), ('invalid request (', 'BadRequest'), ('missing parameters', 'BadRequest'),
             ('image size too large', 'TooLarge'), ('too many tiles', 'TooManyTiles'), ('not a single tile', 'NotSingleTile'),
             ('does not align', 'NotAligned'), ('invalid tile format', 'BadTileFormat'), ('invalid tile size', 'BadTileSize'),
             ('Invalid BBOX', 'InvalidBBox')]
    if st >= 400:
        for needle, name in table:
            if needle in body:
                return name
        if st == 500 and body.strip() == 'internal error':
            return 'Internal'
    return ('other', st, ct, body[:160])


def answer_lit(a):
    if a == 'Ok':
        return 'Ok'
    if isinstance(a, str):
        return '(Err %s)' % a
    return None


def run_request(app, rec, url):
    del rec.log[:]
    try:
        resp = app.app.get(url, expect_errors=True, extra_environ={'wsgi.errors': io.StringIO()})
    except Exception as e:  # noqa
        return ('raised', type(e).__name__, str(e)[:200]), list(rec.log), None
    return classify(resp), list(rec.log), resp


def parse_up(li, url):
    q = dict((k.lower(), v[0]) for k, v in parse_qs(urlparse(url).query, keep_blank_values=True).items())
    bbox = [Fraction(v) for v in q['bbox'].split(',')]
    zb = [int(round(b * li.gc.S)) for b in bbox]
    if q.get('request', '').lower() == 'getfeatureinfo':
        return ('info', zb, int(q['x']), int(q['y']), bbox)
    return ('up', zb, int(q['width']), int(q['height']), bbox)


def coord_lit(c):
    return '(%s, %s, %s)' % (zlit(c[0]), zlit(c[1]), zlit(c[2]))


def effects_of(li, log):
    """observed log -> (Gallina effect list, cached coords as seen by the request, python summary)."""
    effs, cached, summ = [], set(), []
    for e in log:
        if e[0] == 'up':
            kind, zb, a, b, _ = parse_up(li, e[1])
            effs.append('(%s (%s, %s, %s, %s) %d %d)' % ('EUp' if kind == 'up' else 'EInfo', zlit(zb[0]), zlit(zb[1]),
                                                         zlit(zb[2]), zlit(zb[3]), a, b))
            summ.append((kind, [float(v) for v in _], a, b))
        else:
            tag, coord, loc = e[0], e[1], e[2]
            if tag in ('read', 'probe') and loc in li.stored:
                cached.add(coord)
            name = {'read': 'ERead', 'probe': 'EProbe', 'store': 'EStore', 'remove': 'EStore'}[tag]
            effs.append('(%s %s)' % (name, coord_lit(coord)))
            summ.append((tag, list(coord)))
    return effs, cached, summ


def info_offered(li, q):
    """is the InfoFormat of a GetFeatureInfo request one the service offers (mime type for KVP, suffix or mime type
    without '/' never)?"""
    f = q['infofmt']
    offered = li.app.info_formats
    return (f in offered.values()) if '/' in f else (f in offered)


def ocomp(s, digits_only=False):
    if digits_only and s.startswith('-'):
        return 'None'                      # the REST template accepts [0-9]+ only for TileMatrix
    return olit(int(s)) if NUM_RE.match(s) else 'None'


def treq_term(li, q):
    dims = []
    for k, v in sorted(q['dims'].items()):
        if k.lower() in DIM_ID and v != '':
            dims.append('(%d, %d)' % (DIM_ID[k.lower()], val_id(v)))
    origin = {'nw': '(Some true)', 'sw': '(Some false)'}.get(q.get('origin'), 'None')
    return '(mkReq %s %s %s %s %s %s [%s] %s %s %s %d %d)' % (
        q['svc'], ocomp(q['x']), ocomp(q['y']), ocomp(q['z'], q['svc'] in ('WmtsRest', 'WmtsRestFI')),
        'None' if q['fmt'] is None else '(Some %d)' % fmt_id(q['fmt']), origin, '; '.join(dims),
        blit(q['layer'] == li.name), blit(q['gridname'] == li.gname), blit(info_offered(li, q)),
        q['i'], q['j'])


# ----------------------------------------------------------------------------- oracle helpers (independent of the model)

def internal_level(li, svc, z):
    if svc == 'TMS' and li.skip_first:
        z += 1
    if li.skip_odd and not svc.startswith('Wmts'):
        z *= 2                  # WMTS (all_levels) addresses every level of a sqrt2 grid, the others every second
    return z


def address_valid(li, q):
    """None when a component is not an integer for the service's parser; else True / False."""
    svc = q['svc']
    comps = []
    for s in (q['x'], q['y'], q['z']):
        if svc in ('WmtsKvp', 'WmtsKvpFI'):
            try:
                comps.append(int(s))
            except ValueError:
                return None
        else:
            if not NUM_RE.match(s):
                return None
            comps.append(int(s))
    if svc in ('WmtsRest', 'WmtsRestFI') and q['z'].startswith('-'):
        return None                        # the REST template accepts [0-9]+ only for TileMatrix ("-0" included)
    x, y, z = comps
    if z < 0:
        return False
    l = internal_level(li, svc, z)
    if l >= li.grid.levels:
        return False
    nx, ny = li.grid.grid_sizes[l]
    return 0 <= x < nx and 0 <= y < ny


def dims_valid(li, q):
    for name, (vals, _dflt) in li.opts['dims'].items():
        v = None
        for k, val in q['dims'].items():
            if k.lower() == name:
                v = val
        if v and v not in vals and v != 'default':
            return False
    return True


def coords_in_grid(li, summ):
    bad = []
    for e in summ:
        if e[0] in ('read', 'probe', 'store', 'remove'):
            x, y, l = e[1]
            if not (isinstance(l, int) and 0 <= l < li.grid.levels and 0 <= x < li.grid.grid_sizes[l][0]
                    and 0 <= y < li.grid.grid_sizes[l][1]):
                bad.append(e)
    return bad


def costly(summ):
    return [e for e in summ if e[0] in ('up', 'info', 'store', 'remove')]


def replay_of(li, app, q, url, ans, summ):
    return {'grid': li.spec, 'layer_options': {'meta_size': li.opts['meta'], 'max_tile_limit': li.opts['max_tiles'],
                                               'dimensions': li.opts['dims'], 'queryable': li.opts['queryable']},
            'max_output_pixels': app.max_pixels, 'bbox_srs_extent': app.srs_extent, 'featureinfo_formats': sorted(app.info_formats.items()), 'mixed_cache': bool(li.opts.get('mixed')), 'minimize_meta_requests': bool(li.opts.get('minimize')), 'meta_buffer': li.opts.get('buffer', 0), 'request': q, 'url': url, 'answer': ans if isinstance(ans, str) else list(ans),
            'effects': summ[:40]}


def tile_oracle(ctx, li, app, q, url, ans, summ):
    svc = q['svc']
    known_target = q['layer'] == li.name and q['gridname'] == li.gname
    valid = address_valid(li, q)
    is_fi = svc.endswith('FI')
    cost = costly(summ)
    rep = replay_of(li, app, q, url, ans, summ)
    outside = coords_in_grid(li, summ)
    if outside:
        ctx.fail('tile,%s,cache-coordinate-outside-grid' % svc,
                 'cache operation on a coordinate outside the grid: %r for %s' % (outside[:3], url), rep)
    if not known_target:
        if ans == 'Ok' or cost:
            ctx.fail('tile,%s,unknown-layer-served' % svc, 'unknown layer / matrix set answered %r with effects %r' % (ans, cost[:3]), rep)
        return
    if is_fi and not info_offered(li, q):
        if ans == 'Ok':
            ctx.fail('featureinfo,%s,infoformat-not-offered,answered' % svc,
                     'GetFeatureInfo with InfoFormat %r (offered: %r) answered 200 with %r: %s' % (
                         q['infofmt'], sorted(li.app.info_formats.items()), cost[:2], url), rep)
        elif summ:
            ctx.fail('featureinfo,%s,infoformat-not-offered,effects' % svc,
                     'GetFeatureInfo with InfoFormat %r that is not offered caused %r: %s' % (q['infofmt'], summ[:3], url), rep)
        return
    if valid is not True:
        what = 'non-numeric' if valid is None else 'outside-matrix'
        if ans == 'Ok':
            ctx.fail('tile,%s,%s,answered' % (svc, what), '%s address answered 200: %s' % (what, url), rep)
        elif cost:
            ctx.fail('tile,%s,%s,effects' % (svc, what), '%s address caused %r: %s' % (what, cost[:3], url), rep)
        elif summ:
            ctx.fail('tile,%s,%s,cache-read' % (svc, what), '%s address touched the cache %r: %s' % (what, summ[:3], url), rep)
        return
    if svc in ('WmtsKvp', 'WmtsKvpFI') and q['fmt'] is None:
        if ans == 'Ok' or summ:
            ctx.fail('tile,%s,missing-format,answered' % svc, 'request without FORMAT answered %r with %r' % (ans, summ[:3]), rep)
        return
    fmt_ok = q['fmt'] is None or q['fmt'] == li.opts['format']
    d_ok = dims_valid(li, q) if svc in ('WmtsKvp', 'WmtsKvpFI') else True
    if is_fi:
        # FORMAT of GetFeatureInfo is not compared with the layer format (pinned by mapproxy's own test-suite:
        # documented behaviour); a dimension value that is not offered must be refused like GetTile does
        fmt_ok = True
    if not (fmt_ok and d_ok):
        what = 'format' if not fmt_ok else 'dimension'
        if ans == 'Ok':
            ctx.fail('tile,%s,invalid-%s,answered' % (svc, what), 'invalid %s answered 200: %s' % (what, url), rep)
        elif cost:
            ctx.fail('tile,%s,invalid-%s,effects' % (svc, what), 'invalid %s caused %r: %s' % (what, cost[:3], url), rep)
        return
    # valid request: the last valid row / column must be accepted
    if is_fi and ans == 'Ok':
        # the upstream GetFeatureInfo must be asked for the rectangle of the addressed tile (WMTS rows count from the north)
        x, y, z = int(q['x']), int(q['y']), int(q['z'])
        ny = li.grid.grid_sizes[z][1]
        want = li.gc.tile_rect(x, y if li.gc.ul else ny - 1 - y, z)
        for e in summ:
            if e[0] == 'info':
                tol = 0 if li.exact else 1e-6 * max(1.0, max(abs(float(v)) for v in want))
                if any(abs(float(a) - float(b)) > tol for a, b in zip(e[1], want)):
                    ctx.fail('featureinfo,%s,wrong-tile' % svc,
                             'GetFeatureInfo for tile %r asked the upstream for bbox %r, the tile is %r: %s' % (
                                 (x, y, z), e[1], [float(v) for v in want], url), rep)
    if is_fi:
        if info_offered(li, q) and li.opts['queryable'] and ans != 'Ok' and \
                not (svc.startswith('Wmts') and not li.wmts_ok):
            ctx.fail('tile,%s,valid-refused' % svc, 'valid GetFeatureInfo refused with %r: %s' % (ans, url), rep)
        return
    if ans != 'Ok' and not (svc.startswith('Wmts') and not li.wmts_ok):
        ctx.fail('tile,%s,valid-refused' % svc, 'valid address refused with %r: %s' % (ans, url), rep)


# ----------------------------------------------------------------------------- generators

def boundary_values(rng, n):
    """one coordinate: on the boundary (inside), inside, one step outside, far outside."""
    r = rng.random()
    if r < 0.30:
        return rng.choice([0, n - 1])
    if r < 0.50:
        return rng.randrange(0, max(n, 1))
    if r < 0.78:
        return rng.choice([-1, n, n, n + 1])
    return rng.choice([2 * n, -n, 10 ** 30, -10 ** 30, 2 ** 63, 2 ** 31 - 1, -2 ** 31, 2 ** 64 + 1])


BAD_COMPONENTS = ['abc', '1e3', '0x1', 'NaN', '', '-', '1a', '--1']
ODD_COMPONENTS = ['1.5', '-0.5', '-0.999', '0.0', '-1e-9', '1e0', '+1', ' 1', '1_0', '01', '-0', '00']   # accepted by int() but not all by the path patterns


def gen_tile_requests(ctx, li, count):
    rng = ctx.rng
    g = li.grid
    out = []
    nlev = g.levels
    pub_levels = []
    for z in range(-1, nlev + 2):
        pub_levels.append(z)
    for _ in range(count):
        svc = rng.choice(SVCS)
        z = rng.choice(pub_levels + [rng.randrange(0, nlev)] * 12 + [nlev - 1, nlev - 1, 0, 10 ** 20, -10 ** 20])
        l = internal_level(li, svc, z) if z >= 0 else 0
        nx, ny = g.grid_sizes[l] if 0 <= l < nlev else g.grid_sizes[nlev - 1]
        if li.skip_odd and 0 <= z and rng.random() < 0.3:
            # bounds of the level the other numbering would pick (z vs 2z)
            l2 = z if not svc.startswith('Wmts') else 2 * z
            if 0 <= l2 < nlev:
                nx, ny = g.grid_sizes[l2]
        x = boundary_values(rng, nx)
        y = boundary_values(rng, ny)
        r = rng.random()
        if r < 0.35:
            # keep the other axis valid so that the boundary of one axis decides
            if rng.random() < 0.5:
                x = rng.randrange(0, nx)
            else:
                y = rng.randrange(0, ny)
        q = {'svc': svc, 'x': str(x), 'y': str(y), 'z': str(z), 'fmt': li.opts['format'], 'dims': {}, 'layer': li.name,
             'gridname': li.gname, 'origin': None, 'i': rng.randrange(0, 40), 'j': rng.randrange(0, 40),
             'infofmt': 'txt' if svc == 'WmtsRestFI' else 'text/plain'}
        r = rng.random()
        if r < 0.07:
            q[rng.choice(['x', 'y', 'z'])] = rng.choice(BAD_COMPONENTS)
        elif r < 0.09:
            q[rng.choice(['x', 'y', 'z'])] = rng.choice(ODD_COMPONENTS)
        elif r < 0.13 and svc in ('WmtsKvp', 'WmtsKvpFI'):
            # fractional column / row next to an otherwise plausible address: int() refuses them, nothing may be truncated
            # (the rest of the address is made valid so that a truncating parser would serve the tile)
            zz = rng.randrange(0, nlev)
            nx2, ny2 = g.grid_sizes[internal_level(li, svc, zz)]
            q['z'], q['x'], q['y'] = str(zz), str(rng.randrange(0, nx2)), str(rng.randrange(0, ny2))
            k = rng.choice(['x', 'y'])
            q[k] = rng.choice(['-0.5', '-0.999', '-1e-9', '0.0', q[k] + '.0', q[k] + '.5', '0.9'])
            out.append(q)                    # no further perturbation: everything else about the request is valid
            continue
        r = rng.random()
        if r < 0.12:
            q['fmt'] = rng.choice(['jpeg', 'jpeg', 'gif', 'PNG', 'png8', 'tiff', 'mixed', 'exe',
                                   # pieces of the offered mime type 'image/png' are not offered formats
                                   'ng', 'p', 'g', 'pn', 'image', 'mage', 'e', 'imagepng'])
        elif r < 0.2 and svc == 'WmtsKvpFI':
            q['fmt'] = None
        if svc == 'WmtsRestFI':
            q['fmt'] = None                      # the REST feature info template has no {Format}
        if svc in ('WmtsKvp', 'WmtsKvpFI') and rng.random() < 0.5:
            for name in rng.sample(['time', 'elevation'], rng.randrange(1, 3)):
                if rng.random() < 0.3:
                    name = name.upper()
                q['dims'][name] = rng.choice(['2020', '2021', 'default', '', '1999', '../x', '100', '0', 'Default'])
                offered = li.opts['dims'].get(name.lower())
                if offered and rng.random() < 0.6:
                    v = rng.choice(offered[0])
                    v2 = rng.choice(offered[0])
                    # a comma list of offered values is not an offered value
                    q['dims'][name] = rng.choice([v, v, v.lower(), v.upper(), v.swapcase(), v + 'x',
                                                  v + ',' + v2, v + ',' + v, v + ',', ',' + v])
        if svc in ('WmtsKvp', 'WmtsKvpFI') and li.opts['dims'] and rng.random() < 0.12:
            dn = rng.choice(sorted(li.opts['dims']))
            dv = rng.choice(li.opts['dims'][dn][0])
            q['dims'] = {dn: rng.choice(['1999', '../x', 'Default', '20200', ' 2020', dv.lower(), dv.upper(), dv.swapcase(), dv + ' ',
                                        dv + ',' + rng.choice(li.opts['dims'][dn][0]), dv + ',' + dv])}
        if svc == 'Tiles' and rng.random() < 0.5:
            q['origin'] = rng.choice(['nw', 'sw', 'xx'])
        r = rng.random()
        if r < 0.03:
            q['layer'] = 'nolayer'
        elif r < 0.06:
            q['gridname'] = 'nogrid'
        elif r < 0.09 and svc.endswith('FI'):
            q['infofmt'] = rng.choice(['html', 'exe', 'plain']) if svc == 'WmtsRestFI' else rng.choice(['text/html', 'application/x-not-offered', 'txt', 'plain'])
        out.append(q)
    return out


def fnum(v):
    """decimal text of a multiple of 1/8."""
    f = Fraction(v)
    assert (f * 8).denominator == 1
    s = '%.3f' % float(f)
    return s.rstrip('0').rstrip('.') if '.' in s else s


def gen_map_requests(ctx, li, app, count):
    """requests in the grid SRS on the exact lattice: bbox values multiples of 1/8, resolution exactly representable."""
    rng = ctx.rng
    g = li.grid
    gc = li.gc
    out = []
    tw, th = gc.tw, gc.th
    limit = li.limit
    maxpix = app.max_pixels[0] * app.max_pixels[1] if app.max_pixels else None
    for _ in range(count):
        l = rng.randrange(0, g.levels)
        res = int(gc.res[l])
        nx, ny = g.grid_sizes[l]
        kind = rng.choice(['tiles', 'tiles', 'tiles', 'pixels', 'tiled', 'tiled', 'far'])
        tiled = kind == 'tiled'
        fmt = 'png'
        if kind == 'tiled':
            x = rng.choice([-1, 0, nx - 1, nx, rng.randrange(0, nx)])
            y = rng.choice([-1, 0, ny - 1, ny, rng.randrange(0, ny)])
            b = list(gc.tile_rect(x, y, l))
            w, h = tw, th
            r = rng.random()
            if r < 0.35:
                k = rng.randrange(4)
                b[k] += Fraction(res) * rng.choice([Fraction(1, 8), Fraction(-1, 8), Fraction(1, 16), Fraction(3, 32), Fraction(-3, 32),
                                                    1, -1])
            elif r < 0.45:
                w, h = rng.choice([(tw + 1, th), (tw, th - 1), (2 * tw, 2 * th), (tw // 2, th // 2)])
            elif r < 0.55:
                b[2] += res * tw
            if rng.random() < 0.1:
                fmt = 'jpeg'
        elif kind == 'pixels' and maxpix:
            w = rng.choice([app.max_pixels[0], app.max_pixels[0] + 1, app.max_pixels[0] - 1, 1, 2 * app.max_pixels[0]])
            h = rng.choice([app.max_pixels[1], app.max_pixels[1] + 1, app.max_pixels[1] - 1, maxpix // w, maxpix // w + 1])
            h = max(h, 1)
            r_ = Fraction(res) * rng.choice([1, 2, Fraction(1, 2)])
            x0 = gc.bbox[0] + rng.randrange(0, 3) * res
            y0 = gc.bbox[1] + rng.randrange(0, 3) * res
            if app.srs_extent and rng.random() < 0.6:
                # reach beyond the extent configured for the SRS: only a part (or nothing) of the request lies inside
                e = app.srs_extent
                r_ = r_ * rng.choice([1, 4, 16])
                x0 = rng.choice([e[0], e[2]]) - rng.choice([w, w - 1, w // 2, 1, 0, w + 3]) * r_
                y0 = rng.choice([e[1], e[3]]) - rng.choice([h, h - 1, h // 2, 1, 0, h + 3]) * r_
            b = [x0, y0, x0 + w * r_, y0 + h * r_]
        elif kind == 'far':
            r_ = Fraction(res)
            w, h = rng.choice([(tw, th), (2 * tw, th), (5, 7)])
            dx = rng.choice([10 ** 7, -10 ** 7, 0])
            dy = rng.choice([10 ** 7, -10 ** 7, 0])
            x0 = gc.bbox[0] + dx
            y0 = gc.bbox[1] + dy
            sc = rng.choice([1, 1, 8, 64])
            b = [x0, y0, x0 + w * r_ * sc, y0 + h * r_ * sc]
        else:
            # a block of kx x ky tiles around the tile limit, moved / grown by a few pixels or fractions of a pixel
            target = rng.choice([limit - 1, limit, limit + 1, 1, 2, 4])
            target = max(1, min(target, 30))
            kx = rng.choice([d for d in range(1, target + 1) if target % d == 0])
            ky = target // kx
            tx = rng.choice([0, 0, -1, max(nx - kx, 0), rng.randrange(0, nx)])
            ty = rng.choice([0, 0, -1, max(ny - ky, 0), rng.randrange(0, ny)])
            r0 = gc.tile_rect(tx, ty, l)
            if gc.ul:
                b = [r0[0], r0[3] - ky * th * res, r0[0] + kx * tw * res, r0[3]]
            else:
                b = [r0[0], r0[1], r0[0] + kx * tw * res, r0[1] + ky * th * res]
            e = rng.choice([0, 0, 0, 1, -1, 2])
            sub = rng.choice([0, 0, Fraction(1, 8), Fraction(-1, 8), Fraction(1, 16), Fraction(-1, 16)])
            grow = (e + sub) * res
            b = [b[0] - grow, b[1] - grow, b[2] + grow, b[3] + grow]
            w, h = kx * tw + 2 * e, ky * th + 2 * e
            sc = rng.choice([1, 1, 1, 2])          # finer request resolution: a finer level is selected when there is one
            w, h = w * sc, h * sc
            if w < 1 or h < 1:
                w, h = tw, th
        if not all((Fraction(v) * 8).denominator == 1 for v in b) or not (b[0] < b[2] and b[1] < b[3]):
            continue
        m_ = {'bbox': [Fraction(v) for v in b], 'w': int(w), 'h': int(h), 'fmt': fmt, 'tiled': tiled, 'kind': kind}
        over_limit_exceptions(rng, app, m_)
        out.append(m_)
    return out


EXCEPTION_FORMATS = ['application/vnd.ogc.se_blank', 'blank', 'BLANK', 'application/vnd.ogc.se_inimage', 'inimage',
                     'application/vnd.ogc.se_xml']


def over_limit_exceptions(rng, app, m):
    """a request over the pixel limit may ask for blank / in-image exceptions: the refusal must stay a service exception
    document (prevent_image_exception), never an image of the requested size.  Only over-limit requests carry the
    parameter (for other refusals a blank / in-image answer is the error form WMS defines)."""
    if app.max_pixels and m['w'] * m['h'] > app.max_pixels[0] * app.max_pixels[1] and rng.random() < 0.6:
        m['exceptions'] = rng.choice(EXCEPTION_FORMATS)


def map_url(li, m):
    p = [('service', 'WMS'), ('request', 'GetMap'), ('version', '1.1.1'), ('layers', li.name), ('styles', ''),
         ('srs', 'EPSG:3857'), ('bbox', m.get('bbox_text') or ','.join(fnum(v) for v in m['bbox'])), ('width', str(m['w'])), ('height', str(m['h'])),
         ('format', 'image/' + m['fmt'])]
    if m['tiled']:
        p.append(('tiled', 'true'))
    if m.get('exceptions'):
        p.append(('exceptions', m['exceptions']))
    return '/service?' + '&'.join('%s=%s' % (k, quote(v, safe=',')) for k, v in p)


def _contains(outer, inner):
    return outer[0] <= inner[0] and outer[1] <= inner[1] and inner[2] <= outer[2] and inner[3] <= outer[3]


def _tile_candidates(li, m):
    """for every level the tile of the grid under the centre of the request bbox: (level, x, y, rect) with rect as
    Fractions (exact grids) / floats; computed with the grid object only (mapproxy.grid), not with layer.py."""
    b = [Fraction(v) for v in m['bbox']]
    cx, cy = (b[0] + b[2]) / 2, (b[1] + b[3]) / 2
    out = []
    for l in range(li.grid.levels):
        try:
            x, y, _l = li.grid.tile(float(cx), float(cy), l)
        except Exception:  # noqa
            continue
        nx, ny = li.grid.grid_sizes[l]
        if not (0 <= x < nx and 0 <= y < ny):
            continue
        rect = li.gc.tile_rect(x, y, l) if li.exact else li.grid.tile_bbox((x, y, l), limit=False)
        out.append((l, x, y, [Fraction(v) for v in rect]))
    return out


def _px(m):
    b = [Fraction(v) for v in m['bbox']]
    return max((b[2] - b[0]) / m['w'], (b[3] - b[1]) / m['h'])


def addressed_tile(li, m):
    """the tile (level, x, y) of the grid the BBOX of a tiled=true request addresses: all four borders within 1/10 of a
    request pixel (the larger of the two pixel extents, plus the bbox tolerance of realistic grids); None: no tile."""
    b = [Fraction(v) for v in m['bbox']]
    tol = _px(m) / 10 + (Fraction(li.tol, li.gc.S) if li.tol else 0)
    for l, x, y, rect in _tile_candidates(li, m):
        if all(abs(b[i] - rect[i]) <= tol for i in range(4)):
            return (l, x, y)
    return None


def nearest_tile_offsets(li, m):
    b = [Fraction(v) for v in m['bbox']]
    px = _px(m)
    best = None
    for l, x, y, rect in _tile_candidates(li, m):
        offs = [float((b[i] - rect[i]) / px) for i in range(4)]
        if best is None or max(map(abs, offs)) < max(map(abs, best[1])):
            best = ((l, x, y), offs)
    return 'none' if best is None else 'tile %r: [%s]' % (best[0], ', '.join('%.3f' % o for o in best[1]))


def map_oracle(ctx, li, app, m, url, ans, summ):
    from mapproxy.grid import GridError, NoTiles
    rep = replay_of(li, app, dict(m, bbox=[float(v) for v in m['bbox']]), url, ans, summ)
    cost = costly(summ)
    outside = coords_in_grid(li, summ)
    if outside:
        ctx.fail('map,cache-coordinate-outside-grid', 'cache operation on a coordinate outside the grid: %r for %s' % (outside[:3], url), rep)
    # WMS-C: a tiled=true request addresses a tile by its BBOX; a BBOX that is no tile of the advertised tile set (no
    # level has a tile of the grid whose four borders are within 1/10 of a request pixel) must be refused without cost
    # (a BBOX outside the grid is answered with a blank image and no cache / upstream operation at all: not a tile served)
    if m['tiled'] and summ and (app.srs_extent is None or _contains(app.srs_extent, m['bbox'])):
        near = addressed_tile(li, m)
        if near is None:
            ctx.fail('map,tiled,not-a-tile,' + ('answered' if ans == 'Ok' else 'effects'),
                     'tiled=true request whose BBOX %r (%dx%d) is not a tile of the tile set (nearest tile borders differ by %s request pixels) '
                     'was answered %r with %r: %s' % ([float(v) for v in m['bbox']], m['w'], m['h'], nearest_tile_offsets(li, m), ans, summ[:3], url), rep)
    if app.max_pixels and m['w'] * m['h'] > app.max_pixels[0] * app.max_pixels[1]:
        if ans == 'Ok':
            ctx.fail('map,pixel-limit,answered', 'request of %dx%d pixels answered although max_output_pixels is %r' % (m['w'], m['h'], app.max_pixels), rep)
        elif summ:
            ctx.fail('map,pixel-limit,effects', 'request over the pixel limit caused %r' % (summ[:3],), rep)
        return
    # tile limit: the number of tiles the grid itself reports for this request
    n = None
    try:
        from mapproxy.image import bbox_position_in_image
        from mapproxy.grid import bbox_contains, bbox_intersects
        qb, qs = tuple(float(v) for v in m['bbox']), (m['w'], m['h'])
        skip = False
        tiled = m['tiled']
        if app.srs_extent is not None:
            se = tuple(float(v) for v in app.srs_extent)
            if not bbox_contains(se, qb):
                if not bbox_intersects(se, qb):
                    skip = True
                else:
                    qs, _off, qb = bbox_position_in_image(qb, qs, se)
                    tiled = False
                    skip = qs[0] == 0 or qs[1] == 0
        if not skip and not tiled and not bbox_contains(li.grid.bbox, qb):
            if not bbox_intersects(li.grid.bbox, qb):
                skip = True
            else:
                qs, _off, qb = bbox_position_in_image(qb, qs, li.grid.bbox)
                skip = qs[0] == 0 or qs[1] == 0
        if not skip:
            _b, tg, _t = li.grid.get_affected_tiles(qb, qs)
            n = tg[0] * tg[1]
    except (NoTiles, GridError):
        n = None
    except Exception:  # noqa
        n = None
    if n is not None and li.limit and n >= li.limit and not (tiled and (m['fmt'] != li.opts['format'] or (m['w'], m['h']) != (li.gc.tw, li.gc.th))):
        if ans == 'Ok':
            ctx.fail('map,tile-limit,answered', 'request needing %d tiles answered although max_tile_limit is %d: %s' % (n, li.limit, url), rep)
        elif summ:
            ctx.fail('map,tile-limit,effects', 'request over the tile limit caused %r: %s' % (summ[:3], url), rep)
        return
    if ans != 'Ok' and cost:
        ctx.fail('map,refused-with-effects', 'request refused with %r after %r: %s' % (ans, cost[:3], url), rep)


# ----------------------------------------------------------------------------- run

def make_specs(ctx, n_exact, with_real):
    rng = ctx.rng
    specs = []
    for i in range(n_exact):
        gs, lo = exact_grid_spec(rng), layer_opts(rng)
        if lo['buffer'] and (gs['bbox'][2] - gs['bbox'][0] < gs['res'][0] or gs['bbox'][3] - gs['bbox'][1] < gs['res'][0]):
            # degenerate: the grid bbox is narrower than one pixel of its coarsest level; with a meta_buffer the
            # request cut to the grid bbox has 0 pixels and the (synthetic) upstream cannot answer it
            lo['buffer'] = 0
        specs.append(('g%d' % i, gs, lo, False, False))
    if with_real:
        for name, spec, sf, so in REAL_GRIDS:
            o = layer_opts(rng)
            specs.append((name, dict(spec), o, sf, so))
    return specs


def corpus_cases():
    d = os.path.join(VERIF, 'corpus', 'C16')
    out = []
    if os.path.isdir(d):
        for fn in sorted(os.listdir(d)):
            if fn.endswith('.json'):
                out.append((fn, json.load(open(os.path.join(d, fn)))))
    return out


# ----------------------------------------------------------------------------- fixed probes (independent of the seed)

PROBE_GRID_A = {'srs': 'EPSG:3857', 'bbox': [0, 0, 1280, 640], 'tile_size': [16, 16], 'res': [40, 20, 10], 'origin': 'nw',
                'stretch_factor': 1.125, 'max_shrink_factor': 4.0}
PROBE_GRID_B = {'srs': 'EPSG:3857', 'bbox': [-640, -640, 640, 640], 'tile_size': [8, 8], 'res': [80, 40], 'origin': 'll',
                'stretch_factor': 1.125, 'max_shrink_factor': 4.0}
PROBE_OPTS = {'meta': [1, 1], 'max_tiles': None, 'dims': {}, 'queryable': True, 'mixed': False, 'buffer': 0, 'minimize': False,
              'format': 'png'}

# GetMap requests in EPSG:4326 on mercator caches: (bbox, sizes).  Every bbox lies inside the mercator extent
# (|lat| <= 85), so nothing is cut before the tiles are counted.
PROBE_4326_BBOXES = [(-180, -85, 180, 85), (-90, -60, 90, 60), (0, 0, 90, 66), (-180, 0, 0, 80), (10, 40, 30, 60),
                     (-180, -85, 0, 0)]
PROBE_4326_SIZES = [(2000, 1000), (1000, 500), (500, 250), (800, 800), (1500, 700), (300, 150), (256, 256)]


def process_map_other_srs(ctx, app, rec, li, srs, bbox, size):
    """WMS GetMap in an SRS different from the SRS of the cache grid (not modelled: oracle only).  The tile limit
    counts the tiles of the grid that cover the transformed bbox (CacheMapLayer._image: tile_grid of
    get_affected_tiles); a request that needs max_tile_limit tiles or more is refused before anything is fetched,
    and - independent of any count the implementation reports - an answered request never touched that many tiles."""
    from mapproxy.grid import GridError, NoTiles
    from mapproxy.srs import SRS
    p = [('service', 'WMS'), ('request', 'GetMap'), ('version', '1.1.1'), ('layers', li.name), ('styles', ''), ('srs', srs),
         ('bbox', ','.join(str(v) for v in bbox)), ('width', str(size[0])), ('height', str(size[1])), ('format', 'image/png')]
    url = '/service?' + '&'.join('%s=%s' % (k, quote(v, safe=',')) for k, v in p)
    ans, log, _resp = run_request(app, rec, url)
    _effs, _cached, summ = effects_of(li, log)
    for e in log:
        if e[0] == 'store':
            li.stored.add(e[2])
    touched = sorted({tuple(e[1]) for e in summ if e[0] in ('read', 'probe', 'store', 'remove')})
    fetched = [e for e in summ if e[0] == 'up']
    rep = {'grid': li.spec, 'layer_options': {'meta_size': li.opts['meta'], 'max_tile_limit': li.opts['max_tiles'],
                                              'meta_buffer': li.opts.get('buffer', 0)},
           'request': {'srs': srs, 'bbox': list(bbox), 'size': list(size)}, 'url': url,
           'answer': ans if isinstance(ans, str) else list(ans), 'distinct_tiles_touched': len(touched),
           'upstream_requests': len(fetched), 'effects': summ[:12]}
    ctx.case(('map-other-srs', json.dumps(li.spec, sort_keys=True), li.limit, url), True, rep)
    ctx.count('map_kind=other-srs')
    ctx.count('answer=' + (ans if isinstance(ans, str) else 'other'))
    if not isinstance(ans, str):
        ctx.problem('correspondence', 'unclassified answer of the implementation for %s' % url, {'answer': list(ans)})
        return
    outside = coords_in_grid(li, summ)
    if outside:
        ctx.fail('map,other-srs,cache-coordinate-outside-grid', 'cache operation on a coordinate outside the grid: %r for %s' % (outside[:3], url), rep)
    n = None
    try:
        _b, tg, _t = li.grid.get_affected_tiles(tuple(float(v) for v in bbox), tuple(size), req_srs=SRS(srs))
        n = tg[0] * tg[1]
    except (NoTiles, GridError):
        n = None
    except Exception:  # noqa
        n = None
    rep['tiles_needed'] = n
    if li.limit and len(touched) >= li.limit:
        # whatever number the limit was compared with: this one request worked on max_tile_limit tiles or more
        ctx.fail('map,other-srs,tile-limit,answered' if ans == 'Ok' else 'map,other-srs,tile-limit,effects',
                 'GetMap in %s touched %d distinct tiles (%d upstream requests) although max_tile_limit is %d, answer %r: %s' % (
                     srs, len(touched), len(fetched), li.limit, ans, url), rep)
        return
    if n is not None and li.limit and n >= li.limit:
        if ans == 'Ok':
            ctx.fail('map,other-srs,tile-limit,answered', 'GetMap in %s needing %d tiles answered although max_tile_limit is %d: %s' % (
                srs, n, li.limit, url), rep)
        elif summ:
            ctx.fail('map,other-srs,tile-limit,effects', 'GetMap in %s over the tile limit (%d >= %d) caused %r: %s' % (
                srs, n, li.limit, summ[:3], url), rep)
        elif ans != 'TooManyTiles':
            ctx.fail('map,other-srs,tile-limit,wrong-error', 'GetMap in %s over the tile limit (%d >= %d) refused with %r: %s' % (
                srs, n, li.limit, ans, url), rep)
        return
    if ans != 'Ok' and costly(summ):
        ctx.fail('map,other-srs,refused-with-effects', 'request refused with %r after %r: %s' % (ans, costly(summ)[:3], url), rep)
    elif n is not None and li.limit and n < li.limit and ans == 'TooManyTiles':
        ctx.fail('map,other-srs,below-limit-refused', 'GetMap in %s needing %d tiles refused although max_tile_limit is %d: %s' % (
            srs, n, li.limit, url), rep)


def fixed_probes(ctx, col, rec, seq):
    """Probes that do not depend on the seed (no use of ctx.rng).
    (1) two layers on different grids in one application: every tile service is asked for layer A with the matrix set /
        grid name that only layer B offers (and the other way round), with addresses valid in A's grid, valid in B's
        grid and valid in both; a matrix set the layer does not link is refused without cost (model: UnknownLayer /
        UnknownMatrixSet; the cases also go through the correspondence).
    (2) GetMap in EPSG:4326 on mercator caches with a max_tile_limit, around the limit (oracle only).
    (3) WMS-C tiled=true requests whose BBOX is 1/8 .. 8 pixels short of a tile at some of its borders."""
    try:
        app = App(ctx, [('pa', dict(PROBE_GRID_A), dict(PROBE_OPTS), False, False),
                        ('pb', dict(PROBE_GRID_B), dict(PROBE_OPTS), False, False),
                        ('pm', {'base': 'GLOBAL_MERCATOR', 'num_levels': 6}, dict(PROBE_OPTS, queryable=False), True, False)],
                  None, None, info_formats=True)
        prepare(app, col, seq)
        for li in app.layers:
            for lo in app.layers:
                if lo is li:
                    continue
                deep_i, deep_o = li.grid.levels - 1, lo.grid.levels - 1
                addrs = [(0, 0, 0),
                         (li.grid.grid_sizes[deep_i][0] - 1, li.grid.grid_sizes[deep_i][1] - 1, deep_i),
                         (lo.grid.grid_sizes[deep_o][0] - 1, lo.grid.grid_sizes[deep_o][1] - 1, deep_o)]
                for svc in SVCS:
                    for x, y, z in addrs:
                        if svc == 'TMS' and li.skip_first:
                            z = max(z - 1, 0)
                        q = {'svc': svc, 'x': str(x), 'y': str(y), 'z': str(z), 'fmt': None if svc == 'WmtsRestFI' else 'png',
                             'dims': {}, 'layer': li.name, 'gridname': lo.gname, 'origin': None, 'i': 1, 'j': 1,
                             'infofmt': 'txt' if svc == 'WmtsRestFI' else 'text/plain'}
                        process_tile(ctx, col, app, rec, li, q)
                        ctx.count('probe=matrix-set-of-other-layer')
    except Exception as e:  # noqa
        ctx.problem('harness', 'fixed probe (matrix set of another layer) could not be run: %r' % (e,))
    try:
        app = App(ctx, [('qa', {'base': 'GLOBAL_MERCATOR', 'num_levels': 5}, dict(PROBE_OPTS, max_tiles=50, queryable=False), True, False),
                        ('qb', {'base': 'GLOBAL_WEBMERCATOR', 'num_levels': 4}, dict(PROBE_OPTS, max_tiles=9, queryable=False), True, False),
                        ('qc', {'base': 'GLOBAL_MERCATOR', 'num_levels': 4, 'tile_size': [128, 128], 'origin': 'nw'},
                         dict(PROBE_OPTS, max_tiles=16, meta=[2, 2], queryable=False), True, False)],
                  None, None, info_formats=True)
        prepare(app, col, seq)
        for li in app.layers:
            for bbox in PROBE_4326_BBOXES:
                for size in PROBE_4326_SIZES:
                    process_map_other_srs(ctx, app, rec, li, 'EPSG:4326', bbox, size)
    except Exception as e:  # noqa
        ctx.problem('harness', 'fixed probe (GetMap in another SRS around the tile limit) could not be run: %r' % (e,))
    # (3) WMS-C: tiled=true requests aligned with a tile at some borders and 1/8 .. 8 request pixels short of it at the
    #     others (every border combination that stays inside the one tile); exact grids go through the correspondence too
    try:
        app = App(ctx, [('ta', dict(PROBE_GRID_A), dict(PROBE_OPTS, queryable=False), False, False),
                        ('tb', dict(PROBE_GRID_B), dict(PROBE_OPTS, queryable=False), False, False),
                        ('tm', {'base': 'GLOBAL_MERCATOR', 'num_levels': 4}, dict(PROBE_OPTS, queryable=False), True, False)],
                  None, None, info_formats=True)
        prepare(app, col, seq)
        sides = [(0, 0, 1, 1), (0, 0, 1, 0), (0, 0, 0, 1), (1, 1, 0, 0), (1, 0, 0, 0), (0, 1, 0, 0), (1, 1, 1, 1)]
        for li in app.layers:
            tw, th = li.grid.tile_size
            for l in sorted({0, li.grid.levels - 1}) if li.exact else [1, 2]:
                nx, ny = li.grid.grid_sizes[l]
                for x, y in sorted({(0, 0), (nx - 1, ny - 1)}):
                    if li.exact:
                        rect = [Fraction(v) for v in li.gc.tile_rect(x, y, l)]
                    else:
                        rect = [Fraction(v) for v in li.grid.tile_bbox((x, y, l))]
                    res = (rect[2] - rect[0]) / tw
                    for d in (Fraction(1, 8), Fraction(1, 2), 1, 2, 5, 8):
                        for sd in sides:
                            b = [rect[0] + sd[0] * d * res, rect[1] + sd[1] * d * res, rect[2] - sd[2] * d * res, rect[3] - sd[3] * d * res]
                            if not (b[0] < b[2] and b[1] < b[3]):
                                continue
                            m = {'bbox': b, 'w': tw, 'h': th, 'fmt': 'png', 'tiled': True, 'kind': 'probe-tiled'}
                            if not li.exact:
                                m['bbox_text'] = ','.join(repr(float(v)) for v in b)
                                m['bbox'] = [Fraction(float(v)) for v in b]
                            process_map(ctx, col, app, rec, li, m)
                            ctx.count('probe=tiled-bbox-short-of-tile')
    except Exception as e:  # noqa
        ctx.problem('harness', 'fixed probe (tiled requests short of a tile border) could not be run: %r' % (e,))


class Collector(object):
    def __init__(self):
        self.defs = {}
        self.tile_terms, self.tile_desc = [], []
        self.map_terms, self.map_desc = [], []
        self.direct_terms, self.direct_desc = [], []


def process_tile(ctx, col, app, rec, li, q):
    url = tile_url(li, q)
    ans, log, _resp = run_request(app, rec, url)
    effs, cached, summ = effects_of(li, log)
    for e in log:
        if e[0] == 'store':
            li.stored.add(e[2])
    valid = None
    try:
        valid = address_valid(li, q)
    except Exception:  # noqa
        pass
    nontrivial = valid is not True or q['fmt'] != li.opts['format'] or bool(q["dims"])
    ctx.case(('tile', json.dumps(li.spec, sort_keys=True), json.dumps(li.opts, sort_keys=True, default=str), json.dumps(q, sort_keys=True)),
             nontrivial, {'url': url, 'grid': li.spec, 'answer': ans if isinstance(ans, str) else list(ans), 'effects': summ[:8]})
    ctx.count('svc=' + q['svc'])
    ctx.count('answer=' + (ans if isinstance(ans, str) else 'other'))
    ctx.count('address=' + {None: 'non-numeric', True: 'inside', False: 'outside'}[valid])
    ctx.count('grid=' + ('exact' if li.exact else 'real'))
    tile_oracle(ctx, li, app, q, url, ans, summ)
    # correspondence: only for components in the model's vocabulary
    svc = q['svc']
    comps_plain = all(NUM_RE.match(s) or s in BAD_COMPONENTS for s in (q['x'], q['y'], q['z']))
    if not comps_plain:
        ctx.count('oracle_only=odd-integer-literal')
        return
    al = answer_lit(ans)
    if al is None:
        ctx.problem('correspondence', 'unclassified answer of the implementation for %s' % url, {'answer': list(ans), 'request': q})
        return
    col.tile_terms.append('(%s, %s, %s, %s, (%s, [%s]))' % (
        li.lname, llit(sorted(cached), coord_lit), treq_term(li, q), zlit(li.tol), al, '; '.join(effs)))
    col.tile_desc.append({'url': url, 'grid': li.spec, 'layer_options': {k: v for k, v in li.opts.items()}, 'answer': ans,
                          'effects': summ[:30], 'cached_before': sorted(cached)[:30]})


def process_map(ctx, col, app, rec, li, m):
    url = map_url(li, m)
    ans, log, _resp = run_request(app, rec, url)
    effs, cached, summ = effects_of(li, log)
    for e in log:
        if e[0] == 'store':
            li.stored.add(e[2])
    ctx.case(('map', json.dumps(li.spec, sort_keys=True), json.dumps(li.opts, sort_keys=True, default=str), url, app.max_pixels, app.srs_extent),
             True, {'url': url, 'grid': li.spec, 'answer': ans if isinstance(ans, str) else list(ans), 'effects': summ[:8]})
    ctx.count('map_kind=' + m['kind'])
    ctx.count('answer=' + (ans if isinstance(ans, str) else 'other'))
    map_oracle(ctx, li, app, m, url, ans, summ)
    al = answer_lit(ans)
    if al is None:
        ctx.problem('correspondence', 'unclassified answer of the implementation for %s' % url, {'answer': list(ans)})
        return
    if not li.exact:
        return
    mp = 'None' if not app.max_pixels else '(Some %d)' % (app.max_pixels[0] * app.max_pixels[1])
    se = 'None' if app.srs_extent is None else '(Some %s)' % li.gc.zbbox(app.srs_extent)
    col.map_terms.append('(%s, %s, %s, %s, (mkMap %s %d %d %d %s), (%s, [%s]))' % (
        mp, se, li.lname, llit(sorted(cached), coord_lit), li.gc.zbbox(m['bbox']), m['w'], m['h'], fmt_id(m['fmt']), blit(m['tiled']),
        al, '; '.join(effs)))
    col.map_desc.append({'url': url, 'grid': li.spec, 'layer_options': {k: v for k, v in li.opts.items()},
                         'max_output_pixels': app.max_pixels, 'bbox_srs_extent': app.srs_extent, 'answer': ans, 'effects': summ[:40], 'cached_before': sorted(cached)[:30]})


class DirectInfo(object):
    """the uncached WMS layer of an application (bbox values are multiples of 1/8: scale 8)."""
    class _GC(object):
        S = 8

        def zbbox(self, b):
            return '(%s, %s, %s, %s)' % tuple(zlit(int(Fraction(v) * 8)) for v in b)

    def __init__(self):
        self.name = 'l_direct'
        self.gc = DirectInfo._GC()
        self.stored = set()
        self.spec = {'direct': True}
        self.opts = {}


def gen_direct_requests(ctx, app, count):
    rng = ctx.rng
    out = []
    for _ in range(count):
        if app.max_pixels:
            mw_, mh_ = app.max_pixels
            w = rng.choice([mw_, mw_ + 1, mw_ - 1, 1, 2 * mw_, 3 * mw_ + 7])
            h = rng.choice([mh_, mh_ + 1, max(mh_ - 1, 1), (mw_ * mh_) // w, (mw_ * mh_) // w + 1, 5 * mh_])
        else:
            w, h = rng.choice([(64, 64), (300, 200), (1000, 700)])
        h = max(h, 1)
        r_ = Fraction(rng.choice([10, 20, 5, 40, 1])) * rng.choice([1, Fraction(1, 2), Fraction(1, 4)])
        if app.srs_extent and rng.random() < 0.5:
            e = app.srs_extent
            x0 = rng.choice([e[0], e[2]]) - rng.choice([w, w // 2, 2, 0, w + 3]) * r_
            y0 = rng.choice([e[1], e[3]]) - rng.choice([h, h // 2, 2, 0, h + 3]) * r_
        else:
            x0, y0 = rng.randrange(-3000, 3000), rng.randrange(-3000, 3000)
        b = [Fraction(x0), Fraction(y0), x0 + w * r_, y0 + h * r_]
        if not all((v * 8).denominator == 1 for v in b):
            continue
        m_ = {'bbox': b, 'w': int(w), 'h': int(h), 'fmt': 'png', 'tiled': rng.random() < 0.5, 'kind': 'direct'}
        over_limit_exceptions(rng, app, m_)
        out.append(m_)
    return out


def process_direct(ctx, col, app, rec, di, m):
    from mapproxy.image import bbox_position_in_image
    from mapproxy.grid import bbox_contains, bbox_intersects
    url = map_url(di, m)
    ans, log, _resp = run_request(app, rec, url)
    effs, _cached, summ = effects_of(di, log)
    rep_ = {'layer': 'l_direct (sources: [wms source], no cache)', 'max_output_pixels': app.max_pixels, 'bbox_srs_extent': app.srs_extent,
            'request': dict(m, bbox=[float(v) for v in m['bbox']]), 'url': url, 'answer': ans if isinstance(ans, str) else list(ans),
            'effects': summ[:10]}
    ctx.case(('direct', url, app.max_pixels, app.srs_extent), True, rep_)
    ctx.count('map_kind=direct')
    ctx.count('answer=' + (ans if isinstance(ans, str) else 'other'))
    if app.max_pixels and m['w'] * m['h'] > app.max_pixels[0] * app.max_pixels[1]:
        if ans == 'Ok':
            ctx.fail('map,direct,pixel-limit,answered', 'request of %dx%d pixels (tiled=%s) to an uncached layer answered although max_output_pixels is %r: %s' % (
                m['w'], m['h'], m['tiled'], app.max_pixels, url), rep_)
        elif summ:
            ctx.fail('map,direct,pixel-limit,effects', 'request over the pixel limit caused %r: %s' % (summ[:3], url), rep_)
    # correspondence except when the part inside the SRS extent has no pixel (the synthetic upstream cannot answer 0 pixels)
    qb, qs = tuple(float(v) for v in m['bbox']), (m['w'], m['h'])
    if app.srs_extent is not None:
        se = tuple(float(v) for v in app.srs_extent)
        if not bbox_contains(se, qb) and bbox_intersects(se, qb):
            qs, _o, _b = bbox_position_in_image(qb, qs, se)
            if qs[0] == 0 or qs[1] == 0:
                ctx.count('oracle_only=direct-zero-size')
                return
    al = answer_lit(ans)
    if al is None:
        ctx.problem('correspondence', 'unclassified answer of the implementation for %s' % url, {'answer': list(ans)})
        return
    mp = 'None' if not app.max_pixels else '(Some %d)' % (app.max_pixels[0] * app.max_pixels[1])
    se = 'None' if app.srs_extent is None else '(Some %s)' % di.gc.zbbox(app.srs_extent)
    col.direct_terms.append('(%s, %s, (mkMap %s %d %d %d %s), (%s, [%s]))' % (
        mp, se, di.gc.zbbox(m['bbox']), m['w'], m['h'], fmt_id(m['fmt']), blit(m['tiled']), al, '; '.join(effs)))
    col.direct_desc.append(rep_)


def run(ctx):
    rng = ctx.rng
    col = Collector()
    seq = [0]
    n_apps = ctx.n(3, 9)
    n_exact = ctx.n(5, 7)
    n_tile = ctx.n(110, 260)
    n_map = ctx.n(50, 130)
    with Recorder() as rec:
        apps = []
        # corpus first
        for fn, doc in corpus_cases():
            try:
                opts = doc['layer_options']
                o = {'meta': opts.get('meta_size', [1, 1]), 'max_tiles': opts.get('max_tile_limit'),
                     'dims': dict((k, (v[0], v[1])) for k, v in opts.get('dimensions', {}).items()),
                     'queryable': opts.get('queryable', True), 'mixed': opts.get('mixed', False),
                     'minimize': opts.get('minimize', False), 'buffer': opts.get('meta_buffer', 0), 'format': 'png'}
                cspecs = [('gc', doc['grid'], o, doc.get('skip_first', False), doc.get('skip_odd', False))]
                cmulti = None
                if doc.get('first_grid_of_multi_cache'):
                    # `grid` is the second grid of a two-grid cache whose first grid is this one
                    cspecs.insert(0, ('ga', doc['first_grid_of_multi_cache'], dict(o), False, False))
                    cmulti = ('ga', 'gc', dict(o, dims={}, mixed=False, queryable=False))
                app = App(ctx, cspecs, doc.get('max_output_pixels'), doc.get('bbox_srs_extent'), doc.get('featureinfo_formats', True),
                          multi=cmulti)
                prepare(app, col, seq)
                li = app.layers[-1]
                for m in doc.get('multi_map_requests', []):
                    m = dict(m)
                    m['bbox'] = [Fraction(str(v)) for v in m['bbox']]
                    m.setdefault('fmt', 'png')
                    m.setdefault('tiled', False)
                    m.setdefault('kind', 'corpus-multi')
                    process_map(ctx, col, app, rec, app.multi_layer, m)
                for q in doc.get('tile_requests', []):
                    q = dict(q)
                    q.setdefault('layer', li.name)
                    q.setdefault('gridname', li.gname)
                    q.setdefault('dims', {})
                    q.setdefault('origin', None)
                    q.setdefault('i', 1)
                    q.setdefault('j', 1)
                    q.setdefault('infofmt', 'txt' if q['svc'] == 'WmtsRestFI' else 'text/plain')
                    q.setdefault('fmt', 'png')
                    process_tile(ctx, col, app, rec, li, q)
                for m in doc.get('map_requests', []):
                    m = dict(m)
                    m['bbox'] = [Fraction(str(v)) for v in m['bbox']]
                    m.setdefault('fmt', 'png')
                    m.setdefault('tiled', False)
                    m.setdefault('kind', 'corpus')
                    process_map(ctx, col, app, rec, li, m)
                for m in doc.get('direct_requests', []):
                    m = dict(m)
                    m['bbox'] = [Fraction(str(v)) for v in m['bbox']]
                    m.setdefault('fmt', 'png')
                    m.setdefault('tiled', False)
                    m.setdefault('kind', 'corpus-direct')
                    process_direct(ctx, col, app, rec, DirectInfo(), m)
                ctx.count('corpus_files')
            except Exception as e:  # noqa
                ctx.problem('harness', 'corpus file %s could not be replayed: %r' % (fn, e))
        fixed_probes(ctx, col, rec, seq)
        for a in range(n_apps):
            maxpix = rng.choice([None, [64, 48], [100, 100], [300, 200], [256, 256], [128, 96], [12, 12], [16, 8]])
            specs = make_specs(ctx, n_exact, with_real=(a == 0 or not ctx.quick))
            srs_extent = None
            if rng.random() < 0.67:
                # an explicit extent for EPSG:3857 cutting through the grids of this application
                gb = [s_[1]['bbox'] for s_ in specs if 'bbox' in s_[1]]
                b0 = rng.choice(gb)
                b1 = rng.choice(gb)
                srs_extent = [min(b0[0], b1[0]) + rng.randrange(-200, 900), min(b0[1], b1[1]) + rng.randrange(-200, 900),
                              max(b0[2], b1[2]) - rng.randrange(-200, 900), max(b0[3], b1[3]) - rng.randrange(-200, 900)]
                if not (srs_extent[0] < srs_extent[2] and srs_extent[1] < srs_extent[3]):
                    srs_extent = [min(b0[0], b1[0]), min(b0[1], b1[1]), max(b0[2], b1[2]), max(b0[3], b1[3])]
            # a cache with two grids of the same SRS: WMS is served from the second one
            exact_names = [s_[0] for s_ in specs if 'bbox' in s_[1]]
            ga, gb = rng.sample(exact_names, 2)
            mo = layer_opts(rng)
            mo.update({'dims': {}, 'mixed': False, 'queryable': False, 'max_tiles': rng.choice([1, 2, 4, 6, 9])})
            gbs = [s_[1] for s_ in specs if s_[0] == gb][0]
            if mo['buffer'] and (gbs['bbox'][2] - gbs['bbox'][0] < gbs['res'][0] or gbs['bbox'][3] - gbs['bbox'][1] < gbs['res'][0]):
                mo['buffer'] = 0
            app = App(ctx, specs, maxpix, srs_extent, info_formats=(a != 1 and rng.random() < 0.7), multi=(ga, gb, mo))
            prepare(app, col, seq)
            for m in gen_map_requests(ctx, app.multi_layer, app, n_map // 2):
                process_map(ctx, col, app, rec, app.multi_layer, m)
            di = DirectInfo()
            for m in gen_direct_requests(ctx, app, ctx.n(40, 80)):
                process_direct(ctx, col, app, rec, di, m)
            for li in app.layers:
                reqs = [('t', q) for q in gen_tile_requests(ctx, li, n_tile if (li.exact or li.skip_odd) else n_tile // 2)]
                if li.exact:
                    reqs += [('m', m) for m in gen_map_requests(ctx, li, app, n_map)]
                rng.shuffle(reqs)
                for kind, r in reqs:
                    if kind == 't':
                        process_tile(ctx, col, app, rec, li, r)
                    else:
                        process_map(ctx, col, app, rec, li, r)
    defs = '\n'.join(col.defs[k] for k in sorted(col.defs, key=lambda s: (len(s), s)))
    ctx.corr_check(
        'tile', 'Grid Limits', 'layer * list coord * treq * Z * (answer * list effect)', col.tile_terms,
        "fun c => let '(ly, cached, q, tol, obs) := c in result_matches tol (serve_tile ly cached q) obs",
        lambda i: col.tile_desc[i], defs=defs)
    ctx.corr_check(
        'map', 'Grid Limits', 'option Z * option bbox * layer * list coord * mreq * (answer * list effect)', col.map_terms,
        "fun c => let '(mp, se, ly, cached, q, obs) := c in result_matches 0 (serve_map mp se ly cached q) obs",
        lambda i: col.map_desc[i], defs=defs, shard=200)
    ctx.corr_check(
        'direct', 'Grid Limits', 'option Z * option bbox * mreq * (answer * list effect)', col.direct_terms,
        "fun c => let '(mp, se, q, obs) := c in result_matches 0 (serve_direct mp se q) obs",
        lambda i: col.direct_desc[i])


def prepare(app, col, seq):
    """name the grids / layers of an application for the Gallina case files and find out what WMTS offers."""
    for li in app.layers + ([app.multi_layer] if getattr(app, 'multi_layer', None) else []):
        seq[0] += 1
        li.gc.name = 'G%d' % seq[0]
        li.lname = 'L%d' % seq[0]
        col.defs['A%06d' % (2 * seq[0])] = li.gc.definition()
        col.defs['A%06d' % (2 * seq[0] + 1)] = 'Definition %s : layer := %s.' % (li.lname, app.layer_term(li))
        try:
            li.wmts_ok = bool(li.grid.supports_access_with_origin('nw'))
        except Exception:  # noqa
            li.wmts_ok = False
