"""C03  Tile grids tile the plane: exact, gap-free and consistent coordinate arithmetic.

Model: coq/theories/Grid.v (exact integer arithmetic), lemmas coq/theories/Grid_proofs.v, theorems coq/props/P_C03.v;
the integer helpers flip_tile_coord / limit_tile / _create_tile_list are additionally generated from the source
(translator/specs/grid_int.py -> coq/gen/Gen_grid_int.v) and proved equal to the hand model (Grid_gen_proofs.v).
Tie: correspondence on the public API of mapproxy.grid.TileGrid built through the real constructors
(TileGrid(...), tile_grid(...)): an *exact stream* of grids whose parameters are integers (all float operations
of grid.py are exact there, implementation and model must agree bit for bit, values on and next to edges
included) and a *realistic stream* (GLOBAL_MERCATOR, GLOBAL_GEODETIC, sqrt2, UTM-like custom grids) where the
model is evaluated on the exact rational value of the doubles.  Queries whose answer float rounding may decide
either way (within 1e-9 tile units of an edge, e.g. +-1 ulp next to an edge; a comparison of the level choice whose
outcome differs between double and exact arithmetic) are not sent to Coq: for them the oracle accepts exactly the
answers the specification gives for a perturbation of that size (counted in the evidence).
Oracle: the statement of C03 re-computed with fractions.Fraction on the implementation's answers.
Corpus: corpus/C03/*.json (grid parameters + queries, the schema of the `replay` objects of this module) is
replayed first.
"""
from fractions import Fraction
import json
import math
import os

from common import zlit, blit, llit, olit
from gridlib import GridCase, frac, near_integer, is_exact_float_grid

ID = 'C03'
TECHNIQUE = 'Coq proof over an exact-arithmetic grid model + correspondence of the model with TileGrid (exact and realistic streams)'
LEVEL_TEXT = ('Theorems for every grid (any bbox, tile size, positive resolution list, both origins), every level, point, tile, '
              'query rectangle and requested resolution over the exact-arithmetic Gallina model of TileGrid: partition (point in own '
              'tile, no overlap, shared edges, valid tiles = tiled area missing < 1 px of the bbox), flip (involution, validity, '
              'same rectangle when supports_access_with_origin), tiles for a rectangle (cover, no touch, row-major from the top, '
              'valid iff limit_tile, reported bbox, refusal), level choice (closest_level specification and its uniqueness, '
              'NoTiles rule); the model is tied to mapproxy/grid.py by a correspondence check through the real constructors and, '
              'for the integer helpers, by definitions generated from the source and proved equal to the model.')
LEVEL_NOTE = ('Trusted: Coq kernel; hand-written model Grid.v; translator spec grid_int.py; the correspondence harness. IEEE-754 '
              'rounding of grid.py is not modelled: the exact stream (integer parameters) must agree bit for bit, on the realistic '
              'stream and for +-1 ulp queries the oracle allows 1e-9 tile units. threshold_res is modelled (closest_level_thr): switch rule proved for any '
              'threshold list relative to the threshold state thr_pass; requests in another SRS: PROJ is external, the model takes '
              'the transformed outline points (curved outline between the 16 sampled points not covered); string level names are '
              'not modelled.')
DESIGN_REF = 'DESIGN.md section 5, C03'
RULE = ('case = (grid, API function, arguments); non-trivial = query on / next to / away from a tile edge or level boundary '
        'on a grid whose extent is not a multiple of the tile span or has a custom resolution list; distinct by full tuple')
TRUSTED = ['model Grid.v hand-written from mapproxy/grid.py; tie = differential run of TileGrid vs model (vm_compute)',
           'translator/specs/grid_int.py (ast -> Gallina for flip_tile_coord, limit_tile, _create_tile_list; fail closed), its output '
           'cross-checked against the Python functions and proved equal to the hand model',
           'float rounding of grid.py not modelled (exact stream bit-exact, realistic stream tolerance 1e-9 relative)']
ASSUMPTIONS = ['resolutions positive (closest_level: strictly decreasing, stretch_factor >= 1), bbox non-degenerate, tile size positive',
               'numerically meaningful range: resolution >= 1e-9 of the coordinate magnitude',
               'integer level indices (string level names of limit_tile not modelled)',
               'closest_level_spec: threshold_res = None; with thresholds closest_level_thr_general (switch rule at the level where the '
               'current threshold is hit), its complement closest_level_thr_general_unhit (current threshold never hit on the '
               'remaining levels: closest_level), closest_level_thr_one_per_gap (closed form when every threshold has a gap of its '
               'own) and closed forms for thresholds below / above all levels are proved; several thresholds in one gap only '
               'through the two general rules (threshold_stuck, ex_thresholds_same_gap) and the correspondence',
               'foreign-SRS requests: PROJ transformation of the 16 outline points is taken as given (the harness builds its own '
               'pyproj transformer from the two CRS and requires SRS.transform_to to agree with it)',
               'configured grids: options set on the grid / a base grid / under globals / defaults 1.15, 4.0, 256 (configured_grid); other '
               'grid options (min_res, max_res, res_factor, align_resolutions_with, bbox_srs) are not part of the configuration stream']
EXPLANATION = 'grid arithmetic proved over Z for all grids; implementation compared on exact and realistic streams'
GEN = ['Gen_grid_int.v']
CORPUS = os.path.join(os.path.dirname(os.path.dirname(os.path.dirname(os.path.abspath(__file__)))), 'corpus', 'C03')


# ----------------------------------------------------------------------------- grids

def make_grids(ctx):
    from mapproxy.grid import TileGrid, tile_grid
    from mapproxy.srs import SRS
    rng = ctx.rng
    grids = []
    k = [0]

    def add(grid, kind, **kw):
        k[0] += 1
        gc = GridCase('g%d' % k[0], grid, extra_den=8, **kw)
        gc.kind = kind
        grids.append(gc)

    srs = SRS(3857)
    n_exact = ctx.n(24, 160)
    for i in range(n_exact):
        tw, th = rng.choice([(256, 256), (100, 100), (64, 128), (7, 5), (1, 1), (512, 256), (10, 10)])
        mode = rng.choice(['pyramid', 'custom', 'custom', 'close'])
        if mode == 'pyramid':
            base = 10 * rng.choice([1, 2, 3, 5, 8])
            n = rng.randrange(1, 9)
            res = [base * 2 ** (n - 1 - j) for j in range(n)]
        elif mode == 'close':
            # resolutions closer together than the stretch factor
            r0 = 10 * rng.randrange(50, 200)
            res = sorted({r0, r0 - 10, r0 - 20, r0 // 20 * 10, 10 * rng.randrange(1, 40)}, reverse=True)
        else:
            res = sorted({10 * rng.randrange(1, 500) for _ in range(rng.randrange(1, 9))}, reverse=True)
        res = [float(r) for r in res]
        x0 = rng.randrange(-5000, 5000)
        y0 = rng.randrange(-5000, 5000)
        span_x = res[0] * tw
        span_y = res[0] * th
        # extents: exact multiples, one-off, tiny, huge
        w = rng.choice([span_x, span_x * 2, span_x * 3 + rng.randrange(1, 50), span_x + res[-1] * rng.randrange(1, 3 * tw),
                        rng.randrange(1, 2000), span_x * rng.randrange(1, 4) - 1, 5 * span_x + 1])
        h = rng.choice([span_y, span_y * 2, span_y * 3 + rng.randrange(1, 50), span_y + res[-1] * rng.randrange(1, 3 * th),
                        rng.randrange(1, 2000), span_y * rng.randrange(1, 4) - 1, 5 * span_y + 1])
        if mode == 'pyramid' and rng.random() < 0.5:
            # every level aligned with the bbox: the other origin is offered
            h = span_y * rng.randrange(1, 4)
        bbox = (float(x0), float(y0), float(x0 + w), float(y0 + h))
        sf = rng.choice([1.0, 1.125, 1.25, 1.5, 2.0, 1.15])
        shr = rng.choice([4.0, 2.0, 1.5, 4.0])
        origin = rng.choice(['ll', 'ul', 'sw', 'nw'])
        g = TileGrid(srs, bbox=bbox, tile_size=(tw, th), res=res, origin=origin,
                     stretch_factor=sf, max_shrink_factor=shr)
        add(g, 'exact')
    # realistic stream
    real = [
        lambda: tile_grid(3857),
        lambda: tile_grid(3857, origin='nw'),
        lambda: tile_grid(4326),
        lambda: tile_grid(4326, origin='ul'),
        lambda: tile_grid(3857, res_factor='sqrt2', num_levels=12),
        lambda: tile_grid(25832, bbox=(243900.0, 4427757.0, 756099.0, 6655205.0), res=[1000, 500, 250, 100, 50, 25, 10, 5]),
        lambda: tile_grid(25832, bbox=(243900.0, 4427757.0, 756099.0, 6655205.0), origin='ul', tile_size=(512, 512),
                          res=[4891.96981025128, 2445.98490512564, 1222.99245256282, 611.49622628141, 305.748113140705]),
        lambda: tile_grid(31467, bbox=(3300000.0, 5200000.0, 3950000.0, 6100000.0), min_res=2800, num_levels=10),
        lambda: tile_grid(4326, bbox=(5.0, 45.0, 15.5, 55.25), res_factor=1.5, num_levels=8, origin='ul'),
        lambda: tile_grid(3857, bbox=(-20037508.34, -20037508.34, 20037508.34, 20037508.34), min_res=156543.0339, num_levels=10),
        lambda: tile_grid(4326, tile_size=(360, 180), num_levels=6),
        # degree grids deeper than the default 20 levels: tile extents of 1e-5 degree, tile indices in the millions
        # (an error relative to the tile extent is multiplied by the index)
        lambda: tile_grid(4326, num_levels=23),
        lambda: tile_grid(4326, num_levels=23, origin='ul'),
        lambda: tile_grid(4326, bbox=(5.0, 45.0, 15.5, 55.25), res=[1e-4, 3e-5, 1e-5, 3e-6, 1e-6, 7e-7]),
        lambda: tile_grid(3857, bbox=(1000000.1, 6000000.3, 1234567.8, 6543210.9), res=[305.7, 152.8, 76.4, 38.2, 19.1, 9.55]),
    ]
    for mk in real:
        add(mk(), 'real')
    return grids


def make_alignment_grids(ctx):
    """Exact-stream grids whose levels are aligned / not aligned with the border opposite to the origin in a pattern
    chosen independently per level (3-6 levels): supports_access_with_origin must look at every level, so any shortcut
    over a subset of levels (first only, first and last, every other, ...) meets a grid where exactly the skipped level
    is the unaligned one.  Height = th * 10 * M with M = 2520 * k; level resolution 10 * d is aligned iff d | M."""
    from mapproxy.grid import TileGrid
    from mapproxy.srs import SRS
    rng = ctx.rng
    srs = SRS(3857)
    out = []
    for i in range(ctx.n(30, 150)):
        tw, th = rng.choice([(256, 256), (100, 100), (64, 128), (7, 5), (1, 1), (10, 10)])
        M = 2520 * rng.choice([1, 1, 2, 3])
        n = rng.randrange(3, 7)
        tmpl = i % 6
        if tmpl == 0:
            flags = [True] * n
            flags[rng.randrange(1, n - 1)] = False          # exactly one middle level unaligned
        elif tmpl == 1:
            flags = [True] * (n - 1) + [False]              # only the last
        elif tmpl == 2:
            flags = [False] + [True] * (n - 1)              # only the first
        elif tmpl == 3:
            flags = [True] * n                              # all aligned: the other origin is offered
        elif tmpl == 4:
            flags = [True] * n
            flags[rng.randrange(0, n)] = False              # exactly one level, anywhere
        else:
            flags = [rng.random() < 0.6 for _ in range(n)]  # independent per level
        ds = []
        hi = M + 1
        for f in flags:
            lo = max(1, (hi - 1) // 4)
            cand = [d for d in range(lo, hi) if (M % d == 0) == f]
            if not cand:
                break
            d = rng.choice(cand)
            ds.append(d)
            hi = d
        if len(ds) < 3:
            continue
        res = [float(10 * d) for d in ds]
        x0 = rng.randrange(-5000, 5000)
        y0 = rng.randrange(-5000, 5000)
        w = rng.choice([res[0] * tw, res[0] * tw * 2 + 10 * rng.randrange(0, 50), 10 * rng.randrange(1, 5000)])
        h = th * 10 * M
        g = TileGrid(srs, bbox=(float(x0), float(y0), float(x0 + w), float(y0 + h)), tile_size=(tw, th), res=res,
                     origin=rng.choice(['ll', 'ul']), stretch_factor=rng.choice([1.15, 1.25, 2.0]), max_shrink_factor=4.0)
        gc = GridCase('a%d' % i, g, extra_den=8)
        gc.kind = 'exact'
        gc.align_flags = flags[:len(ds)]
        out.append(gc)
    return out


# ----------------------------------------------------------------------------- helpers

def call(f, *a):
    from mapproxy.grid import GridError, NoTiles
    try:
        return ('ok', f(*a))
    except NoTiles:
        return ('notiles', None)
    except GridError:
        return ('griderror', None)
    except Exception as e:  # noqa
        return ('raised', type(e).__name__)


def gparams(g):
    """JSON-able description of a TileGrid, sufficient to rebuild it (the schema of corpus/C03/*.json)."""
    return {'bbox': list(g.bbox), 'res': [float(r) for r in g.resolutions], 'tile_size': list(g.tile_size),
            'origin': g.origin, 'stretch_factor': g.stretch_factor, 'max_shrink_factor': g.max_shrink_factor}


def grid_from_params(p):
    from mapproxy.grid import TileGrid
    from mapproxy.srs import SRS
    return TileGrid(SRS(3857), bbox=tuple(p['bbox']), tile_size=tuple(p['tile_size']), res=list(p['res']),
                    origin=p.get('origin', 'll'), stretch_factor=p.get('stretch_factor', 1.15),
                    max_shrink_factor=p.get('max_shrink_factor', 4.0))


def edge_values(gc, rng, level, axis, ulp=False):
    """coordinates on, next to and away from tile edges of `level` along axis 0/1 (doubles scalable at gc.S);
    with ulp=True additionally the doubles directly below / above tile edges (not scalable: oracle only)."""
    r = float(gc.res[level])
    span = r * (gc.tw if axis == 0 else gc.th)
    lo, hi = float(gc.bbox[axis]), float(gc.bbox[axis + 2])
    nx, ny = gc.grid_size(level)
    n = nx if axis == 0 else ny
    out = []
    ulps = []
    for _ in range(3):
        i = rng.choice([0, 1, n - 1, n, n + 1, -1, rng.randrange(0, n + 1), rng.randrange(n // 2, n + 1), n - 2])
        if axis == 1 and gc.ul:
            e = hi - i * span
        else:
            e = lo + i * span
        for off in (0.0, r / 10.0, -r / 10.0, r / 8.0, -r / 8.0, r / 10.0 + 0.125, r / 10.0 - 0.125, 0.125, -0.125,
                    r / 2.0, span / 2.0, r, -r, r / 9.0, -r / 9.0, 2 * r, -2 * r, 5 * r, -5 * r):
            out.append(e + off)
        ulps += [math.nextafter(e, math.inf), math.nextafter(e, -math.inf),
                 math.nextafter(e + r / 10.0, math.inf), math.nextafter(e - r / 10.0, -math.inf)]
    out.append(lo + rng.random() * (hi - lo))
    out.append(lo - rng.random() * (hi - lo))
    out.append(hi + rng.random() * (hi - lo) / 2)
    res = []
    for v in out:
        if gc.kind == 'exact':
            v = math.floor(v * 8) / 8.0
        else:
            # quantum: 1/128 pixel of the level (at least 2^-20), not finer than the scale of the grid allows
            den = gc.S // 10
            kmax = den.bit_length() - 1 if den & (den - 1) == 0 else 60
            kb = min(max(20, int(math.ceil(-math.log2(r))) + 7), kmax)
            v = math.floor(v * 2.0 ** kb) / 2.0 ** kb
        if gc.can_scale(v):
            res.append(v)
    if ulp:
        res += ulps
    return res


def level_sample(gc, rng, k, deepest=False):
    n = len(gc.res)
    ls = list(range(n))
    rng.shuffle(ls)
    if deepest:
        # always the finest level (largest tile indices, smallest extents), on realistic grids also the one above
        must = [n - 1] + ([n - 2] if gc.kind == 'real' and n > 1 else [])
        ls = must + [l for l in ls if l not in must]
    return sorted(ls[:k])


def coord_lit(c):
    return '(%s, %s, %s)' % (zlit(c[0]), zlit(c[1]), zlit(c[2]))


def ftol(f):
    """tolerance (in tile units) within which float rounding of grid.py may decide either way"""
    return Fraction(1, 10 ** 9) * max(1, abs(f))


class Run(object):
    def __init__(self, ctx):
        self.ctx = ctx
        self.T = {name: ([], []) for name in ('tile', 'tile_bbox', 'sizes', 'flip', 'limit', 'origin', 'affected', 'closest',
                                              'afflevel', 'gen_flip', 'gen_limit', 'gen_list', 'closest_thr', 'foreign', 'envelope', 'meta')}
        self.skipped = 0
        self.tolerance_oracle = 0

    def add(self, name, term, desc):
        self.T[name][0].append(term)
        self.T[name][1].append(desc)


# ----------------------------------------------------------------------------- single queries

def check_tile(R, gc, px, py, l):
    ctx, g = R.ctx, gc.grid
    exact = gc.kind == 'exact'
    st, t = call(g.tile, px, py, l)
    fx, fy = gc.tile_pos(px, py, l)
    near = near_integer(fx) or near_integer(fy)
    scal = gc.can_scale(px, py)
    rep = {'grid': gparams(g), 'query': {'fn': 'tile', 'point': [px, py], 'level': l}, 'result': t}
    ctx.case(('tile', gc.name, px, py, l), True,
             {'fn': 'tile', 'grid': repr(g), 'point': (px, py), 'level': l, 'result': t})
    ctx.count('tile:' + ('on_edge' if (fx.denominator == 1 or fy.denominator == 1) else 'near_edge' if near else 'away'))
    if st != 'ok':
        ctx.fail('tile-raises', 'tile() raised %r' % (t,), rep)
        return
    if t[2] != l:
        ctx.fail('point-not-in-own-tile', 'tile(%r, %r, %d) = %r has another level' % (px, py, l, t), rep)
        return
    if not scal or (not exact and near):
        # float rounding may decide either way (query within 1e-9 tile units of an edge, e.g. +-1 ulp): the tile must
        # contain the point up to that tolerance
        R.skipped += 1
        R.tolerance_oracle += 1
        ctx.count('tile:tolerance_oracle')
        if not (t[0] - ftol(fx) <= fx < t[0] + 1 + ftol(fx) and t[1] - ftol(fy) <= fy < t[1] + 1 + ftol(fy)):
            ctx.fail('point-not-in-own-tile', 'tile(%r, %r, %d) = %r does not contain the point' % (px, py, l, t), rep)
        return
    R.add('tile', '(%s, %s, %s, %s, (%s, %s))' % (gc.name, zlit(gc.z(px)), zlit(gc.z(py)), zlit(l), zlit(t[0]), zlit(t[1])),
          {'grid': repr(g), 'bbox': g.bbox, 'res': float(gc.res[l]), 'point': (px, py), 'level': l, 'tile': t})
    # oracle: the tile found for a point contains that point (half-open)
    if not (t[0] <= fx < t[0] + 1 and t[1] <= fy < t[1] + 1):
        ctx.fail('point-not-in-own-tile', 'tile(%r, %r, %d) = %r does not contain the point' % (px, py, l, t), rep)
        return
    # oracle: the rectangle reported for that tile contains the point (ties tile() to tile_bbox())
    st, bb = call(lambda: g.tile_bbox(t))
    if st == 'ok':
        eps = 0 if exact else Fraction(1, 10 ** 9) * (max(abs(frac(v)) for v in bb) + gc.res[l] * gc.tw)
        if not (frac(bb[0]) - eps <= frac(px) <= frac(bb[2]) + eps and frac(bb[1]) - eps <= frac(py) <= frac(bb[3]) + eps):
            ctx.fail('point-not-in-tile-bbox', 'tile_bbox(tile(%r, %r, %d)) = %r does not contain the point' % (px, py, l, bb), rep)


def block_for(gc, l, cx0, cy0, cx1, cy1):
    """expected tile list for the corner tiles (cx0, cy0) (lower left) and (cx1, cy1) (upper right): rows from the top"""
    nx, ny = gc.grid_size(l)
    rows = list(range(cy1, cy0 - 1, -1)) if not gc.ul else list(range(cy1, cy0 + 1))
    cols = list(range(cx0, cx1 + 1))
    return cols, rows, [((x, y, l) if (0 <= x < nx and 0 <= y < ny) else None) for y in rows for x in cols]


def check_affected(R, gc, bb, l, kind='corpus'):
    ctx, g = R.ctx, gc.grid
    exact = gc.kind == 'exact'
    r = gc.res[l]
    st, res = call(lambda: (lambda t: (t[0], t[1], list(t[2])))(g.get_affected_level_tiles(bb, l)))
    delta = r / 10
    pos = [gc.tile_pos(frac(bb[0]) + delta, frac(bb[1]) + delta, l), gc.tile_pos(frac(bb[2]) - delta, frac(bb[3]) - delta, l)]
    near = any(near_integer(p) for pp in pos for p in pp)
    scal = gc.can_scale(*bb)
    rep = {'grid': gparams(g), 'query': {'fn': 'affected', 'bbox': list(bb), 'level': l}}
    ctx.case(('affected', gc.name, bb, l), True,
             {'fn': 'get_affected_level_tiles', 'grid': repr(g), 'bbox': bb, 'level': l,
              'result': (res[0], res[1], list(res[2])[:6]) if st == 'ok' else st} if len(ctx.samples) < 5 else None)
    ctx.count('affected:' + kind)
    if st == 'ok':
        abbox, (gx, gy), tiles = res
        tiles = [tuple(t) if t is not None else None for t in tiles]
        rep['result'] = {'bbox': list(abbox), 'grid': [gx, gy], 'tiles': tiles[:40]}
    elif st != 'griderror':
        ctx.fail('affected-raises', 'get_affected_level_tiles raised %r' % (res,), rep)
        return
    if not scal or (not exact and near) or (exact and st == 'ok' and not gc.can_scale(*abbox)):
        # rounding-sensitive: the answer must be the exact answer for some perturbation of the four inset corner
        # positions by at most 1e-9 tile units
        R.skipped += 1
        R.tolerance_oracle += 1
        ctx.count('affected:tolerance_oracle')
        cands = [sorted({math.floor(p - ftol(p)), math.floor(p + ftol(p))}) for p in (pos[0][0], pos[0][1], pos[1][0], pos[1][1])]
        ok = False
        for cx0 in cands[0]:
            for cy0 in cands[1]:
                for cx1 in cands[2]:
                    for cy1 in cands[3]:
                        cols, rows, exp = block_for(gc, l, cx0, cy0, cx1, cy1)
                        if not cols or not rows:
                            ok = ok or st == 'griderror'
                        elif st == 'ok' and exp == tiles and (gx, gy) == (len(cols), len(rows)):
                            ok = True
        if not ok:
            ctx.fail('affected-tiles', 'tiles for rectangle differ from the exact cover (row-major from the top, valid tiles '
                     'only) for every rounding of the corner positions', rep)
        return
    if st == 'ok':
        if exact:
            zb, tol = gc.zbbox(abbox), 0
        else:
            zs = [int(frac(v) * gc.S) for v in abbox]
            zb = '(%s, %s, %s, %s)' % tuple(zlit(v) for v in zs)
            tol = int(frac(max(abs(v) for v in abbox) + float(r) * gc.tw) * gc.S / 10 ** 9) + 1
        obs_t = '(Affected %s %d %d %s)' % (zb, gx, gy, llit(tiles, lambda c: olit(c, coord_lit)))
        R.add('affected', '(%s, %s, %s, %d, %s)' % (gc.name, gc.zbbox(bb), zlit(l), tol, obs_t),
              {'grid': repr(g), 'bbox': bb, 'level': l, 'affected_bbox': abbox, 'grid_size': (gx, gy), 'tiles': tiles})
        affected_oracle(ctx, gc, bb, l, abbox, gx, gy, tiles, exact, rep)
    else:
        R.add('affected', '(%s, %s, %s, 0, InvalidBBOX)' % (gc.name, gc.zbbox(bb), zlit(l)),
              {'grid': repr(g), 'bbox': bb, 'level': l, 'result': 'GridError'})
        # oracle: only a rectangle without a point 1/10 px inside may be refused
        if frac(bb[2]) - frac(bb[0]) >= delta * 2 and frac(bb[3]) - frac(bb[1]) >= delta * 2:
            ctx.fail('affected-refused', 'rectangle with a non-empty 1/10 px inset refused as invalid', rep)


def level_signature(res_list, q, sf, shr, mul):
    """outcome of every comparison closest_level / get_affected_bbox_and_level make for the requested resolution q"""
    return tuple((r < q, r <= mul(q, sf)) for r in res_list) + (q > mul(res_list[0], shr),)


def closest_ambiguous(gc, q):
    """does float rounding (of res*stretch_factor, res0*max_shrink_factor) change the outcome of a comparison?
    q: the double the implementation works with"""
    g = gc.grid
    # the factors the grid is supposed to work with (= its attributes, except for grids built from a configuration where
    # gc.sf / gc.shr are the configured values)
    fl = level_signature([float(r) for r in g.resolutions], q, float(gc.sf), float(gc.shr), lambda a, b: a * b)
    ex = level_signature(gc.res, frac(q), gc.sf, gc.shr, lambda a, b: a * b)
    return fl != ex


def check_closest(R, gc, q):
    ctx, g = R.ctx, gc.grid
    fq = frac(q)
    resl = [float(x) for x in gc.res]
    st, lv = call(g.closest_level, q)
    amb = closest_ambiguous(gc, q)
    rep = {'grid': gparams(g), 'query': {'fn': 'closest', 'res': q}, 'result': lv}
    ctx.case(('closest', gc.name, q), True, {'fn': 'closest_level', 'grid': repr(g), 'res': q, 'level': lv} if len(ctx.samples) < 6 else None)
    ctx.count('closest:' + ('boundary' if amb or any(fq == x or fq * gc.sf == x for x in gc.res) else 'interior'))
    if st != 'ok':
        ctx.fail('closest-raises', 'closest_level raised %r' % (lv,), rep)
        return
    want = closest_spec(gc, fq)
    if amb:
        # the rounding of res*stretch_factor decides: accept the specification's answer for a slightly smaller or larger
        # stretch factor
        R.skipped += 1
        R.tolerance_oracle += 1
        alts = {closest_spec(gc, fq, gc.sf * (1 + e)) for e in (Fraction(-1, 10 ** 12), 0, Fraction(1, 10 ** 12))}
        if lv not in alts:
            ctx.fail('closest_level', 'closest_level(%r) = %r, specification says %r' % (q, lv, sorted(alts)), dict(rep, expected=want))
        return
    sq = fq * gc.S
    R.add('closest', '(%s, %s, %s, %s)' % (gc.name, zlit(sq.numerator), zlit(sq.denominator), zlit(lv)),
          {'grid': repr(g), 'resolutions': resl, 'stretch': float(gc.sf), 'res': q, 'level': lv})
    if lv != want:
        ctx.fail('closest_level', 'closest_level(%r) = %r, specification says %r' % (q, lv, want), dict(rep, expected=want))


def check_afflevel(R, gc, bb, size):
    ctx, g = R.ctx, gc.grid
    a, b, c, d = bb
    sx, sy = size
    st, res = call(g.get_affected_bbox_and_level, (a, b, c, d), (sx, sy))
    w, h = frac(c) - frac(a), frac(d) - frac(b)
    fq = min(w / sx, h / sy)
    q_float = min(abs(a - c) / sx, abs(b - d) / sy)      # what get_resolution computes
    rep = {'grid': gparams(g), 'query': {'fn': 'afflevel', 'bbox': [a, b, c, d], 'size': [sx, sy]},
           'result': st if st != 'ok' else res[1]}
    ctx.case(('afflevel', gc.name, (a, b, c, d), sx, sy), True)
    if st not in ('ok', 'notiles'):
        ctx.fail('afflevel-raises', 'get_affected_bbox_and_level raised %r' % (res,), rep)
        return
    # oracle (C03 / C16): NoTiles exactly when the rectangle misses the grid or needs more than max_shrink_factor;
    # otherwise the level of the specification
    inter = (gc.bbox[0] < frac(c) and gc.bbox[2] > frac(a) and gc.bbox[1] < frac(d) and gc.bbox[3] > frac(b))
    amb = (frac(q_float) != fq and level_signature(gc.res, frac(q_float), gc.sf, gc.shr, lambda x, y: x * y)
           != level_signature(gc.res, fq, gc.sf, gc.shr, lambda x, y: x * y)) or closest_ambiguous(gc, q_float)
    if amb:
        R.skipped += 1
        return
    want = None if (not inter or fq > gc.res[0] * gc.shr) else closest_spec(gc, fq)
    got = res[1] if st == 'ok' else None
    if got != want:
        ctx.fail('affected-level', 'get_affected_bbox_and_level(%r, %r) gives level %r, specification says %r' % (
            (a, b, c, d), (sx, sy), got, want), dict(rep, expected=want))
    if not gc.can_scale(a, b, c, d):
        return
    obs = 'Some %s' % zlit(res[1]) if st == 'ok' else 'None'
    R.add('afflevel', '(%s, %s, %d, %d, (%s))' % (gc.name, gc.zbbox((a, b, c, d)), sx, sy, obs),
          {'grid': repr(g), 'bbox': (a, b, c, d), 'size': (sx, sy), 'result': st if st != 'ok' else res[1]})


def check_tile_coord(R, gc, tx, ty, l, lim):
    """tile_bbox / limit_tile / flip_tile_coord of one coordinate (valid level l)"""
    ctx, g = R.ctx, gc.grid
    exact = gc.kind == 'exact'
    r = gc.res[l]
    nx, ny = gc.grid_size(l)
    rep = {'grid': gparams(g), 'query': {'fn': 'coord', 'tile': [tx, ty, l], 'limit': lim}}
    st, bb = call(lambda: g.tile_bbox((tx, ty, l), limit=lim))
    ctx.case(('tile_bbox', gc.name, tx, ty, l, lim), True)
    if st == 'ok':
        if exact and abs(tx) < 10 ** 6 and abs(ty) < 10 ** 6:
            if all(gc.can_scale(v) for v in bb):
                R.add('tile_bbox', '(%s, %s, %s, %s, %s, %s, 0)' % (gc.name, zlit(tx), zlit(ty), zlit(l), blit(lim), gc.zbbox(bb)),
                      {'grid': repr(g), 'tile': (tx, ty, l), 'limit': lim, 'bbox': bb})
        else:
            # realistic: compare with tolerance 1e-9 relative (done in Coq on scaled values)
            mag = max(abs(v) for v in bb) + float(r) * gc.tw
            tol = int(frac(mag) * gc.S / 10 ** 9) + 1
            zs = [int(frac(v) * gc.S) for v in bb]
            R.add('tile_bbox', '(%s, %s, %s, %s, %s, (%s, %s, %s, %s), %d)' % (
                gc.name, zlit(tx), zlit(ty), zlit(l), blit(lim), zlit(zs[0]), zlit(zs[1]), zlit(zs[2]), zlit(zs[3]), tol),
                {'grid': repr(g), 'tile': (tx, ty, l), 'limit': lim, 'bbox': bb})
        # oracle: neighbouring tiles share edges (bit-exact on the exact stream)
        if not lim and abs(tx) < 10 ** 6 and abs(ty) < 10 ** 6:
            st2, bb2 = call(lambda: g.tile_bbox((tx + 1, ty, l)))
            st3, bb3 = call(lambda: g.tile_bbox((tx, ty + 1, l)))
            if st2 == 'ok' and st3 == 'ok':
                tol_f = 0.0 if exact else 1e-9 * (abs(bb[2]) + float(r) * gc.tw)
                ybad = abs((bb3[3] - bb[1]) if gc.ul else (bb3[1] - bb[3]))
                if abs(bb2[0] - bb[2]) > tol_f or ybad > (0.0 if exact else 1e-9 * (abs(bb[3]) + float(r) * gc.th)):
                    ctx.fail('tiles-not-adjacent', 'tile_bbox of neighbours do not share an edge at %r' % ((tx, ty, l),),
                             dict(rep, bboxes=[bb, bb2, bb3]))
            # oracle: the centre of the rectangle is mapped back to the tile (tiles do not overlap)
            cx, cy = (bb[0] + bb[2]) / 2.0, (bb[1] + bb[3]) / 2.0
            st4, t4 = call(g.tile, cx, cy, l)
            if st4 != 'ok' or tuple(t4) != (tx, ty, l):
                ctx.fail('tile-of-interior', 'centre of tile_bbox(%r) is mapped to tile %r' % ((tx, ty, l), t4), rep)
    else:
        ctx.fail('tile_bbox-raises', 'tile_bbox raised %r' % (bb,), rep)
    st, lt = call(g.limit_tile, (tx, ty, l))
    if st == 'ok':
        R.add('limit', '(%s, %s, %s, %s, %s)' % (gc.name, zlit(tx), zlit(ty), zlit(l), olit(lt, coord_lit)),
              {'grid': repr(g), 'tile': (tx, ty, l), 'limit_tile': lt})
        R.add('gen_limit', '(%s_sizes, %s, %s, %s, %s)' % (gc.name, zlit(tx), zlit(ty), zlit(l), olit(lt, coord_lit)),
              {'grid': repr(g), 'tile': (tx, ty, l), 'limit_tile': lt})
        want = (tx, ty, l) if (0 <= tx < nx and 0 <= ty < ny) else None
        if lt != want:
            ctx.fail('limit_tile', 'limit_tile(%r) = %r, grid size %r' % ((tx, ty, l), lt, (nx, ny)), rep)
    else:
        ctx.fail('limit_tile-raises', 'limit_tile raised %r' % (lt,), rep)
    st, ft = call(g.flip_tile_coord, (tx, ty, l))
    if st == 'ok':
        R.add('flip', '(%s, %s, %s, %s, %s)' % (gc.name, zlit(tx), zlit(ty), zlit(l), coord_lit(ft)),
              {'grid': repr(g), 'tile': (tx, ty, l), 'flipped': ft})
        R.add('gen_flip', '(%s_sizes, %s, %s, %s, %s)' % (gc.name, zlit(tx), zlit(ty), zlit(l), coord_lit(ft)),
              {'grid': repr(g), 'tile': (tx, ty, l), 'flipped': ft})
        st2, ft2 = call(g.flip_tile_coord, ft)
        if st2 != 'ok' or tuple(ft2) != (tx, ty, l):
            ctx.fail('flip-not-involutive', 'flip(flip(%r)) = %r' % ((tx, ty, l), ft2), rep)
        # oracle: flipping keeps tiles of the grid inside the grid and out-of-grid coordinates outside
        if st == 'ok' and (call(g.limit_tile, ft)[1] is None) != (lt is None):
            ctx.fail('flip-validity', 'flip(%r) = %r changes membership in the grid' % ((tx, ty, l), ft), rep)
        # oracle: when the grid offers the other origin, the flipped coordinate names the same ground rectangle in the
        # grid numbered from the other corner
        other = 'll' if gc.ul else 'ul'
        if not lim and abs(tx) < 10 ** 6 and abs(ty) < 10 ** 6 and call(g.supports_access_with_origin, other) == ('ok', True):
            mine = gc.tile_rect(tx, ty, l)
            fr_y = ((gc.bbox[1] + ft[1] * r * gc.th) if gc.ul else (gc.bbox[3] - (ft[1] + 1) * r * gc.th))
            tol = max(abs(gc.bbox[1]), abs(gc.bbox[3])) / 10 ** 12
            if ft[0] != tx or abs(fr_y - mine[1]) > tol:
                ctx.fail('flip-rectangle', 'flip(%r) = %r names another rectangle in the %s-numbered grid' % ((tx, ty, l), ft, other), rep)
    else:
        ctx.fail('flip-raises', 'flip_tile_coord raised %r' % (ft,), rep)


def check_grid(R, gc, all_levels=False):
    """grid sizes, supports_access_with_origin, origin_tile"""
    ctx, g, rng = R.ctx, gc.grid, R.ctx.rng
    nlev = len(gc.res)
    obs = [tuple(g.grid_sizes[l]) for l in range(nlev)]
    gc.obs_sizes = obs
    R.add('sizes', '(%s, %s)' % (gc.name, llit(obs, lambda p: '(%d, %d)' % p)), {'grid': repr(g), 'grid_sizes': obs})
    ctx.case(('sizes', gc.name, tuple(obs)), True, {'grid': repr(g), 'bbox': g.bbox, 'res': list(g.resolutions)[:6],
                                                    'tile_size': g.tile_size, 'origin': g.origin, 'grid_sizes': obs[:6]})
    for l in range(nlev):
        if obs[l] != gc.grid_size(l):
            ctx.fail('grid_sizes', 'grid size of level %d is %r, exact value %r' % (l, obs[l], gc.grid_size(l)),
                     {'grid': gparams(g), 'query': {'fn': 'sizes'}, 'level': l})
        # oracle: the valid tiles miss less than one pixel of the grid bbox and the last column / row starts inside it
        r = gc.res[l]
        for n, ext, t in ((obs[l][0], gc.bbox[2] - gc.bbox[0], gc.tw), (obs[l][1], gc.bbox[3] - gc.bbox[1], gc.th)):
            if not (n >= 1 and ext - r < n * r * t and (n - 1) * r * t < ext):
                ctx.fail('grid-cover', 'level %d: %d tiles of %s do not cover the extent %s up to one pixel' % (l, n, float(r * t), float(ext)),
                         {'grid': gparams(g), 'query': {'fn': 'sizes'}, 'level': l})
    for org in ('ll', 'ul'):
        st, sup = call(g.supports_access_with_origin, org)
        R.add('origin', '(%s, %s, %s, None)' % (gc.name, blit(org == 'ul'), blit(bool(sup))),
              {'grid': repr(g), 'origin': org, 'supports': sup})
        ctx.case(('supports', gc.name, org, sup), True)
        ctx.count('supports_other_origin=%s' % bool(sup) if (org == 'ul') != gc.ul else 'supports_own_origin')
        # oracle: the own origin is always offered; the other one exactly when every level is aligned (exact stream)
        if (org == 'ul') == gc.ul and sup is not True:
            ctx.fail('supports-origin', 'own origin not supported', {'grid': gparams(g), 'query': {'fn': 'supports', 'origin': org}})
        if (org == 'ul') != gc.ul and gc.kind == 'exact':
            aligned = all(gc.grid_size(l)[1] * gc.res[l] * gc.th == gc.bbox[3] - gc.bbox[1] for l in range(nlev))
            if bool(sup) != aligned:
                ctx.fail('supports-origin', 'supports_access_with_origin(%s) = %r but alignment of all levels is %r' % (org, sup, aligned),
                         {'grid': gparams(g), 'query': {'fn': 'supports', 'origin': org}})
        if sup:
            for l in (range(nlev) if all_levels else level_sample(gc, rng, 2)):
                st, ot = call(g.origin_tile, l, org)
                if st == 'ok':
                    R.add('origin', '(%s, %s, true, Some (%s, %s))' % (gc.name, blit(org == 'ul'), zlit(l), coord_lit(ot)),
                          {'grid': repr(g), 'origin': org, 'level': l, 'origin_tile': ot})
                    # oracle: the origin tile's rectangle starts at the grid corner the origin names
                    rect = gc.tile_rect(*ot)
                    corner = rect[3] if org == 'ul' else rect[1]
                    want = gc.bbox[3] if org == 'ul' else gc.bbox[1]
                    tol = max(abs(gc.bbox[1]), abs(gc.bbox[3])) / 10 ** 12
                    if abs(corner - want) > tol or ot[0] != 0:
                        ctx.fail('origin_tile', 'origin tile %r for origin %s does not start at the grid corner' % (ot, org),
                                 {'grid': gparams(g), 'query': {'fn': 'origin_tile', 'origin': org, 'level': l}})
                else:
                    ctx.fail('origin_tile', 'origin_tile raised %r' % (ot,), {'grid': gparams(g), 'query': {'fn': 'origin_tile', 'origin': org, 'level': l}})


# ----------------------------------------------------------------------------- corpus

def replay_corpus(R, grids):
    """corpus/C03/*.json: {"grid": <gparams>, "queries": [{"fn": "tile"|"affected"|"closest"|"afflevel"|"coord", ...}]}"""
    ctx = R.ctx
    if not os.path.isdir(CORPUS):
        return
    for k, fn in enumerate(sorted(os.listdir(CORPUS))):
        if not fn.endswith('.json'):
            continue
        try:
            doc = json.load(open(os.path.join(CORPUS, fn)))
            gc = GridCase('c%d' % k, grid_from_params(doc['grid']), extra_den=8)
        except Exception as e:  # noqa
            ctx.problem('harness', 'corpus file %s cannot be replayed: %r' % (fn, e))
            continue
        gc.kind = 'exact' if is_exact_float_grid(gc) else 'real'
        grids.append(gc)
        ctx.count('corpus_files')
        check_grid(R, gc)
        nlev = len(gc.res)
        for q in doc.get('queries', []):
            f = q.get('fn')
            if f == 'tile' and 0 <= q['level'] < nlev:
                check_tile(R, gc, float(q['point'][0]), float(q['point'][1]), q['level'])
            elif f == 'affected' and 0 <= q['level'] < nlev:
                check_affected(R, gc, tuple(float(v) for v in q['bbox']), q['level'])
            elif f == 'closest':
                check_closest(R, gc, float(q['res']))
            elif f == 'afflevel':
                check_afflevel(R, gc, tuple(float(v) for v in q['bbox']), tuple(q['size']))
            elif f == 'coord' and 0 <= q['tile'][2] < nlev:
                check_tile_coord(R, gc, q['tile'][0], q['tile'][1], q['tile'][2], bool(q.get('limit')))


# ----------------------------------------------------------------------------- the run

def run(ctx):
    rng = ctx.rng
    R = Run(ctx)
    grids = []
    replay_corpus(R, grids)
    gen_grids = make_grids(ctx)
    grids += gen_grids
    # --- alignment patterns: supports_access_with_origin / origin_tile / flip on every level (no point queries)
    align_grids = make_alignment_grids(ctx)
    grids += align_grids
    for gc in align_grids:
        ctx.count('alignment_pattern=' + ''.join('A' if f else 'u' for f in gc.align_flags))
        check_grid(R, gc, all_levels=True)
        # the generator's intent, independent of gridlib: level l aligned iff its flag
        for l, f in enumerate(gc.align_flags):
            if (gc.grid_size(l)[1] * gc.res[l] * gc.th == gc.bbox[3] - gc.bbox[1]) != f:
                ctx.problem('harness', 'alignment grid %s: level %d does not have the intended alignment' % (gc.name, l))
        for l in range(len(gc.res)):
            nx, ny = gc.grid_size(l)
            check_tile_coord(R, gc, rng.choice([0, nx - 1]), rng.choice([0, ny - 1, rng.randrange(0, ny)]), l, False)

    for gc in gen_grids:
        g = gc.grid
        exact = gc.kind == 'exact'
        ctx.count('grid_kind=' + gc.kind)
        ctx.count('origin=' + ('ul' if gc.ul else 'll'))
        nlev = len(gc.res)
        check_grid(R, gc)

        for l in level_sample(gc, rng, ctx.n(3, 5), deepest=True):
            r = gc.res[l]
            nx, ny = gc.grid_size(l)
            xs = edge_values(gc, rng, l, 0)
            ys = edge_values(gc, rng, l, 1)
            xs_u = edge_values(gc, rng, l, 0, ulp=True)
            ys_u = edge_values(gc, rng, l, 1, ulp=True)
            # --- tile()
            for k in range(ctx.n(12, 28)):
                if k % 4 == 3:
                    px, py = rng.choice(xs_u), rng.choice(ys_u)
                else:
                    px, py = rng.choice(xs), rng.choice(ys)
                check_tile(R, gc, px, py, l)
            # --- tile_bbox, flip, limit
            for _ in range(ctx.n(6, 14)):
                tx = rng.choice([0, 1, nx - 1, nx, -1, rng.randrange(-2, nx + 2), 10 ** 12])
                ty = rng.choice([0, 1, ny - 1, ny, -1, rng.randrange(-2, ny + 2), -10 ** 9])
                check_tile_coord(R, gc, tx, ty, l, rng.random() < 0.3)
            for lv in (-1, nlev, nlev + 3):
                st, lt = call(g.limit_tile, (0, 0, lv))
                if st == 'ok':
                    R.add('limit', '(%s, 0, 0, %s, %s)' % (gc.name, zlit(lv), olit(lt, coord_lit)), {'grid': repr(g), 'tile': (0, 0, lv), 'limit_tile': lt})
                    R.add('gen_limit', '(%s_sizes, 0, 0, %s, %s)' % (gc.name, zlit(lv), olit(lt, coord_lit)), {'grid': repr(g), 'tile': (0, 0, lv), 'limit_tile': lt})
                    if lt is not None:
                        ctx.fail('limit_tile', 'limit_tile accepts level %d of %d' % (lv, nlev), {'grid': gparams(g), 'query': {'fn': 'limit', 'level': lv}})

            # --- affected tiles
            for k in range(ctx.n(9, 22)):
                kind = rng.choice(['edges', 'edges', 'random', 'tiny', 'outside'])
                px, py = (xs_u, ys_u) if k % 5 == 4 else (xs, ys)
                if kind == 'tiny':
                    a = rng.choice(px)
                    b = rng.choice(py)
                    dd = rng.choice([0.0, float(r) / 8.0, float(r) / 4.0, float(r)])
                    bb = (a, b, a + dd, b + dd)
                else:
                    a, c = sorted([rng.choice(px), rng.choice(px)])
                    b, d = sorted([rng.choice(py), rng.choice(py)])
                    bb = (a, b, c, d)
                # keep the tile list small
                if (bb[2] - bb[0]) / (float(r) * gc.tw) > 12 or (bb[3] - bb[1]) / (float(r) * gc.th) > 12:
                    continue
                check_affected(R, gc, bb, l, kind)

        # --- closest_level and get_affected_bbox_and_level
        resl = [float(x) for x in gc.res]
        cand = []
        sf = float(gc.sf)
        for lr in resl:
            for m in (1.0, 1 / sf, sf, 1.0 + 2 ** -10, 1.0 - 2 ** -10, 1 / sf + 2 ** -10, 1 / sf - 2 ** -10, 0.5, 0.75, 2.0, 1.5):
                cand.append(lr * m)
            cand += [math.nextafter(lr, math.inf), math.nextafter(lr, 0.0), math.nextafter(lr / sf, math.inf), math.nextafter(lr / sf, 0.0)]
        cand += [resl[0] * 5, resl[-1] / 7, resl[0] * float(gc.shr), resl[0] * float(gc.shr) * 1.001]
        rng.shuffle(cand)
        for q in cand[:ctx.n(16, 44)]:
            if q <= 0:
                continue
            if exact and rng.random() < 0.7:
                q = math.floor(q * 2 ** 12) / 2.0 ** 12
            if q <= 0:
                continue
            check_closest(R, gc, q)
        for _ in range(ctx.n(6, 16)):
            l = rng.randrange(nlev)
            xs = edge_values(gc, rng, l, 0)
            ys = edge_values(gc, rng, l, 1)
            a, c = sorted([rng.choice(xs), rng.choice(xs)])
            b, d = sorted([rng.choice(ys), rng.choice(ys)])
            if a == c or b == d:
                continue
            size = rng.choice([(256, 256), (512, 256), (64, 64), (128, 1024), (300, 200), (1, 1)])
            u = rng.random()
            if u < 0.2:
                # a request of (about) level resolution
                size = (max(1, int(round((c - a) / resl[l]))), max(1, int(round((d - b) / resl[l]))))
            elif u < 0.5:
                # a request whose resolution is exactly a level resolution, level resolution / stretch factor or the
                # max_shrink_factor limit (the boundaries of every comparison of the level choice)
                size = rng.choice([(1, 1), (2, 4), (8, 8), (16, 4), (256, 256)])
                t = rng.choice([resl[l], resl[l] / float(gc.sf), resl[0] * float(gc.shr), resl[0] * float(gc.shr),
                                math.nextafter(resl[0] * float(gc.shr), math.inf)])
                a = rng.choice([a, float(gc.bbox[0]), float(gc.bbox[2]) - t * size[0] / 2])
                b = rng.choice([b, float(gc.bbox[1]), float(gc.bbox[3]) - t * size[1] / 2])
                c = a + t * size[0]
                d = b + t * size[1] * rng.choice([1, 1, 2])
                if not (c > a and d > b):
                    continue
            check_afflevel(R, gc, (a, b, c, d), size)

    # --- generated _create_tile_list against the Python generator, on arbitrary lists
    gen_list_cases(R)
    # --- grids built through the configuration loader (grid options, globals, defaults, base grids)
    grids += config_cases(R)
    # --- MetaGrid.get_affected_level_tiles (rectangle -> meta tiles; seeding / cleanup walker) on the exact grids
    meta_cases(R, [gc for gc in gen_grids if gc.kind == 'exact'])
    # --- requests in another SRS than the grid (outline points transformed by PROJ)
    grids += foreign_cases(R)
    envelope_cases(R)
    # --- closest_level on grids with threshold_res
    thr_grids = threshold_cases(R)
    grids += thr_grids

    ctx.distribution['skipped_float_rounding_sensitive'] = R.skipped
    ctx.distribution['checked_by_tolerance_oracle_only'] = R.tolerance_oracle
    defs = '\n'.join(getattr(g, 'definition_text', None) or g.definition() for g in grids)
    defs += '\n' + '\n'.join('Definition %s_sizes : list (Z * Z) := %s.' % (g.name, llit(g.obs_sizes, lambda p: '(%d, %d)' % p))
                             for g in grids)
    T = R.T
    I = 'Grid'
    ctx.corr_check('tile', I, 'grid * Z * Z * Z * (Z * Z)', T['tile'][0],
                   "fun c => let '(g, px, py, l, (tx, ty)) := c in let '(mx, my) := tile g px py l in (mx =? tx) && (my =? ty)",
                   lambda i: T['tile'][1][i], defs=defs)
    ctx.corr_check('tile_bbox', I, 'grid * Z * Z * Z * bool * bbox * Z', T['tile_bbox'][0],
                   "fun c => let '(g, x, y, l, lim, obs, tol) := c in "
                   "bbox_close tol (if lim then limit_bbox g (tile_bbox g x y l) else tile_bbox g x y l) obs",
                   lambda i: T['tile_bbox'][1][i], defs=defs)
    ctx.corr_check('grid_sizes', I, 'grid * list (Z * Z)', T['sizes'][0],
                   "fun c => pairs_eqb (grid_sizes (fst c)) (snd c)", lambda i: T['sizes'][1][i], defs=defs)
    ctx.corr_check('flip', I, 'grid * Z * Z * Z * (Z * Z * Z)', T['flip'][0],
                   "fun c => let '(g, x, y, l, obs) := c in coord_eqb (flip_tile_coord g x y l) obs",
                   lambda i: T['flip'][1][i], defs=defs)
    ctx.corr_check('limit_tile', I, 'grid * Z * Z * Z * option (Z * Z * Z)', T['limit'][0],
                   "fun c => let '(g, x, y, l, obs) := c in ocoord_eqb (limit_tile g x y l) obs",
                   lambda i: T['limit'][1][i], defs=defs)
    ctx.corr_check('origin', I, 'grid * bool * bool * option (Z * (Z * Z * Z))', T['origin'][0],
                   "fun c => let '(g, o, sup, ot) := c in Bool.eqb (supports_access_with_origin g o) sup && "
                   "match ot with None => true | Some (l, t) => coord_eqb (origin_tile g l o) t end",
                   lambda i: T['origin'][1][i], defs=defs)
    ctx.corr_check('affected', I, 'grid * bbox * Z * Z * affected', T['affected'][0],
                   "fun c => let '(g, b, l, tol, obs) := c in affected_close tol (affected_level_tiles g b l) obs",
                   lambda i: T['affected'][1][i], defs=defs, shard=250)
    ctx.corr_check('closest_level', I, 'grid * Z * Z * Z', T['closest'][0],
                   "fun c => let '(g, rn, rd, obs) := c in closest_level g rn rd =? obs",
                   lambda i: T['closest'][1][i], defs=defs)
    ctx.corr_check('closest_level_threshold_res', I, 'grid * list Z * Z * Z * Z', T['closest_thr'][0],
                   "fun c => let '(g, ths, rn, rd, obs) := c in closest_level_thr g ths rn rd =? obs",
                   lambda i: T['closest_thr'][1][i], defs=defs)
    ctx.corr_check('affected_level_foreign_srs', I, 'grid * list (Z * Z) * Z * Z * option (bbox * Z)', T['foreign'][0],
                   "fun c => let '(g, pts, sx, sy, obs) := c in "
                   "match affected_level_foreign g pts sx sy, obs with "
                   "| Some (b, l), Some (b', l') => bbox_eqb b b' && (l =? l') | None, None => true | _, _ => false end",
                   lambda i: T['foreign'][1][i], defs=defs, shard=100)
    ctx.corr_check('meta_affected', I, 'grid * Z * Z * bbox * Z * affected', T['meta'][0],
                   "fun c => let '(g, msx, msy, b, l, obs) := c in affected_close 0 (meta_affected_level_tiles g msx msy b l) obs",
                   lambda i: T['meta'][1][i], defs=defs, shard=250)
    ctx.corr_check('generate_envelope_points', I, 'bbox * Z * list (Z * Z)', T['envelope'][0],
                   "fun c => let '(b, n, obs) := c in pairs_eqb (envelope_points b n) obs",
                   lambda i: T['envelope'][1][i])
    ctx.corr_check('affected_level', I, 'grid * bbox * Z * Z * option Z', T['afflevel'][0],
                   "fun c => let '(g, b, sx, sy, obs) := c in "
                   "match affected_level g b sx sy, obs with Some a, Some b => a =? b | None, None => true | _, _ => false end",
                   lambda i: T['afflevel'][1][i], defs=defs)
    # the definitions generated from the source by translator/specs/grid_int.py against the Python functions; the grid
    # sizes handed to them are the ones the implementation computed (self.grid_sizes), not the model's
    IG = 'Grid Gen_grid_int'
    gs = "(fun z => nth (Z.to_nat z) sizes (0, 0))"
    ctx.corr_check('gen_flip_tile_coord', IG, 'list (Z * Z) * Z * Z * Z * (Z * Z * Z)', T['gen_flip'][0],
                   "fun c => let '(sizes, x, y, l, obs) := c in "
                   "coord_eqb (gen_flip_tile_coord (Z.of_nat (List.length sizes)) %s x y l) obs" % gs,
                   lambda i: T['gen_flip'][1][i], defs=defs)
    ctx.corr_check('gen_limit_tile', IG, 'list (Z * Z) * Z * Z * Z * option (Z * Z * Z)', T['gen_limit'][0],
                   "fun c => let '(sizes, x, y, l, obs) := c in "
                   "ocoord_eqb (gen_limit_tile (Z.of_nat (List.length sizes)) %s x y l) obs" % gs,
                   lambda i: T['gen_limit'][1][i], defs=defs)
    ctx.corr_check('gen_create_tile_list', IG, 'list Z * list Z * Z * (Z * Z) * list (option (Z * Z * Z))', T['gen_list'][0],
                   "fun c => let '(xs, ys, l, gs, obs) := c in ocoords_eqb (gen_create_tile_list xs ys l gs) obs",
                   lambda i: T['gen_list'][1][i])


def envelope_cases(R):
    """mapproxy.srs.generate_envelope_points against the model on rectangles whose edge steps are exact doubles"""
    ctx, rng = R.ctx, R.ctx.rng
    try:
        from mapproxy.srs import generate_envelope_points
    except Exception as e:  # noqa
        ctx.problem('harness', 'generate_envelope_points cannot be imported: %r' % (e,))
        return
    for _ in range(ctx.n(40, 200)):
        x0, y0 = 7.5 * rng.randrange(-40, 40), 7.5 * rng.randrange(-40, 40)
        w, h = 7.5 * rng.randrange(0, 30), 7.5 * rng.randrange(0, 30)
        bb = (x0, y0, x0 + w, y0 + h)
        if rng.random() < 0.15:
            bb = (bb[2], bb[1], bb[0], bb[3])
        n = rng.choice([1, 4, 5, 8, 9, 12, 13, 16, 16, 16, 17, 20, 24, 28])
        st, pts = call(generate_envelope_points, bb, n)
        ctx.case(('envelope', bb, n), True)
        if st != 'ok':
            ctx.fail('envelope-raises', 'generate_envelope_points raised %r' % (pts,), {'bbox': bb, 'n': n})
            continue
        pts = [tuple(q) for q in pts]
        if not all((frac(v) * 8).denominator == 1 for q in pts for v in q):
            continue
        zl = lambda v: zlit(int(frac(v) * 8))
        R.add('envelope', '((%s, %s, %s, %s), %d, %s)' % (zl(bb[0]), zl(bb[1]), zl(bb[2]), zl(bb[3]), n,
                                                       llit(pts, lambda q: '(%s, %s)' % (zl(q[0]), zl(q[1])))),
              {'bbox': bb, 'n': n, 'points': pts})
        # oracle: the corners are among the points and all points lie on the outline
        lo_x, hi_x, lo_y, hi_y = min(bb[0], bb[2]), max(bb[0], bb[2]), min(bb[1], bb[3]), max(bb[1], bb[3])
        if bb[0] <= bb[2] and not all(c in pts for c in ((lo_x, lo_y), (hi_x, lo_y), (hi_x, hi_y), (lo_x, hi_y))):
            ctx.fail('envelope-corners', 'generate_envelope_points(%r, %d) misses a corner' % (bb, n), {'bbox': bb, 'n': n, 'points': pts})


def config_cases(R):
    """Grids as the service builds them: mapproxy.config.loader.ProxyConfiguration(conf).grids[name].tile_grid().
    stretch_factor / max_shrink_factor / tile_size are set on the grid, under globals (image.stretch_factor,
    image.max_shrink_factor, grid.tile_size), on a base grid, or left to the defaults (1.15, 4.0, 256).  Oracle: the grid
    has the configured values (own option, else globals, else default), and it *behaves* so: closest_level and
    get_affected_bbox_and_level are checked against the specification for the configured factors on and next to the
    boundaries res = r_l, r_l / stretch, r_0 * max_shrink.  Model: configured_grid (conf_value / conf_inherit)."""
    ctx, rng = R.ctx, R.ctx.rng
    try:
        from mapproxy.config.loader import ProxyConfiguration
    except Exception as e:  # noqa
        ctx.problem('harness', 'configuration loader cannot be imported: %r' % (e,))
        return []
    out = []

    def opt(v):
        if v is None:
            return 'None'
        if isinstance(v, (list, tuple)):
            return '(Some (%d, %d))' % (v[0], v[1])
        f = frac(float(v))
        return '(Some (%d, %d))' % (f.numerator, f.denominator)

    for i in range(ctx.n(8, 40)):
        glob = {}
        g_sf = rng.choice([None, None, 1.25, 1.5, 2.0])
        g_shr = rng.choice([None, None, 2.0, 8.0])
        g_ts = rng.choice([None, None, [128, 128], [100, 50]])
        if g_sf is not None:
            glob.setdefault('image', {})['stretch_factor'] = g_sf
        if g_shr is not None:
            glob.setdefault('image', {})['max_shrink_factor'] = g_shr
        if g_ts is not None:
            glob.setdefault('grid', {})['tile_size'] = list(g_ts)
        confs = {}
        for name in ('a', 'b', 'c'):
            res = sorted({10 * rng.randrange(1, 300) for _ in range(rng.randrange(2, 7))}, reverse=True)
            x0, y0 = rng.randrange(-5000, 5000), rng.randrange(-5000, 5000)
            c = {'srs': 'EPSG:25832', 'bbox': [x0, y0, x0 + res[0] * rng.randrange(100, 900), y0 + res[0] * rng.randrange(100, 900)],
                 'res': res, 'origin': rng.choice(['ll', 'ul', 'sw', 'nw'])}
            sf = rng.choice([None, 1.0, 1.125, 1.25, 1.5, 2.0, 1.15])
            shr = rng.choice([None, 1.5, 2.0, 4.0, 8.0])
            ts = rng.choice([None, [64, 32], [256, 256], [10, 10]])
            if sf is not None:
                c['stretch_factor'] = sf
            if shr is not None:
                c['max_shrink_factor'] = shr
            if ts is not None:
                c['tile_size'] = list(ts)
            confs[name] = c
        # b inherits from a and overrides some options
        b = {'base': 'a'}
        for key, choices in (('stretch_factor', [None, None, 1.0, 1.5]), ('max_shrink_factor', [None, None, 2.0]),
                             ('tile_size', [None, None, [32, 32]])):
            v = rng.choice(choices)
            if v is not None:
                b[key] = v
        confs['b'] = b
        conf = {'globals': glob, 'grids': {k: dict(v) for k, v in confs.items()}, 'services': {}}
        rep_conf = json.loads(json.dumps(conf))
        try:
            pc = ProxyConfiguration(conf, conf_base_dir=ctx.scratch, seed=False, renderd=False)
            built = {name: pc.grids[name].tile_grid() for name in ('a', 'b', 'c')}
        except Exception as e:  # noqa
            ctx.fail('config-raises', 'configuration with valid grid options is refused: %r' % (e,), {'conf': rep_conf})
            continue
        for name in ('a', 'b', 'c'):
            own = confs[name]
            base = confs['a'] if name == 'b' else {}
            g = built[name]
            loc = {k: (own.get(k) if own.get(k) is not None else base.get(k)) for k in ('stretch_factor', 'max_shrink_factor', 'tile_size')}
            want_sf = loc['stretch_factor'] if loc['stretch_factor'] is not None else (g_sf if g_sf is not None else 1.15)
            want_shr = loc['max_shrink_factor'] if loc['max_shrink_factor'] is not None else (g_shr if g_shr is not None else 4.0)
            want_ts = tuple(loc['tile_size'] or g_ts or (256, 256))
            geo = confs['a'] if name == 'b' else own
            rep = {'conf': rep_conf, 'grid_name': name}
            ctx.case(('config', i, name, json.dumps(rep_conf, sort_keys=True)), True,
                     {'fn': 'GridConfiguration.tile_grid', 'grid_conf': own, 'globals': glob,
                      'result': {'stretch_factor': g.stretch_factor, 'max_shrink_factor': g.max_shrink_factor,
                                 'tile_size': list(g.tile_size)}} if len(ctx.samples) < 6 else None)
            ctx.count('config:stretch_from=' + ('grid' if own.get('stretch_factor') is not None else 'base' if loc['stretch_factor'] is not None
                                                else 'globals' if g_sf is not None else 'default'))
            got = (g.stretch_factor, g.max_shrink_factor, tuple(g.tile_size), g.origin, [float(r) for r in g.resolutions],
                   tuple(float(v) for v in g.bbox))
            want = (want_sf, want_shr, want_ts, 'ul' if geo['origin'] in ('ul', 'nw') else 'll', [float(r) for r in geo['res']],
                    tuple(float(v) for v in geo['bbox']))
            if got != want:
                ctx.fail('config-grid-option', 'grid %r is built with (stretch, shrink, tile size, origin, res, bbox) = %r, configured is %r'
                         % (name, got, want), dict(rep, built=list(got), configured=list(want)))
            gc = GridCase('k%d%s' % (i, name), g, stretch=frac(float(want_sf)), shrink=frac(float(want_shr)), extra_den=8)
            gc.kind = 'exact'
            zb = [gc.z(v) for v in gc.bbox]
            gc.definition_text = ('Definition %s : grid := configured_grid (mkGrid %s %s %s %s 1 1 %s %s 1 1 1 1) '
                                  '(conf_inherit %s %s) %s (conf_inherit %s %s) %s (conf_inherit %s %s) %s.' % (
                                      gc.name, zlit(zb[0]), zlit(zb[1]), zlit(zb[2]), zlit(zb[3]),
                                      llit([gc.z(r) for r in gc.res]), blit(gc.ul),
                                      opt(own.get('stretch_factor')), opt(base.get('stretch_factor')), opt(g_sf),
                                      opt(own.get('max_shrink_factor')), opt(base.get('max_shrink_factor')), opt(g_shr),
                                      opt(own.get('tile_size')), opt(base.get('tile_size')), opt(g_ts)))
            out.append(gc)
            check_grid(R, gc)
            # behaviour: level choice for the configured factors
            resl = [float(x) for x in gc.res]
            cand = []
            for lr in resl:
                for sfv in {float(want_sf), 1.15, float(g_sf or 1.15)}:
                    cand += [lr / sfv, lr / sfv + 0.125, lr / sfv - 0.125]
                cand += [lr, lr * 0.95, lr * 0.8]
            rng.shuffle(cand)
            for q in cand[:ctx.n(8, 16)]:
                q = math.floor(q * 2 ** 12) / 2.0 ** 12
                if q > 0:
                    check_closest(R, gc, q)
            for shrv in {float(want_shr), 4.0, float(g_shr or 4.0)}:
                for sz in ((1, 1), (8, 4)):
                    t = resl[0] * shrv
                    a, b2 = float(gc.bbox[0]), float(gc.bbox[1])
                    for tt in (t, t + 0.125, t - 0.125):
                        check_afflevel(R, gc, (a, b2, a + tt * sz[0], b2 + tt * sz[1] * 2), sz)
    return out


def meta_cases(R, exact_grids):
    """MetaGrid.get_affected_level_tiles on exact-stream grids: ordinary rectangles on / next to tile edges and strips
    thinner than 2/10 pixel in one axis (or both) that run through several meta tiles.  Oracle: per axis independently the
    effective range is the 1/10 px inset or, for a range thinner than 2/10 px, its centre; the list is the row-major list
    (from the top) of the anchors of all meta tiles between the two ends, None outside the grid."""
    ctx, rng = R.ctx, R.ctx.rng
    try:
        from mapproxy.grid import MetaGrid
    except Exception as e:  # noqa
        ctx.problem('harness', 'MetaGrid cannot be imported: %r' % (e,))
        return
    for gc in exact_grids:
        g = gc.grid
        for l in level_sample(gc, rng, ctx.n(2, 3), deepest=True):
            r = float(gc.res[l])
            nx, ny = gc.grid_size(l)
            ms = rng.choice([(2, 2), (3, 2), (1, 4), (4, 4), (2, 1), (5, 3)])
            mg = MetaGrid(g, meta_size=ms, meta_buffer=rng.choice([0, 10]))
            mx, my = min(ms[0], nx), min(ms[1], ny)
            xs = edge_values(gc, rng, l, 0)
            ys = edge_values(gc, rng, l, 1)
            for k in range(ctx.n(6, 12)):
                kind = rng.choice(['thin_x', 'thin_y', 'thin_both', 'rect', 'rect'])
                a, b = rng.choice(xs), rng.choice(ys)
                long_x = r * gc.tw * mx * rng.choice([0.5, 1.5, 2.5, 3.25])
                long_y = r * gc.th * my * rng.choice([0.5, 1.5, 2.5, 3.25])
                thin = rng.choice([0.0, 0.125, r / 8.0, r / 16.0])
                if kind == 'thin_x':
                    bb = (a, b, a + thin, b + long_y)
                elif kind == 'thin_y':
                    bb = (a, b, a + long_x, b + thin)
                elif kind == 'thin_both':
                    bb = (a, b, a + thin, b + rng.choice([0.0, r / 8.0]))
                else:
                    c, d = rng.choice(xs), rng.choice(ys)
                    bb = (min(a, c), min(b, d), max(a, c), max(b, d))
                    if (bb[2] - bb[0]) / (r * gc.tw) > 14 or (bb[3] - bb[1]) / (r * gc.th) > 14:
                        continue
                bb = tuple(math.floor(v * 8) / 8.0 for v in bb)
                if not gc.can_scale(*bb):
                    continue
                check_meta_affected(R, gc, mg, ms, bb, l, kind)
    # levels whose grid is smaller than the configured meta size (the effective meta size is the clipped one, for the
    # alignment of the first / last tile as well as for the step between meta tiles) with rectangles that overhang the
    # grid on each of the four sides; fixed choice, independent of the seed
    done = 0
    for gc in exact_grids:
        if done >= ctx.n(80, 240):
            break
        g = gc.grid
        small = [l for l in range(len(gc.res)) if min(gc.grid_size(l)) < 8]
        for l in sorted(set(small[:1] + small[-1:])):
            nx, ny = gc.grid_size(l)
            ms = (4, 4) if (nx < 4 or ny < 4) else (8, 8)
            mg = MetaGrid(g, meta_size=ms, meta_buffer=0)
            r = float(gc.res[l])
            sx, sy = r * gc.tw, r * gc.th
            x0, y0, x1, y1 = [float(v) for v in gc.bbox]
            xm, ym = x0 + min(sx, x1 - x0) / 2.0, y0 + min(sy, y1 - y0) / 2.0
            xn, yn = x1 - min(sx, x1 - x0) / 2.0, y1 - min(sy, y1 - y0) / 2.0
            for kind, bb in (('overhang_w', (x0 - sx * ms[0] / 2.0, ym, xm, yn)),
                             ('overhang_n', (xm, ym, xn, y1 + sy * ms[1] / 2.0)),
                             ('overhang_e', (xm, ym, x1 + sx * ms[0] / 2.0, yn)),
                             ('overhang_s', (xm, y0 - sy * ms[1] / 2.0, xn, yn)),
                             ('overhang_all', (x0 - sx, y0 - sy, x1 + sx, y1 + sy))):
                bb = tuple(math.floor(v * 8) / 8.0 for v in bb)
                if not (bb[0] <= bb[2] and bb[1] <= bb[3]) or not gc.can_scale(*bb):
                    continue
                check_meta_affected(R, gc, mg, ms, bb, l, kind)
                done += 1


def check_meta_affected(R, gc, mg, ms, bb, l, kind):
    ctx, g = R.ctx, gc.grid
    r = gc.res[l]
    delta = r / 10
    nx, ny = gc.grid_size(l)
    mx, my = min(ms[0], nx), min(ms[1], ny)
    st, res = call(lambda: (lambda t: (t[0], t[1], [tuple(c) if c is not None else None for c in t[2]]))(
        mg.get_affected_level_tiles(bb, l)))
    rep = {'grid': gparams(g), 'query': {'fn': 'meta_affected', 'meta_size': list(ms), 'bbox': list(bb), 'level': l}}
    ctx.case(('meta_affected', gc.name, ms, bb, l), True, dict(rep['query'], grid=repr(g), result=str(res)[:200]) if len(ctx.samples) < 6 else None)
    ctx.count('meta_affected:' + kind)
    if st != 'ok':
        # since the thin-rectangle handling no rectangle with x0 <= x1, y0 <= y1 is refused
        ctx.fail('meta-affected-raises', 'MetaGrid.get_affected_level_tiles raised %r (%s)' % (res, st), rep)
        return
    abbox, (gx, gy), tiles = res
    rep['result'] = {'bbox': list(abbox), 'grid': [gx, gy], 'tiles': tiles[:40]}

    def eff(lo, hi):
        lo, hi = frac(lo), frac(hi)
        if lo + delta > hi - delta:
            return (lo + hi) / 2, (lo + hi) / 2
        return lo + delta, hi - delta
    ex0, ex1 = eff(bb[0], bb[2])
    ey0, ey1 = eff(bb[1], bb[3])
    p0 = gc.tile_pos(ex0, ey0, l)
    p1 = gc.tile_pos(ex1, ey1, l)
    ax0, ax1 = math.floor(p0[0]) // mx * mx, math.floor(p1[0]) // mx * mx
    ay0, ay1 = math.floor(p0[1]) // my * my, math.floor(p1[1]) // my * my
    cols = list(range(ax0, ax1 + 1, mx))
    rows = list(range(ay1, ay0 - 1, -my)) if not gc.ul else list(range(ay1, ay0 + 1, my))
    expected = [((x, y, l) if (0 <= x < nx and 0 <= y < ny) else None) for y in rows for x in cols]
    if tiles != expected or (gx, gy) != (len(cols), len(rows)):
        ctx.fail('meta-affected-tiles', 'meta tiles for the rectangle differ from the cover computed per axis (row-major from the '
                 'top): %d x %d reported, %d x %d expected' % (gx, gy, len(cols), len(rows)), dict(rep, expected=expected[:40]))
        return
    if not all(gc.can_scale(v) for v in abbox):
        return
    obs = '(Affected %s %d %d %s)' % (gc.zbbox(abbox), gx, gy, llit(tiles, lambda c: olit(c, coord_lit)))
    R.add('meta', '(%s, %d, %d, %s, %s, %s)' % (gc.name, ms[0], ms[1], gc.zbbox(bb), zlit(l), obs),
          {'grid': repr(g), 'meta_size': ms, 'bbox': bb, 'level': l, 'result': rep['result']})


def foreign_cases(R):
    """get_affected_bbox_and_level / get_affected_tiles with req_srs != grid srs (what CacheMapLayer does for every WMS
    request).  The 16 outline points the implementation documents are transformed here with the same PROJ calls and
    handed to the model (affected_level_foreign); oracle: the source rectangle contains every transformed outline point
    and every such point that lies inside a tile of the grid, more than 1/10 pixel away from the tile's border, is in a
    reported tile.  Rectangles are moved so that the curved image of an edge crosses a tile border between the corner and
    the middle of the edge (the situation in which fewer outline points lose a tile row)."""
    ctx, rng = R.ctx, R.ctx.rng
    try:
        from mapproxy.grid import tile_grid
        from mapproxy.srs import SRS, generate_envelope_points
    except Exception as e:  # noqa
        ctx.problem('harness', 'mapproxy cannot be imported: %r' % (e,))
        return []
    configs = [
        ('EPSG:25832', dict(bbox=(0.0, 5000000.0, 1200000.0, 6200000.0), origin='ll'), 'EPSG:4326', (4.0, 46.0, 14.0, 56.0)),
        ('EPSG:25832', dict(bbox=(243900.0, 4427757.0, 756099.0, 6655205.0), origin='ul',
                            res=[1000, 500, 250, 100, 50, 25, 10, 5]), 'EPSG:4326', (6.0, 41.0, 12.0, 59.0)),
        ('EPSG:3857', dict(), 'EPSG:4326', (-170.0, -80.0, 170.0, 80.0)),
        ('EPSG:4326', dict(bbox=(0.0, 40.0, 20.0, 60.0)), 'EPSG:25832', (300000.0, 5000000.0, 800000.0, 6200000.0)),
        # two grids whose SRS have no EPSG number, asked one after the other from the same request SRS (the transformer an
        # SRS object keeps per target SRS must be the one of that target): fixed rectangles, independent of the seed
        ('ESRI:54009', dict(bbox=(-18040096.0, -9020048.0, 18040096.0, 9020048.0), origin='nw'), 'EPSG:4326',
         [(5.0, 45.0, 7.0, 47.0), (-120.0, -40.0, -60.0, 10.0), (100.0, -10.0, 140.0, 30.0), (-10.0, 50.0, 30.0, 70.0),
          (20.5, -33.25, 28.75, -22.5), (-179.0, 60.0, -150.0, 72.0)]),
        ('ESRI:102014', dict(bbox=(-4000000.0, 0.0, 4000000.0, 8000000.0), origin='ll'), 'EPSG:4326',
         [(5.0, 45.0, 7.0, 47.0), (-5.0, 40.0, 10.0, 50.0), (10.0, 55.0, 30.0, 65.0), (20.0, 36.0, 28.0, 42.0),
          (0.0, 48.0, 2.0, 49.5), (-9.0, 37.0, -6.0, 42.0)]),
    ]
    out = []
    for ci, (gsrs, kw, rsrs, region) in enumerate(configs):
        g = tile_grid(gsrs, **kw)
        req = SRS(rsrs)
        gc = GridCase('f%d' % ci, g, extra_den=2 ** 40)
        gc.kind = 'real'
        gc.obs_sizes = [tuple(g.grid_sizes[l]) for l in range(len(gc.res))]
        out.append(gc)
        # reference transformation built here from the two CRS definitions (not through the transformer cache of mapproxy.srs)
        try:
            from pyproj import Transformer
            ref = Transformer.from_crs(req.proj, g.srs.proj, always_xy=True)
        except Exception as e:  # noqa
            ctx.problem('harness', 'reference transformer %s -> %s cannot be built: %r' % (rsrs, gsrs, e))
            ref = None
        if isinstance(region, list):
            sizes = [(512, 512), (1000, 800), (256, 256), (2000, 1000), (100, 100), (512, 300)]
            for k, bb in enumerate(region):
                check_foreign(R, gc, req, bb, sizes[k % len(sizes)], generate_envelope_points, ref)
            continue
        for k in range(ctx.n(10, 40)):
            rw, rh = region[2] - region[0], region[3] - region[1]
            w = rw * rng.choice([0.05, 0.2, 0.5, 0.6, 0.9])
            h = rh * rng.choice([0.05, 0.2, 0.4, 0.5])
            x0 = region[0] + rng.random() * (rw - w)
            y0 = region[1] + rng.random() * (rh - h)
            bb = [math.floor(v * 1024) / 1024.0 for v in (x0, y0, x0 + w, y0 + h)]
            size = rng.choice([(1000, 800), (256, 256), (512, 300), (2000, 1000), (100, 100)])
            if k % 2 == 0:
                bb = hunt_border(g, req, bb, size, rng)
            check_foreign(R, gc, req, tuple(bb), size, generate_envelope_points, ref)
    return out


def hunt_border(g, req, bb, size, rng):
    """move the south (or north) edge of the request so that the image of its middle lies 3 pixels beyond a tile row border
    and the images of its corners on the other side (possible when the edge's image is curved)"""
    try:
        src_bbox, level = g.get_affected_bbox_and_level(tuple(bb), size, req_srs=req)
        res = g.resolution(level)
        south = rng.random() < 0.6
        yi = 1 if south else 3
        xm = (bb[0] + bb[2]) / 2.0
        pm = req.transform_to(g.srs, (xm, bb[yi]))
        pc = req.transform_to(g.srs, (bb[0], bb[yi]))
        if abs(pm[1] - pc[1]) < 8 * res:
            return bb
        tb = g.tile_bbox(g.tile(pc[0], pc[1], level))
        if pm[1] < pc[1]:
            target = tb[1] - 3 * res      # middle below the bottom border of the corner's row
        else:
            target = tb[3] + 3 * res      # middle above the top border of the corner's row
        back = g.srs.transform_to(req, (pm[0], target))
        nb = list(bb)
        nb[yi] = back[1]
        if nb[1] < nb[3] and all(abs(v) < 1e12 for v in nb):
            return nb
    except Exception:  # noqa
        pass
    return bb


def check_foreign(R, gc, req, bb, size, generate_envelope_points, ref=None):
    ctx, g = R.ctx, gc.grid
    sx, sy = size
    rep = {'grid': dict(gparams(g), srs=g.srs.srs_code), 'query': {'fn': 'affected_foreign', 'bbox': list(bb), 'size': [sx, sy],
                                                                  'req_srs': req.srs_code}}
    ctx.case(('foreign', gc.name, bb, size), True, dict(rep['query'], grid=repr(g)) if len(ctx.samples) < 6 else None)
    ctx.count('foreign_srs:%s<-%s' % (g.srs.srs_code, req.srs_code))
    st2, r2 = call(lambda: g.get_affected_bbox_and_level(bb, size, req_srs=req))
    st, r = call(lambda: (lambda t: (t[0], t[1], [tuple(c) if c is not None else None for c in t[2]]))(
        g.get_affected_tiles(bb, size, req_srs=req)))
    if st2 not in ('ok', 'notiles') or st not in ('ok', 'notiles', 'griderror'):
        ctx.fail('foreign-raises', 'request in %s raised %r / %r' % (req.srs_code, r2, r), rep)
        return
    try:
        tpts = [tuple(q) for q in req.transform_to(g.srs, generate_envelope_points(bb, 16))]
    except Exception as e:  # noqa
        ctx.problem('harness', 'outline points cannot be transformed: %r' % (e,))
        return
    if ref is not None:
        # the points SRS.transform_to hands to the grid are those of the transformation request SRS -> grid SRS
        try:
            env = generate_envelope_points(bb, 16)
            rx, ry = ref.transform([p[0] for p in env], [p[1] for p in env])
            rpts = [(float(a), float(b)) for a, b in zip(rx, ry)]
        except Exception as e:  # noqa
            ctx.problem('harness', 'reference transformation failed: %r' % (e,))
            return
        same = lambda a, b: (a == b) or (math.isfinite(a) and math.isfinite(b) and abs(a - b) <= 1e-9 * max(1.0, abs(a), abs(b))) \
            or (not math.isfinite(a) and not math.isfinite(b))
        for q, rq, p in zip(tpts, rpts, env):
            if not (same(q[0], rq[0]) and same(q[1], rq[1])):
                ctx.fail('foreign-transform', 'SRS(%s).transform_to(SRS(%s)) maps the outline point %r of the request to %r; the '
                         'transformation between the two CRS maps it to %r' % (req.srs_code, g.srs.srs_code, tuple(p), q, rq),
                         dict(rep, point=list(p), transformed=list(q), reference=list(rq)))
                break
        tpts = rpts
    if not all(math.isfinite(v) for q in tpts for v in q):
        return
    ex = (min(frac(q[0]) for q in tpts), min(frac(q[1]) for q in tpts), max(frac(q[0]) for q in tpts), max(frac(q[1]) for q in tpts))
    if st2 == 'ok':
        src, level = r2
        rep['result'] = {'src_bbox': list(src), 'level': level}
        # oracle: the source rectangle contains the image of every outline point
        for q in tpts:
            if not (src[0] <= q[0] <= src[2] and src[1] <= q[1] <= src[3]):
                ctx.fail('foreign-src-bbox', 'source rectangle %r does not contain the transformed outline point %r' % (tuple(src), q),
                         dict(rep, point=list(q)))
                break
        if st == 'ok':
            reported = set(t for t in r[2] if t is not None)
            nx, ny = gc.grid_size(level)
            mx, my = Fraction(1, 10 * gc.tw), Fraction(1, 10 * gc.th)
            for q in tpts:
                fx, fy = gc.tile_pos(q[0], q[1], level)
                tx, ty = math.floor(fx), math.floor(fy)
                if not (0 <= tx < nx and 0 <= ty < ny):
                    continue
                dx, dy = fx - tx, fy - ty
                if min(dx, 1 - dx) <= mx + ftol(fx) or min(dy, 1 - dy) <= my + ftol(fy):
                    continue          # within 1/10 pixel of the tile border: the tile may merely be touched
                if (tx, ty, level) not in reported:
                    ctx.fail('foreign-cover', 'outline point %r of the request lies %.1f px inside tile %r which is not reported' % (
                        q, float(min(dx, 1 - dx, dy, 1 - dy) * min(gc.tw, gc.th)), (tx, ty, level)),
                        dict(rep, point=list(q), tiles=sorted(reported)[:40]))
                    break
    # correspondence with the model on the transformed points
    if not all(gc.can_scale(v) for q in tpts for v in q):
        R.skipped += 1
        return
    fq = min((ex[2] - ex[0]) / sx, (ex[3] - ex[1]) / sy)
    q_float = min(abs(float(ex[0]) - float(ex[2])) / sx, abs(float(ex[1]) - float(ex[3])) / sy)
    if fq <= 0:
        return
    mul = lambda x, y: x * y
    if (level_signature(gc.res, frac(q_float), gc.sf, gc.shr, mul) != level_signature(gc.res, fq, gc.sf, gc.shr, mul)
            or closest_ambiguous(gc, q_float)):
        R.skipped += 1
        return
    if st2 == 'ok':
        if not all(gc.can_scale(v) for v in r2[0]):
            return
        obs = '(Some (%s, %s))' % (gc.zbbox(r2[0]), zlit(r2[1]))
    else:
        obs = 'None'
    R.add('foreign', '(%s, %s, %d, %d, %s)' % (gc.name, llit(tpts, lambda q: '(%s, %s)' % (zlit(gc.z(q[0])), zlit(gc.z(q[1])))),
                                          sx, sy, obs),
          {'grid': repr(g), 'req_srs': req.srs_code, 'bbox': bb, 'size': size, 'result': r2 if st2 == 'ok' else st2})


def threshold_cases(R):
    """closest_level with threshold_res: exact-stream grids (resolutions multiples of 10, thresholds multiples of 1/8)
    with thresholds between levels, on levels, above the first and below the last level; requested resolutions on and next
    to thresholds and levels.  Oracle (single threshold between two levels): the level switches exactly at the threshold."""
    from mapproxy.grid import TileGrid
    from mapproxy.srs import SRS
    ctx, rng = R.ctx, R.ctx.rng
    out = []
    for i in range(ctx.n(16, 80)):
        res = sorted({10 * rng.randrange(1, 300) for _ in range(rng.randrange(2, 8))}, reverse=True)
        if len(res) < 2:
            continue
        res = [float(r) for r in res]
        nthr = rng.choice([1, 1, 1, 1, 2, 3, 4])
        thr = set()
        for _ in range(nthr):
            k = rng.randrange(1, len(res))
            lo, hi = res[k], res[k - 1]
            thr.add(rng.choice([lo, lo + 0.125, (lo + hi) / 2.0, hi - 0.125, math.floor((lo + (hi - lo) * rng.random()) * 8) / 8.0,
                                res[0] + 5.0, res[0] * 3, res[-1] / 2.0, hi]))
        thr = sorted(thr)
        sf = rng.choice([1.0, 1.125, 1.25, 1.5, 2.0, 1.15])
        g = TileGrid(SRS(3857), bbox=(0.0, 0.0, res[0] * 256 * 2, res[0] * 256), tile_size=(256, 256), res=res,
                     threshold_res=list(thr), stretch_factor=sf)
        gc = GridCase('t%d' % i, g, extra_den=8)
        gc.kind = 'exact'
        gc.obs_sizes = [tuple(g.grid_sizes[l]) for l in range(len(res))]
        out.append(gc)
        ths = list(g.threshold_res or [])
        ctx.count('threshold_grid:%d_thresholds' % len(ths))
        must = []
        for v in ths:
            must += [v, v + 0.125, v - 0.125]
        cand = []
        for v in ths + res:
            cand += [math.nextafter(v, math.inf), math.nextafter(v, 0.0), v / sf, v * 1.1, v * 0.9]
        for v in res:
            cand += [v, v + 0.125, v - 0.125]
        cand += [res[0] * 4, res[-1] / 3.0]
        rng.shuffle(cand)
        for q in must + cand[:ctx.n(10, 24)]:
            if q <= 0:
                continue
            st, lv = call(g.closest_level, q)
            fq = frac(q)
            rep = {'grid': dict(gparams(g), threshold_res=ths), 'query': {'fn': 'closest', 'res': q}, 'result': lv}
            ctx.case(('closest_thr', gc.name, q), True)
            if st != 'ok':
                ctx.fail('closest-raises', 'closest_level raised %r' % (lv,), rep)
                continue
            # oracle: one threshold t with r_(k-1) > t >= r_k and a request r_k <= res < r_(k-1): level k-1 iff res > t
            # (the same for several thresholds when each lies in a gap of its own: closest_level_thr_one_per_gap)
            gaps = [[k for k in range(1, len(res)) if gc.res[k - 1] > frac(t) >= gc.res[k]] for t in ths]
            if ths and all(len(ks) == 1 for ks in gaps) and len({ks[0] for ks in gaps}) == len(ths):
                for t, ks in zip(ths, gaps):
                    if gc.res[ks[0]] <= fq < gc.res[ks[0] - 1]:
                        want = ks[0] - 1 if fq > frac(t) else ks[0]
                        if lv != want:
                            ctx.fail('closest_level-threshold', 'closest_level(%r) = %r with threshold %r, the switch rule says %r' % (
                                q, lv, t, want), dict(rep, expected=want))
            if closest_ambiguous(gc, q):
                R.skipped += 1
                continue
            # oracle: thresholds that are all finer than every level, or all on / above every level, are inert
            # (closest_level_thr_below_all_levels, closest_level_thr_above_all_levels): the level is the one of the statement
            if ths and (all(frac(t) < gc.res[-1] for t in ths) or all(frac(t) >= gc.res[0] for t in ths)):
                ctx.count('threshold_inert_queries')
                want = closest_spec(gc, fq)
                if lv != want:
                    ctx.fail('closest_level-threshold-inert', 'closest_level(%r) = %r with thresholds %r that lie outside of all '
                             'levels, the specification says %r' % (q, lv, ths, want), dict(rep, expected=want))
            sq = fq * gc.S
            R.add('closest_thr', '(%s, %s, %s, %s, %s)' % (gc.name, llit([gc.z(t) for t in ths]), zlit(sq.numerator),
                                                       zlit(sq.denominator), zlit(lv)),
                  {'grid': repr(g), 'resolutions': res, 'threshold_res': ths, 'stretch': sf, 'res': q, 'level': lv})
    return out


def gen_list_cases(R):
    ctx, rng = R.ctx, R.ctx.rng
    try:
        from mapproxy.grid import _create_tile_list
    except Exception as e:  # noqa
        ctx.problem('harness', '_create_tile_list cannot be imported: %r' % (e,))
        return
    for _ in range(ctx.n(60, 400)):
        nx, ny = rng.choice([(1, 1), (2, 3), (5, 4), (rng.randrange(1, 9), rng.randrange(1, 9))])
        if rng.random() < 0.7:
            a = rng.randrange(-2, nx + 1)
            b = rng.randrange(-2, ny + 1)
            xs = list(range(a, a + rng.randrange(0, 5)))
            ys = list(range(b, b + rng.randrange(0, 5)))
            if rng.random() < 0.5:
                ys.reverse()
        else:
            xs = [rng.randrange(-3, nx + 3) for _ in range(rng.randrange(0, 5))]
            ys = [rng.randrange(-3, ny + 3) for _ in range(rng.randrange(0, 5))]
        lv = rng.randrange(0, 20)
        st, out = call(lambda: [tuple(t) if t is not None else None for t in _create_tile_list(xs, ys, lv, (nx, ny))])
        ctx.case(('create_tile_list', tuple(xs), tuple(ys), lv, nx, ny), True)
        if st != 'ok':
            ctx.fail('create_tile_list-raises', '_create_tile_list raised %r' % (out,), {'xs': xs, 'ys': ys, 'level': lv, 'grid_size': [nx, ny]})
            continue
        R.add('gen_list', '(%s, %s, %d, (%d, %d), %s)' % (llit(xs), llit(ys), lv, nx, ny, llit(out, lambda c: olit(c, coord_lit))),
              {'xs': xs, 'ys': ys, 'level': lv, 'grid_size': (nx, ny), 'result': out})
        want = [((x, y, lv) if (0 <= x < nx and 0 <= y < ny) else None) for y in ys for x in xs]
        if out != want:
            ctx.fail('create_tile_list', '_create_tile_list is not the row-major list with None outside the grid',
                     {'xs': xs, 'ys': ys, 'level': lv, 'grid_size': [nx, ny], 'result': out})


def closest_spec(gc, fq, sf=None):
    """The level choice of the property statement: the level closest above the requested resolution within the
    stretch factor, otherwise the coarsest finer level, the finest level if none is fine enough."""
    res = gc.res
    sf = gc.sf if sf is None else sf
    within = [i for i, r in enumerate(res) if fq <= r <= fq * sf]
    if within:
        return within[-1]
    finer = [i for i, r in enumerate(res) if r < fq]
    if finer:
        return finer[0]
    return len(res) - 1


def affected_oracle(ctx, gc, bb, l, abbox, gx, gy, tiles, exact, rep):
    """C03: the set of tiles reported for a rectangle covers every part of it inside the grid, is listed row by
    row from the top, contains no tile that merely touches the rectangle."""
    r = gc.res[l]
    delta = r / 10
    if len(tiles) != gx * gy:
        ctx.fail('affected-count', 'tile list has %d entries for a %dx%d block' % (len(tiles), gx, gy), rep)
        return
    # reconstruct the block from the exact geometry
    fx0, fy0 = gc.tile_pos(frac(bb[0]) + delta, frac(bb[1]) + delta, l)
    fx1, fy1 = gc.tile_pos(frac(bb[2]) - delta, frac(bb[3]) - delta, l)
    # rows from the top: ll grids descending from the row of the upper edge, ul grids ascending
    cols, rows, expected = block_for(gc, l, math.floor(fx0), math.floor(fy0), math.floor(fx1), math.floor(fy1))
    if tiles != expected or (gx, gy) != (len(cols), len(rows)):
        ctx.fail('affected-tiles', 'tiles for rectangle differ from the exact cover (row-major from the top, valid tiles only)',
                 dict(rep, expected=expected[:40]))
        return
    # no tile merely touches: each listed column/row overlaps the rectangle by at least (about) res/10
    # (a rectangle thinner than 2/10 px cannot be overlapped by 1/10 px from both sides: there the single listed
    # column/row contains the rectangle's centre line instead)
    for x in (cols[0], cols[-1]):
        tr = gc.tile_rect(x, rows[0], l)
        ov = min(tr[2], frac(bb[2])) - max(tr[0], frac(bb[0]))
        if frac(bb[2]) - frac(bb[0]) >= 2 * delta and ov < delta * Fraction(999, 1000):
            ctx.fail('affected-touch', 'column %d only touches the rectangle (overlap %s px)' % (x, float(ov / r)), rep)
    for y in (rows[0], rows[-1]):
        tr = gc.tile_rect(cols[0], y, l)
        ov = min(tr[3], frac(bb[3])) - max(tr[1], frac(bb[1]))
        if frac(bb[3]) - frac(bb[1]) >= 2 * delta and ov < delta * Fraction(999, 1000):
            ctx.fail('affected-touch', 'row %d only touches the rectangle (overlap %s px)' % (y, float(ov / r)), rep)
    # cover: the block's rectangle contains the query rectangle shrunk by res/10
    x0 = gc.tile_rect(cols[0], rows[0], l)[0]
    x1 = gc.tile_rect(cols[-1], rows[0], l)[2]
    ytop = gc.tile_rect(cols[0], rows[0], l)[3]
    ybot = gc.tile_rect(cols[0], rows[-1], l)[1]
    if not (x0 <= frac(bb[0]) + delta and x1 >= frac(bb[2]) - delta and ybot <= frac(bb[1]) + delta and ytop >= frac(bb[3]) - delta):
        ctx.fail('affected-cover', 'listed tiles do not cover the rectangle (minus 1/10 px)', rep)
    tol = 0 if exact else Fraction(1, 10 ** 9) * (max(abs(v) for v in (x0, x1, ytop, ybot)) + r * gc.tw)
    if any(abs(frac(a) - b) > tol for a, b in zip(abbox, (x0, ybot, x1, ytop))):
        ctx.fail('affected-bbox', 'reported bbox %r is not the rectangle of the listed tiles' % (abbox,), rep)
