"""C19  Compact bundles stay structurally valid, and defragmentation loses nothing.

Model: coq/theories/Bundle.v (byte-level model of mapproxy/cache/compact.py v1 + v2 and of
mapproxy/script/defrag.py), lemmas: Bundle_proofs.v, theorems: coq/props/P_C19.v.

Tie: correspondence.  A case is a history of store_tiles / remove_tile calls on a real CompactCacheV1 or
CompactCacheV2 (1-3 bundles, several levels, batches with duplicates, empty tiles, boundary slots), followed by the
real mapproxy.script.defrag.defrag_compact_cache with random thresholds.  Before and after the defragmentation
the bundle files are read *as bytes* by an independent reader (struct only, nothing of mapproxy) and the
following is handed to Coq, which evaluates the model on the same history (vm_compute) and compares: file
lengths, the complete headers, the raw index entries of the probe slots (all touched slots + boundary slots + random
untouched ones), every byte behind the fixed part of the file (= the exact record layout), what load_tile returns
for the probes, what Bundle.size() returns, and the skip/defragment decision of every bundle.  The rest of the
real index (untouched entries, v1 zero area, v1 index header/footer) is compared with its initial value in Python.

Large bundles: a second family of histories lets a real bundle `grow` past 2^32, 2^33 and up to just below the 2^40
limit of the formats (a sparse hole made with os.truncate plus the header file-size field, standing in for a long
overwrite history; nothing writes gigabytes) and continues with stores, overwrites, removes, loads and the real
defrag on both sides of the hole; these are compared with the model on lengths, headers, raw index entries and
load results of the probe slots and size() (no whole-file reads; the independent reader uses pread).
The index-entry arithmetic of the model (v2 decode/encode, v1 entry byte counts) is not hand-written: it is
generated from the Python source (translator/specs/compact_fmt.py -> gen/Gen_compact_fmt.v) and Bundle_proofs.v
proves what it has to be, so an edited shift or mask breaks a proof.

Write errors and concurrency (oracle only, no model comparison): (1) the last store of a history and the
defragmentation are repeated from the same state with an injected ENOSPC at EVERY raw write(2) below Python's
buffer layer (once / disk full from then on / appended bytes cut short; in-place index and header writes are never
torn - assumption A1); afterwards every index entry must be valid, every address must return its previous tile or a
complete tile of the failed batch, the cache must keep working, a failed defragmentation must change no address and
grow no file, and neither may the next undisturbed one.  (2) Two threads with their own cache objects, gated at
ensure_directory / the index update: two writers creating one v2 bundle (two schedules), and for v1 a reader that
creates the data file while a writer stores (after remove_tile created the index only).  The model side of (1) for v2
is a theorem: v2_failed_store_leaves_valid_bundle (every prefix of the store's writes), with the opposite order refuted.

Configuration of every real defragmentation: the cache directory behaves like a mount point (a rename between a path
inside it and a path outside raises EXDEV, $TMPDIR is outside); every second history runs in a cache whose path
contains '.bundle' and '.bundlx'.
Further fixed scenarios (oracle only): the bundle lock changing hands between three writers (A unlocks, B was
waiting, C arrives: the two stores must be serialised whatever FileLock.unlock does first); a tile of 2^24 + 5 bytes
(v2 must refuse it or store it completely, v1 stores it); a reader meeting the writer of a brand-new v1 bundle;
EACCES on the k-th open-for-reading during a defragmentation; a defragmentation interrupted right before a swap (filled temp
bundle left behind), followed by a run whose first bundle is skipped by the thresholds.

Oracle (independent of the model, on the real bytes after EVERY operation): every index entry is empty or points
at a complete record inside the file whose recorded size matches; live records are pairwise disjoint and lie
behind the fixed part; header file-size field = file length; header max-record-size >= every live record; the
cache API returns exactly the bytes last stored (nothing for removed / never stored / empty tiles).  Around
defragmentation: every address (all ever touched + probes) returns the same bytes as before, no file grew, the
size estimate of size() equals fixed part + live records, and a bundle is rewritten exactly when the thresholds
say so; the new files satisfy the invariant again.
"""
import errno
import glob
import io
import json
import os
import shutil
import struct
import threading
from fractions import Fraction

from common import VERIF, blit, llit, olit, zlit

ID = 'C19'
TECHNIQUE = ('Coq proof (structural invariant preserved by every operation => every history; defragmentation as a '
             'refinement of the lookup function) + correspondence check of the executable byte-level model against the '
             'real CompactCacheV1/V2 files and the real defrag_compact_cache')
LEVEL_TEXT = ('Theorems over a byte-level Gallina model of BundleV1/BundleIndexV1/BundleDataV1/BundleV2, the bundle '
              'selection of CompactCacheBase and defrag_compact_cache: the invariant holds after every history of '
              'store_tiles/remove_tile (any length, any batches, any data, any tile coordinates) within a bundle and for '
              'every bundle of a cache (v*_cache_inv_reachable), for both formats; defragmentation of a bundle and of a whole '
              'cache with an arbitrary skip decision per bundle returns the same bytes for every address '
              '(v*_cache_defrag_changes_no_tile), produces files that satisfy the invariant and are not larger; size() is '
              'exactly fixed part + live records.  The model is tied to the code by comparing real files byte for byte with the model evaluated '
              'in Coq on the same histories.')
LEVEL_NOTE = ('Trusted: Coq kernel, hand-written model Bundle.v, this harness and its independent reader.  Guards in the '
              'theorems (= what the formats can represent): tile size < 2^24 (v2) / < 2^32 (v1), data file < 2^40 bytes; '
              'beyond them an offset no longer fits its 40 bits (v2 adds it into the size bits, v1 truncates it) - no theorem or refutation witness is given for that range.  Not modelled: partial '
              'effects of a store that raises beyond the states of v*_failed_store_leaves_valid_bundle, FileLock (C07), write_atomic / crash states (C06), permissions, dry_run, '
              'the float rounding of the threshold test (theorems hold for ANY skip decision; the correspondence uses '
              'thresholds away from rounding boundaries), stale tmp_defrag files of an interrupted earlier defrag run, '
              'bundle files whose names the glob R????C????.bundle does not match (column/row >= 65536 are never '
              'defragmented).  v1 header field 4 ("number of tiles * 4") counts stores into empty slots and is never '
              'decremented by remove_tile: modelled faithfully, no claim is made about it.')
DESIGN_REF = 'DESIGN.md section 5, C19'
RULE = ('case = (format, history of cache-level store/remove operations with tile bytes, thresholds); non-trivial = at '
        'least one overwrite or remove of a live tile and at least two live tiles at the end; distinct by full tuple')
TRUSTED = ['model Bundle.v hand-written from mapproxy/cache/compact.py and mapproxy/script/defrag.py; tie = byte-level '
           'differential run of the real caches and the real defrag against the model',
           'translator: Gen_compact.v (slot arithmetic, bundle key) and Gen_compact_fmt.v (v2 index-entry decode/encode, v1 '
           'entry byte counts) generated from compact.py; the sparse-hole construction of large bundles in the harness']
ASSUMPTIONS = ['a write to an open file lands at the offset of the preceding seek (BufferedRandom flushes before seek)',
               'one writer per bundle at a time (FileLock, property C07)',
               'tile size < 2^24 (v2) / 2^32 (v1), data file < 2^40 bytes']
EXPLANATION = ('invariant proved inductively for all histories, defrag proved lookup-preserving and non-growing for all '
               'threshold decisions; real bundle files compared byte for byte with the model and checked by an '
               'independent reader after every operation')
GEN = ['Gen_compact.v', 'Gen_compact_fmt.v']

B1 = 60 + 16384 * 4
X1 = 16 + 16384 * 5 + 16
B2 = 64 + 16384 * 8
V1_IDX_HEADER = b'\x03\x00\x00\x00\x10\x00\x00\x00\x00\x40\x00\x00\x05\x00\x00\x00'
V1_IDX_FOOTER = b'\x00\x00\x00\x00\x10\x00\x00\x00\x10\x00\x00\x00\x00\x00\x00\x00'
MASK40 = (1 << 40) - 1


# ------------------------------------------------------------------------------------- independent reader

def bundle_files(cache_dir):
    """{(z, c, r): base path} for every bundle that has a data file or (v1) an index file."""
    out = {}
    for lvl in sorted(os.listdir(cache_dir)) if os.path.isdir(cache_dir) else []:
        d = os.path.join(cache_dir, lvl)
        if not (os.path.isdir(d) and lvl.startswith('L')):
            continue
        for fn in sorted(os.listdir(d)):
            if fn.endswith('.bundle') or fn.endswith('.bundlx'):
                name = fn[:-7]
                r, c = name[1:].split('C')
                out[(int(lvl[1:]), int(c, 16), int(r, 16))] = os.path.join(d, name)
    return out


def read_bytes(path):
    try:
        with open(path, 'rb') as f:
            return f.read()
    except FileNotFoundError:
        return None


class FV(object):
    """Read-only view of a (possibly huge, sparse) file: never reads more than what is asked for."""

    def __init__(self, path):
        self.path = path
        self.fd = os.open(path, os.O_RDONLY)
        self.size = os.fstat(self.fd).st_size

    def read(self, off, n):
        if n <= 0 or off < 0:
            return b''
        return os.pread(self.fd, n, off)

    def __del__(self):
        try:
            os.close(self.fd)
        except Exception:   # noqa
            pass

    def __len__(self):
        return self.size


def view(path):
    try:
        return FV(path)
    except OSError:
        return None

SMALL = 4 * 1024 * 1024      # files up to this size are compared byte for byte behind the fixed part


def parse_v2(raw):
    """-> (entries {(x, y): (offset, size)} for size != 0, raw values list, problems)"""
    bad = []
    if raw is None or len(raw) < B2:
        return {}, [], ['file shorter than header + index: %r' % (None if raw is None else len(raw))]
    vals = struct.unpack('<16384Q', raw.read(64, B2 - 64))
    live = {}
    for k, v in enumerate(vals):
        size, off = v >> 40, v & MASK40
        if size == 0:
            continue
        x, y = k % 128, k // 128
        live[(x, y)] = (off, size)
        if off - 4 < B2 or off + size > len(raw):
            bad.append('entry (%d,%d): record [%d,%d) not inside the file behind the index (len %d)' % (x, y, off - 4, off + size, len(raw)))
        elif struct.unpack('<L', raw.read(off - 4, 4))[0] != size:
            bad.append('entry (%d,%d): size in index %d, size in front of the data %d' % (
                x, y, size, struct.unpack('<L', raw.read(off - 4, 4))[0]))
    spans = sorted((o - 4, o + s, xy) for xy, (o, s) in live.items())
    for a, b in zip(spans, spans[1:]):
        if a[1] > b[0]:
            bad.append('records of %r and %r overlap' % (a[2], b[2]))
    return live, vals, bad


def inv_v2(raw):
    live, vals, bad = parse_v2(raw)
    hdr = []
    if raw is not None and len(raw) >= 64:
        h = struct.unpack('<4I3Q6I', raw.read(0, 64))
        if h[5] != len(raw):
            hdr.append('header file size %d, file length %d' % (h[5], len(raw)))
        if live and h[2] < max(s for _, s in live.values()):
            hdr.append('header max record size %d < largest live record %d' % (h[2], max(s for _, s in live.values())))
        fixed = (h[0], h[1], h[3], h[4], h[6], h[7], h[8], h[9], h[10], h[11], h[12])
        if fixed != (3, 16384, 5, 0, 40, 20 + 131072, 3, 16, 16384, 5, 131072):
            hdr.append('constant header fields changed: %r' % (fixed,))
    return live, bad, hdr


def parse_v1(idx, dat):
    bad = []
    if idx is None or len(idx) != X1:
        return {}, {}, ['index file length %r' % (None if idx is None else len(idx))]
    if dat is None or len(dat) < B1:
        return {}, {}, ['data file length %r' % (None if dat is None else len(dat))]
    if idx[:16] != V1_IDX_HEADER or idx[-16:] != V1_IDX_FOOTER:
        bad.append('index header/footer changed')
    offs, live = {}, {}
    for k in range(16384):
        off = int.from_bytes(idx[16 + 5 * k:21 + 5 * k], 'little')
        x, y = k // 128, k % 128
        offs[(x, y)] = off
        if off == 0:
            continue
        if off < 60 or off + 4 > len(dat):
            bad.append('entry (%d,%d): offset %d has no size field inside the file (len %d)' % (x, y, off, len(dat)))
            continue
        size = struct.unpack('<L', dat.read(off, 4))[0]
        if off + 4 + size > len(dat):
            bad.append('entry (%d,%d): record [%d,%d) not inside the file (len %d)' % (x, y, off, off + 4 + size, len(dat)))
            continue
        if size:
            live[(x, y)] = (off, size)
            if off < B1:
                bad.append('entry (%d,%d): live record at %d inside the fixed part' % (x, y, off))
    spans = sorted((o, o + 4 + s, xy) for xy, (o, s) in live.items())
    for a, b in zip(spans, spans[1:]):
        if a[1] > b[0]:
            bad.append('records of %r and %r overlap' % (a[2], b[2]))
    return offs, live, bad


def inv_v1(idx, dat, c, r):
    offs, live, bad = parse_v1(idx, dat)
    hdr = []
    if dat is not None and len(dat) >= 60:
        h = struct.unpack('<4I3Q5I', dat.read(0, 60))
        if h[5] != len(dat):
            hdr.append('header bundle size %d, file length %d' % (h[5], len(dat)))
        if live and h[2] < max(s for _, s in live.values()):
            hdr.append('header largest tile %d < largest live record %d' % (h[2], max(s for _, s in live.values())))
        fixed = (h[0], h[1], h[3], h[6], h[7], h[8], h[9], h[10], h[11])
        if fixed != (3, 16384, 5, 40, 16, r, r + 127, c, c + 127):
            hdr.append('constant header fields changed: %r' % (fixed,))
    return offs, live, bad, hdr


# ------------------------------------------------------------------------------------- running the real code

class Real(object):
    def __init__(self, version, cache_dir):
        from mapproxy.cache.compact import CompactCacheV1, CompactCacheV2
        self.version = version
        self.dir = cache_dir
        self.cache = (CompactCacheV1 if version == 1 else CompactCacheV2)(cache_dir)

    def store(self, tiles):
        from io import BytesIO
        from mapproxy.cache.tile import Tile
        from mapproxy.image import ImageSource
        ts = [Tile(tuple(c), ImageSource(BytesIO(bytes(d)))) for c, d in tiles]
        try:
            return ('ok', bool(self.cache.store_tiles(ts)))
        except Exception as ex:   # noqa
            return ('raised', type(ex).__name__)

    def remove(self, coord):
        from mapproxy.cache.tile import Tile
        try:
            return ('ok', bool(self.cache.remove_tile(Tile(tuple(coord)))))
        except Exception as ex:   # noqa
            return ('raised', type(ex).__name__)

    def load(self, coord):
        from mapproxy.cache.tile import Tile
        t = Tile(tuple(coord))
        try:
            ok = self.cache.load_tile(t)
        except Exception as ex:   # noqa
            return ('raised', type(ex).__name__)
        if t.source is None:
            return ('missing',) if not ok else ('junk', 'load_tile returned True without data')
        data = t.source.as_buffer().read()
        if not ok:
            return ('junk', 'load_tile returned False with data')
        return ('data', bytes(data))

    def size(self, key):
        z, c, r = key
        base = os.path.join(self.dir, 'L%02d' % z, 'R%04xC%04x' % (r, c))
        try:
            est, actual = self.cache.bundle_class(base, (c, r)).size()
            return (int(est), int(actual))
        except Exception as ex:   # noqa
            return ('raised', type(ex).__name__)

    def defrag(self, min_percent, min_bytes, interrupt_at_swap=None):
        from mapproxy.script.defrag import defrag_compact_cache
        decisions = {}

        class Log(object):
            def log(self, fname, fragmentation, fragmentation_bytes, num, total, defrag):
                lvl = os.path.basename(os.path.dirname(fname))
                name = os.path.basename(fname)[:-7]
                r, c = name[1:].split('C')
                decisions[(int(lvl[1:]), int(c, 16), int(r, 16))] = bool(defrag)
        # configuration: the cache directory is a file system of its own (a mount point), as tile caches usually
        # are: a rename between a path inside it and a path outside fails with EXDEV, exactly as rename(2) does;
        # the temp directory of the process ($TMPDIR) is outside the cache (a scratch directory next to it)
        import tempfile
        import mapproxy.script.defrag as dm
        root = os.path.realpath(self.dir)

        def inside(path):
            q = os.path.realpath(os.path.dirname(os.path.abspath(path)))
            return q == root or q.startswith(root + os.sep)

        class MountOs(object):
            def __getattr__(self, name):
                return getattr(os, name)

            def remove(self, path, *a, **kw):
                # interrupt_at_swap=n: the run is interrupted (an I/O error stands in for a kill) when it is about to
                # remove the n-th bundle it has copied, i.e. after the temp bundle was filled and before the swap
                if interrupt_at_swap is not None and path.endswith('.bundle') and inside(path) \
                        and not os.path.basename(path).startswith('tmp_defrag'):
                    swaps.append(path)
                    if len(swaps) == interrupt_at_swap:
                        raise OSError(errno.EIO, 'injected: interrupted before the swap', path)
                return os.remove(path, *a, **kw)

            def rename(self, src, dst, *a, **kw):
                if inside(src) != inside(dst):
                    raise OSError(errno.EXDEV, 'Invalid cross-device link', src)
                return os.rename(src, dst, *a, **kw)
            replace = rename
        swaps = []
        saved_os, saved_tmp = dm.os, tempfile.tempdir
        scratch_tmp = os.path.join(os.path.dirname(root), 'tmpdir')
        os.makedirs(scratch_tmp, exist_ok=True)
        dm.os, tempfile.tempdir = MountOs(), scratch_tmp
        try:
            defrag_compact_cache(self.cache, min_percent=min_percent, min_bytes=min_bytes, log_progress=Log())
            return ('ok', decisions)
        except Exception as ex:   # noqa
            return ('raised', type(ex).__name__, decisions)
        finally:
            dm.os, tempfile.tempdir = saved_os, saved_tmp


def key_of(coord):
    x, y, z = coord
    return (z, x // 128 * 128, y // 128 * 128)


def rel(coord):
    return (coord[0] % 128, coord[1] % 128)


def check_files(ctx, real, replay, when, strict=True, sig_invalid=None):
    """Oracle on the real bytes of every bundle.  Returns {key: parsed}.
    strict=False (after an injected write error): only what the property states - every index entry empty or a
    complete record inside the file whose recorded size matches, live records disjoint; a store that failed after
    appending leaves the header size fields behind, which is not a structural defect of the index."""
    v = real.version
    out = {}
    for key, base in sorted(bundle_files(real.dir).items()):
        z, c, r = key
        if v == 2:
            raw = view(base + '.bundle')
            live, bad, hdr = inv_v2(raw)
            out[key] = {'raw': raw, 'live': live}
        else:
            idx, dat = read_bytes(base + '.bundlx'), view(base + '.bundle')
            if dat is None or (idx is None and not strict):
                # remove_tile on a bundle that was never written creates the index only; the data file
                # appears with the first read.  Nothing to check yet.
                out[key] = {'idx': idx, 'dat': None, 'live': {}, 'offs': {}}
                continue
            offs, live, bad, hdr = inv_v1(idx, dat, c, r)
            out[key] = {'idx': idx, 'dat': dat, 'live': live, 'offs': offs}
        if bad:
            ctx.fail(sig_invalid or 'v%d,invalid-bundle' % v, '%s: bundle %r: %s' % (when, key, '; '.join(bad[:3])),
                     dict(replay, when=when, bundle=list(key), problems=bad[:10]))
        if hdr and strict:
            ctx.fail('v%d,header-accounting' % v, '%s: bundle %r: %s' % (when, key, '; '.join(hdr[:3])),
                     dict(replay, when=when, bundle=list(key), problems=hdr[:10]))
    return out


def check_api(ctx, real, expect, addrs, replay, when):
    res = {}
    for a in addrs:
        got = real.load(a)
        res[a] = got
        want = expect.get(a)
        ok = (got == ('data', want)) if want else (got == ('missing',))
        if not ok:
            ctx.fail('v%d,wrong-bytes' % real.version,
                     '%s: load_tile%r returned %s, last stored %s' % (
                         when, a, short(got), 'nothing' if not want else '%d bytes' % len(want)),
                     dict(replay, when=when, address=list(a), got=short(got),
                          expected=None if not want else list(want)))
    return res


def short(got):
    if got[0] == 'data':
        return ['data', list(got[1][:64]), len(got[1])]
    return list(got)


# ------------------------------------------------------------------------------------- Gallina literals

def slot_lit(s):
    return '(%d, %d)' % s


def rres_lit(got):
    if got[0] == 'data':
        return '(RData %s)' % llit(got[1])
    if got[0] == 'missing':
        return 'RMissing'
    return 'RError'


def size_lit(sz):
    if isinstance(sz, tuple) and len(sz) == 2 and isinstance(sz[0], int):
        return '(Some (%d, %d))' % sz
    return 'None'


def observe(real, probes, thresholds_skip, sparse=False):
    """[(key, obs literal, skip)] of the bundles on disk; None if something is unreadable.
    sparse=True: the form that never reads the area behind the fixed part as a whole (v2_sobs / v1_sobs)."""
    out = []
    for key, base in sorted(bundle_files(real.dir).items()):
        z, c, r = key
        loads = [real.load((c + x, r + y, z)) for x, y in probes]      # also creates a missing v1 data file
        sz = real.size(key)
        if real.version == 2:
            raw = view(base + '.bundle')
            if raw is None or len(raw) < B2:
                return None
            ents = [struct.unpack('<Q', raw.read(64 + 8 * (x + 128 * y), 8))[0] for x, y in probes]
            if sparse:
                obs = '(%d, %s, %s, %s, %s)' % (len(raw), llit(raw.read(0, 64)), llit(ents),
                                                llit(loads, rres_lit), size_lit(sz))
            else:
                if len(raw) > SMALL:
                    return None
                obs = '(%d, %s, %s, %s, %s, %s)' % (len(raw), llit(raw.read(0, 64)), llit(ents),
                                                     llit(raw.read(B2, len(raw) - B2)), llit(loads, rres_lit), size_lit(sz))
        else:
            idx, dat = read_bytes(base + '.bundlx'), view(base + '.bundle')
            if idx is None or dat is None or len(idx) < X1 or len(dat) < B1:
                return None
            ents = [int.from_bytes(idx[16 + 5 * (x * 128 + y):21 + 5 * (x * 128 + y)], 'little') for x, y in probes]
            zeros = [struct.unpack('<L', dat.read(60 + 4 * (x * 128 + y), 4))[0] for x, y in probes]
            if sparse:
                obs = '(%d, %s, %s, %d, %s, %s, %s, %s)' % (
                    len(idx), llit(idx[:16] + idx[16 + 81920:16 + 81920 + 16]), llit(ents), len(dat),
                    llit(dat.read(0, 60)), llit(zeros), llit(loads, rres_lit), size_lit(sz))
            else:
                if len(dat) > SMALL:
                    return None
                obs = '(%d, %s, %s, %d, %s, %s, %s, %s, %s)' % (
                    len(idx), llit(idx[:16] + idx[16 + 81920:16 + 81920 + 16]), llit(ents), len(dat),
                    llit(dat.read(0, 60)), llit(dat.read(B1, len(dat) - B1)), llit(zeros), llit(loads, rres_lit),
                    size_lit(sz))
        out.append((key, obs, thresholds_skip.get(key, True)))
    return out


def seen_lit(seen):
    if seen is None:
        return 'None'
    return '(Some %s)' % llit(seen, lambda e: '((%d, %d, %d), %s, %s)' % (e[0] + (e[1], blit(e[2]))))


def ops_lit(ops, sparse=False):
    def one(op):
        if op[0] == 'S':
            t = '(CStore %s)' % llit(op[1], lambda t: '((%d, %d, %d), %s)' % (tuple(t[0]) + (llit(t[1]),)))
        elif op[0] == 'R':
            t = '(CRemove (%d, %d, %d))' % tuple(op[1])
        else:
            return '(XSparse (%d, %d, %d) %d)' % (tuple(op[1]) + (op[2],))
        return '(XOp %s)' % t if sparse else t
    return llit(ops, one)


def make_sparse(cache_dir, key, n):
    """Extend the data file of a bundle to n bytes with a hole (no blocks are written) and put n into the
    header's file-size field (8 bytes at offset 24 in both formats), as a long store/overwrite history would have."""
    z, c, r = key
    path = os.path.join(cache_dir, 'L%02d' % z, 'R%04xC%04x.bundle' % (r, c))
    if os.path.getsize(path) > n:
        raise ValueError('sparse size below the current size')
    os.truncate(path, n)
    with open(path, 'r+b') as f:
        f.seek(24)
        f.write(struct.pack('<Q', n))


# ------------------------------------------------------------------------------------- write errors

class Injector(object):
    """Makes the k-th raw write(2) of the code under test fail.  Raw = below Python's buffer layer, counted over
    every file the compact cache code opens for writing (bundle, index, the temp file of write_atomic).
      once: the k-th raw write raises ENOSPC, nothing of it is written; later writes succeed (also the retry that
            BufferedRandom.close() makes);
      full: the disk is full from the k-th raw write on: every write that would extend a file raises ENOSPC
            (nothing written), writes inside existing files succeed;
      torn: as full, but the first failing write, if it is a pure append, leaves a prefix of its bytes behind.
    In-place index/header writes are never torn (assumption A1 of DESIGN.md section 4; what tearing them does is
    property C06)."""

    def __init__(self):
        self.count = 0
        self.k = None
        self.mode = None
        self.cut = 0
        self.tripped = False
        self.rcount = 0
        self.rk = None
        self.rmarks = []

    def arm(self, k, mode, cut=0):
        self.count, self.k, self.mode, self.cut, self.tripped = 0, k, mode, cut, False
        self.rcount, self.rk, self.rmarks = 0, None, []

    def arm_read(self, k):
        """the k-th open(..., 'rb') of the compact cache code fails once with EACCES (a transient permission
        problem: a backup tool, a chmod in progress, an NFS hiccup); writes are not disturbed"""
        self.arm(None, None)
        self.rk = k

    def disarm(self):
        self.k = None
        self.rk = None

    def read_open(self, name):
        i = self.rcount
        self.rcount += 1
        self.rmarks.append(self.count)
        if self.rk is not None and i == self.rk:
            self.tripped = True
            raise PermissionError(errno.EACCES, 'injected: permission denied', name)

    def write(self, raw, b):
        b = bytes(b)
        i = self.count
        self.count += 1
        if self.k is not None and i >= self.k:
            pos = raw.tell()
            size = os.fstat(raw.fileno()).st_size
            if self.mode == 'once':
                if i == self.k:
                    self.tripped = True
                    raise OSError(errno.ENOSPC, 'injected write error')
            elif pos + len(b) > size:
                if not self.tripped and self.mode == 'torn' and pos >= size and len(b) > 1:
                    io.FileIO.write(raw, b[:max(1, min(self.cut, len(b) - 1))])
                self.tripped = True
                raise OSError(errno.ENOSPC, 'injected: no space left on device')
        return io.FileIO.write(raw, b)


class _FRaw(io.FileIO):
    def __init__(self, inj, name, mode, **kw):
        io.FileIO.__init__(self, name, mode, **kw)
        self._inj = inj

    def write(self, b):
        return self._inj.write(self, b)


class _FsOs(object):
    """`os` of mapproxy.util.fs with fdopen returning a buffered file over an injecting raw file."""

    def __init__(self, inj):
        object.__setattr__(self, '_inj', inj)

    def __getattr__(self, name):
        return getattr(os, name)

    def fdopen(self, fd, mode='r', *a, **kw):
        if 'b' in mode and ('w' in mode or 'a' in mode or '+' in mode):
            raw = _FRaw(self._inj, fd, mode.replace('b', ''), closefd=True)
            return io.BufferedRandom(raw) if '+' in mode else io.BufferedWriter(raw)
        return os.fdopen(fd, mode, *a, **kw)


class Patched(object):
    """Context: the compact cache code writes through the injector."""

    def __init__(self, inj):
        self.inj = inj

    def __enter__(self):
        import mapproxy.cache.compact as cc
        import mapproxy.util.fs as fs
        inj = self.inj

        def traced_open(name, mode='r', *a, **kw):
            if 'b' in mode and any(c in mode for c in 'wa+x'):
                raw = _FRaw(inj, name, mode.replace('b', ''))
                return io.BufferedRandom(raw) if '+' in mode else io.BufferedWriter(raw)
            if 'b' in mode:
                inj.read_open(name)
            return io.open(name, mode, *a, **kw)
        self.saved = ('open' in cc.__dict__, cc.__dict__.get('open'), fs.os)
        cc.open = traced_open
        fs.os = _FsOs(inj)
        return inj

    def __exit__(self, *a):
        import mapproxy.cache.compact as cc
        import mapproxy.util.fs as fs
        had, val, fos = self.saved
        if had:
            cc.open = val
        else:
            del cc.open
        fs.os = fos


def restore(snap, cache_dir):
    shutil.rmtree(cache_dir, ignore_errors=True)
    shutil.copytree(snap, cache_dir)


def loads_of(real, addrs):
    return {a: real.load(a) for a in addrs}


def run_fault_case(ctx, version, ops, label):
    """History without faults, then (1) the last store of the history is repeated from the same state with a write
    error at every raw write and in every mode, (2) the defragmentation (thresholds zero: every bundle is rewritten)
    likewise.  Oracle: after a failed store the bundles are structurally valid and every address returns its
    previous bytes or - for the tiles of the failed batch - the complete new ones; the cache keeps working; a failed
    defragmentation changes no address and grows no file; neither does the next, undisturbed one."""
    rng = ctx.rng
    d = ctx.tmpdir('c19f')
    cache_dir, snap = os.path.join(d, 'cache'), os.path.join(d, 'snap')
    real = Real(version, cache_dir)
    replay = {'format': 'v%d' % version, 'label': label,
              'ops': [[o[0], [[list(a), list(b)] for a, b in o[1]]] if o[0] == 'S' else [o[0], list(o[1])] for o in ops]}
    expect, touched = {}, []
    *prefix, last = ops
    for op in prefix:
        if op[0] == 'S':
            res = real.store(op[1])
            for a, data in op[1]:
                touched.append(tuple(a))
                if len(data):
                    expect[tuple(a)] = bytes(data)
                else:
                    expect.pop(tuple(a), None)
        else:
            res = real.remove(op[1])
            touched.append(tuple(op[1]))
            expect.pop(tuple(op[1]), None)
        if res != ('ok', True):
            ctx.problem('harness', 'fault case %s: prefix operation failed: %r' % (label, res), None)
            return
    os.makedirs(cache_dir, exist_ok=True)
    shutil.copytree(cache_dir, snap)
    batch = last[1]
    addrs = sorted(set(touched) | set(tuple(a) for a, _ in batch))
    new = {}
    for a, data in batch:
        new[tuple(a)] = bytes(data) if len(data) else None
    inj = Injector()
    nfaults = 0

    def after_failed_store(when, rep):
        got = loads_of(real, addrs)
        for a in addrs:
            old = ('data', expect[a]) if a in expect else ('missing',)
            allowed = [old]
            if a in new:
                allowed.append(('data', new[a]) if new[a] else ('missing',))
                allowed += [('data', bytes(dd)) if len(dd) else ('missing',) for aa, dd in batch if tuple(aa) == a]
            if got[a] not in allowed:
                ctx.fail('v%d,fault-wrong-bytes' % version,
                         '%s: load_tile%r returned %s: neither the previous tile nor a complete tile of the failed batch' % (
                             when, a, short(got[a])),
                         dict(rep, when=when, address=list(a), got=short(got[a])))
        check_files(ctx, real, rep, when, strict=False)
        return got

    # ---- (1) the store with a write error
    with Patched(inj):
        inj.arm(None, None)
        real.store(batch)
        n_store = inj.count
    for mode in ('once', 'full', 'torn'):
        for k in range(n_store):
            restore(snap, cache_dir)
            cut = rng.randrange(1, 9)
            rep = dict(replay, fault={'operation': 'last store', 'raw_write': k, 'mode': mode, 'cut': cut})
            with Patched(inj):
                inj.arm(k, mode, cut)
                res = real.store(batch)
                inj.disarm()
            nfaults += 1
            ctx.count('store-fault=%s,%s' % (mode, 'raised' if res[0] == 'raised' else 'completed'))
            got = after_failed_store('after the store that hit a write error', rep)
            # the cache keeps working: a further store and a remove, without faults
            a2 = rng.choice(addrs)
            d2 = bytes([rng.randrange(256) for _ in range(rng.choice([1, 5, 40]))])
            # first a tile that was never stored, in the bundle the failed store went to: it is appended behind whatever
            # the failed store left there
            kz, kc, kr = key_of(tuple(batch[0][0]))
            a4 = (kc + 111, kr + 113, kz)
            d4 = bytes([rng.randrange(256) for _ in range(300)])
            r4 = real.store([(a4, list(d4))])
            mid = loads_of(real, addrs + [a4])
            wmid = dict(got)
            wmid[a4] = ('data', d4)
            for a in addrs + [a4]:
                if mid[a] != wmid[a]:
                    ctx.fail('v%d,fault-wrong-bytes' % version,
                             'after a failed store and a further store of a new tile: load_tile%r returned %s' % (a, short(mid[a])),
                             dict(rep, address=list(a), got=short(mid[a]), then=[list(a4), 'store 300 bytes']))
            r2 = real.store([(a2, list(d2))])
            a3 = rng.choice(addrs)
            r3 = real.remove(a3)
            if r2 != ('ok', True) or r3 != ('ok', True) or r4 != ('ok', True):
                ctx.fail('v%d,fault-cache-unusable' % version,
                         'after a failed store: store -> %r, store -> %r, remove -> %r' % (r2, r4, r3),
                         dict(rep, then=[list(a2), list(a4), list(a3)]))
            want = dict(got)
            want[a2] = ('data', d2)
            want[a4] = ('data', d4)
            want[a3] = ('missing',)
            got2 = loads_of(real, addrs + [a4])
            for a in addrs + [a4]:
                if got2[a] != want[a]:
                    ctx.fail('v%d,fault-wrong-bytes' % version,
                             'after a failed store and a further store/remove: load_tile%r returned %s' % (a, short(got2[a])),
                             dict(rep, address=list(a), got=short(got2[a]), then=[list(a2), list(d2), list(a3)]))
            check_files(ctx, real, rep, 'after a failed store and a further store/remove', strict=False)

    # ---- (2) defragmentation with a write error
    restore(snap, cache_dir)
    real.store(batch)
    for a in new:
        if new[a]:
            expect[a] = new[a]
        else:
            expect.pop(a, None)
    shutil.rmtree(snap)
    shutil.copytree(cache_dir, snap)
    probes = sorted(set(rel(a) for a in addrs))
    daddrs = sorted(set(addrs) | set((c + x, r + y, z) for (z, c, r) in bundle_files(cache_dir) for x, y in probes))
    before = loads_of(real, daddrs)
    with Patched(inj):
        inj.arm(None, None)
        real.defrag(0.0, 0)
        n_defrag, n_ropen = inj.count, inj.rcount
        marks = list(inj.rmarks) + [inj.count]
    ks = list(range(n_defrag))
    nk = ctx.n(5, 14)
    if len(ks) > nk:
        ks = sorted(rng.sample(ks, nk))
    # opens for reading that were followed by writes (a row with live tiles was copied) first, then random ones
    hot = [i for i in range(n_ropen) if marks[i + 1] > marks[i]]
    rks = list(range(n_ropen))
    if len(rks) > nk:
        if len(hot) > nk - 2:
            hot = rng.sample(hot, nk - 2)
        rks = sorted(set(hot + rng.sample(rks, 2)))
    for mode in ('once', 'full', 'eacces'):
        for k in (rks if mode == 'eacces' else ks):
            restore(snap, cache_dir)
            sizes0 = {(key, ext): os.path.getsize(base + ext) for key, base in bundle_files(cache_dir).items()
                      for ext in ('.bundle', '.bundlx') if os.path.exists(base + ext)}
            rep = dict(replay, fault={'operation': 'defrag_compact_cache(min_percent=0, min_bytes=0)', 'raw_write': k, 'mode': mode})
            if mode == 'eacces':
                rep['fault'] = {'operation': 'defrag_compact_cache(min_percent=0, min_bytes=0)', 'open_for_reading': k,
                                'mode': 'EACCES once'}
            with Patched(inj):
                if mode == 'eacces':
                    inj.arm_read(k)
                else:
                    inj.arm(k, mode)
                res = real.defrag(0.0, 0)
                inj.disarm()
            nfaults += 1
            ctx.count('defrag-fault=%s,%s' % (mode, 'raised' if res[0] == 'raised' else 'completed'))
            got = loads_of(real, daddrs)
            for a in daddrs:
                if got[a] != before[a]:
                    ctx.fail('v%d,fault-defrag-changed-tile' % version,
                             'defragmentation hit an injected error (outcome: %s): address %r: %s before, %s after' % (
                                 res[0], a, short(before[a]), short(got[a])),
                             dict(rep, address=list(a), before=short(before[a]), after=short(got[a])))
            check_files(ctx, real, rep, 'after a defragmentation that hit a write error', strict=False)
            for (key, ext), n0 in sizes0.items():
                base = bundle_files(cache_dir).get(key)
                if base and os.path.exists(base + ext) and os.path.getsize(base + ext) > n0:
                    ctx.fail('v%d,fault-defrag-grew' % version, 'bundle %r%s grew from %d to %d bytes' % (
                        key, ext, n0, os.path.getsize(base + ext)), dict(rep, bundle=list(key)))
            # the next, undisturbed defragmentation
            res2 = real.defrag(0.0, 0)
            got2 = loads_of(real, daddrs)
            badd = [a for a in daddrs if got2[a] != before[a]]
            if res2[0] != 'ok' or badd:
                a = badd[0] if badd else None
                ctx.fail('v%d,defrag-after-failed-defrag' % version,
                         'a defragmentation after one that hit a write error: %s' % (
                             'raised %s' % res2[1] if res2[0] != 'ok' else
                             'address %r: %s before, %s after' % (a, short(before[a]), short(got2[a]))),
                         dict(rep, then='defrag_compact_cache(min_percent=0, min_bytes=0) without faults',
                              address=None if a is None else list(a)))
            check_files(ctx, real, rep, 'after a defragmentation following a failed one', strict=False,
                        sig_invalid='v%d,defrag-after-failed-defrag' % version)
    ctx.case(('fault', 'v%d' % version, repr(ops)), nontrivial=True,
             sample={'format': 'v%d' % version, 'kind': 'write errors', 'raw_writes_of_store': n_store,
                     'raw_writes_of_defrag': n_defrag, 'faults_injected': nfaults})
    ctx.count('fault-cases')


def gen_fault_history(ctx):
    rng = ctx.rng
    origins = [(rng.choice([0, 2]), 0, 0), (rng.choice([0, 2]), 128, 0)]
    pool = [(0, 0), (127, 127), (5, 7), (6, 7), (12, 99)]

    def coord(o=None):
        z, c, r = o or rng.choice(origins)
        x, y = rng.choice(pool)
        return (c + x, r + y, z)
    ops, live = [], []
    for _ in range(rng.randrange(3, 7)):
        if live and rng.random() < 0.2:
            ops.append(('R', rng.choice(live)))
        else:
            b = [(coord(), gen_data(rng, False)) for _ in range(rng.choice([1, 1, 2]))]
            ops.append(('S', b))
            live.extend(a for a, _ in b)
    # the store that will be hit: an overwrite of a live tile and a tile that was never stored, in one bundle
    o = rng.choice(origins)
    b = []
    if live and rng.random() < 0.8:
        a = rng.choice(live)
        o = key_of(a)
        b.append((a, gen_data(rng, False)))
    b.append(((o[1] + rng.randrange(20, 100), o[2] + rng.randrange(20, 100), o[0]), gen_data(rng, False)))
    if rng.random() < 0.4:
        b.append(((o[1] + 3, o[2] + 3, o[0]), [rng.randrange(256) for _ in range(rng.choice([9000, 20000]))]))
    ops.append(('S', b))
    return ops


# ------------------------------------------------------------------------------------- two writers, new bundle

def run_race_case(ctx, version, variant, label):
    """Two writers (threads, each with its own cache object, real code) store into a bundle that does not exist
    yet.  W2 is stopped inside the creation of the bundle files right after it saw that they do not exist
    (ensure_directory is the first call after the os.path.exists test); W1 creates the bundle, takes the lock and
    appends its record; variant 'mid': W1 is stopped before it writes the index entry, W2 finishes the creation
    and queues for the lock, W1 finishes, W2 stores; variant 'late': W1 finishes its store completely before W2
    goes on.  Whatever becomes of W1's tile (the lost update of a re-created bundle exists in the unchanged code):
    the bundle must be structurally valid and no address may return bytes that were not stored for it."""
    import mapproxy.cache.compact as cc
    d = ctx.tmpdir('c19r')
    cache_dir = os.path.join(d, 'cache')
    real = Real(version, cache_dir)
    A, B = (5, 7, 3), (6, 7, 3)
    da, db = bytes([65]) * 30000, bytes([66]) * 20000     # larger than the 8 KiB buffer: the append reaches the file at once
    WAIT = 10
    ev = {n: threading.Event() for n in ('w2_checked', 'w1_appended', 'w2_init_done')}
    who = {}
    once = set()
    timeouts, errors = [], []
    orig_ensure = cc.ensure_directory
    upd_cls, upd_name = (cc.BundleV2, '_update_tile_offset') if version == 2 else (cc.BundleIndexV1, 'update_tile_offset')
    orig_upd = getattr(upd_cls, upd_name)
    init_cls = cc.BundleV2 if version == 2 else cc.BundleDataV1
    init_name = '_init_index' if version == 2 else '_init_bundle'
    orig_init = getattr(init_cls, init_name)

    def ensure_directory(filename, *a, **kw):
        if threading.current_thread() is who.get('W2') and 'ensure' not in once and filename.endswith('.bundle'):
            once.add('ensure')
            ev['w2_checked'].set()
            if not ev['w1_appended'].wait(WAIT):
                timeouts.append('W2 waiting for W1')
        return orig_ensure(filename, *a, **kw)

    def upd(self, *a, **kw):
        if variant == 'mid' and threading.current_thread() is who.get('W1') and 'upd' not in once:
            once.add('upd')
            ev['w1_appended'].set()
            if not ev['w2_init_done'].wait(WAIT):
                timeouts.append('W1 waiting for W2')
        return orig_upd(self, *a, **kw)

    def init(self, *a, **kw):
        first = threading.current_thread() is who.get('W2') and 'init' not in once
        if first:
            once.add('init')
        try:
            return orig_init(self, *a, **kw)
        finally:
            if first:
                ev['w2_init_done'].set()

    def reader(coord, data):
        try:
            Real(version, cache_dir).load(coord)
        except Exception as ex:   # noqa
            errors.append('%s: %r' % (threading.current_thread().name, ex))

    def writer(coord, data):
        try:
            r = Real(version, cache_dir).store([(coord, list(data))])
            if r != ('ok', True):
                errors.append('%s: %r' % (threading.current_thread().name, r))
        except Exception as ex:   # noqa
            errors.append('%s: %r' % (threading.current_thread().name, ex))
    cc.ensure_directory = ensure_directory
    setattr(upd_cls, upd_name, upd)
    setattr(init_cls, init_name, init)
    try:
        if variant == 'reader':
            # v1: remove_tile on a new bundle creates the index only; the data file is created by whoever
            # constructs BundleDataV1 next - a reader does that outside the bundle lock
            real.remove(A)
        w2 = threading.Thread(target=reader if variant == 'reader' else writer, args=(B, db), name='W2', daemon=True)
        w1 = threading.Thread(target=writer, args=(A, da), name='W1', daemon=True)
        who['W1'], who['W2'] = w1, w2
        w2.start()
        t_end = WAIT * 10
        while t_end > 0 and not ev['w2_checked'].wait(0.1) and w2.is_alive():
            t_end -= 1
        if not ev['w2_checked'].is_set():
            if variant == 'reader' and not w2.is_alive():
                # the reader did not have to create anything: the window does not exist (repaired code)
                ctx.count('race=reader,window-closed')
            else:
                timeouts.append('main waiting for W2')
        closed = False
        if variant in ('mid', 'late') and os.path.exists(os.path.join(cache_dir, 'L03', 'R0000C0000.lck')):
            # W2 creates the bundle file while it HOLDS the bundle lock (repaired code): the second writer cannot get
            # in between, the window of this schedule does not exist; let both run, they are serialised by the lock
            closed = True
            ctx.count('race=%s,window-closed' % variant)
            ev['w1_appended'].set()
            ev['w2_init_done'].set()
        w1.start()
        if variant in ('late', 'reader'):
            w1.join(3 * WAIT)
            ev['w1_appended'].set()
        w1.join(3 * WAIT)
        w2.join(3 * WAIT)
    finally:
        for e in ev.values():
            e.set()
        cc.ensure_directory = orig_ensure
        setattr(upd_cls, upd_name, orig_upd)
        setattr(init_cls, init_name, orig_init)
    replay = {'format': 'v%d' % version, 'label': label, 'schedule': variant, 'writers': {'W1': list(A), 'W2': list(B)}}
    if timeouts or w1.is_alive() or w2.is_alive():
        ctx.problem('harness', 'two-writer schedule %s (v%d) did not run as planned: %r' % (variant, version, timeouts), None)
        return
    ctx.count('race=%s,v%d' % (variant, version))
    sig = 'v%d,race-%s' % (version, 'reader-creates-data-file' if variant == 'reader' else 'wrong-bytes')
    check_files(ctx, real, replay, 'after two writers created a bundle (%s)' % variant, strict=False,
                sig_invalid=sig if variant == 'reader' else None)      # its own class: see known_findings.d/C19.json
    for a, own in ((A, da), (B, db)):
        got = real.load(a)
        if got not in (('missing',), ('data', own)):
            ctx.fail(sig,
                     'two writers on a new bundle (%s): load_tile%r returned %s, which was never stored for it' % (
                         variant, a, short(got)), dict(replay, address=list(a), got=short(got)))
    got = real.load((7, 7, 3))
    if got != ('missing',):
        ctx.fail(sig, 'two writers on a new bundle (%s): never stored address returns %s' % (
            variant, short(got)), dict(replay, address=[7, 7, 3], got=short(got)))
    # defragmentation afterwards must not change what the addresses return
    before = loads_of(real, [A, B, (7, 7, 3)])
    res = real.defrag(0.0, 0)
    after = loads_of(real, [A, B, (7, 7, 3)])
    if res[0] != 'ok' or before != after:
        ctx.fail(sig if variant == 'reader' else 'v%d,race-defrag-changed-tile' % version,
                 'defragmentation after two writers created a bundle (%s): %r -> %r (%s)' % (
                     variant, {k: short(v) for k, v in before.items()}, {k: short(v) for k, v in after.items()}, res[0]),
                 dict(replay))
    check_files(ctx, real, replay, 'after two writers and a defragmentation (%s)' % variant, strict=False,
                sig_invalid=sig if variant == 'reader' else None)
    ctx.case(('race', version, variant), nontrivial=True, sample={'format': 'v%d' % version, 'kind': 'two writers', 'schedule': variant,
                                                                 'errors': errors})


def run_reader_new_bundle(ctx, label):
    """v1: a writer stores the first tile of a new bundle; as soon as it is about to create the data file
    (ensure_directory for *.bundle) a reader asks for a neighbour tile.  If the reader finds an index it goes on to
    BundleDataV1() and - should the data file not exist - creates one too: it is held right before the creation until
    the writer has finished, then renames its fresh file into place.  In the code as it is the writer creates the
    data file BEFORE the index, the reader sees no index and returns at once (window closed)."""
    import mapproxy.cache.compact as cc
    d = ctx.tmpdir('c19n')
    cache_dir = os.path.join(d, 'cache')
    real = Real(1, cache_dir)
    A, B = (5, 7, 3), (6, 7, 3)
    da = bytes([65]) * 30000
    WAIT = 10
    w_at_gate, w_go, r_at_gate, r_go = (threading.Event() for _ in range(4))
    who, once, errors = {}, set(), []
    orig_ensure = cc.ensure_directory

    def ensure_directory(filename, *a, **kw):
        t = threading.current_thread()
        if filename.endswith('.bundle'):
            if t is who.get('W') and 'w' not in once:
                once.add('w')
                w_at_gate.set()
                w_go.wait(WAIT)
            elif t is who.get('R') and 'r' not in once:
                once.add('r')
                r_at_gate.set()
                r_go.wait(WAIT)
        return orig_ensure(filename, *a, **kw)

    def writer():
        r = Real(1, cache_dir).store([(A, list(da))])
        if r != ('ok', True):
            errors.append('writer: %r' % (r,))

    def reader():
        Real(1, cache_dir).load(B)
    cc.ensure_directory = ensure_directory
    try:
        w = threading.Thread(target=writer, name='W', daemon=True)
        r = threading.Thread(target=reader, name='R', daemon=True)
        who['W'], who['R'] = w, r
        w.start()
        if not w_at_gate.wait(WAIT):
            ctx.problem('harness', 'reader/new-bundle schedule: the writer never created a data file', None)
            return
        r.start()
        n = WAIT * 10
        while n > 0 and not r_at_gate.wait(0.1) and r.is_alive():
            n -= 1
        held = r_at_gate.is_set()
        w_go.set()
        w.join(3 * WAIT)
        r_go.set()
        r.join(3 * WAIT)
    finally:
        for e in (w_go, r_go):
            e.set()
        cc.ensure_directory = orig_ensure
    if w.is_alive() or r.is_alive():
        ctx.problem('harness', 'reader/new-bundle schedule did not terminate', None)
        return
    ctx.count('race=reader-new-bundle,%s' % ('reader-created-a-data-file' if held else 'window-closed'))
    replay = {'format': 'v1', 'label': label,
              'schedule': ['writer store_tile%r: stopped before it creates the data file' % (A,),
                           'reader load_tile%r: %s' % (B, 'stopped before it creates a data file' if held else 'returns'),
                           'writer finishes', 'reader finishes']}
    check_files(ctx, real, replay, 'after a reader met the writer of a new v1 bundle', strict=False)
    got = real.load(A)
    if got != ('data', da) or errors:
        ctx.fail('v1,race-new-bundle-wrong-bytes',
                 'a reader met the writer of a new bundle: load_tile%r returns %s after the store returned %r' % (
                     A, short(got), errors or 'True'), dict(replay, address=list(A), got=short(got)))
    if real.load(B) != ('missing',):
        ctx.fail('v1,race-new-bundle-wrong-bytes', 'never stored address %r returns %s' % (B, short(real.load(B))),
                 dict(replay, address=list(B)))
    ctx.case(('race', 1, 'reader-new-bundle'), nontrivial=True,
             sample={'format': 'v1', 'kind': 'reader meets writer of a new bundle', 'reader_held': held})


def run_three_writers(ctx, version, label):
    """The bundle lock (FileLock with remove_on_unlock, as the compact caches use it) while it changes hands:
    A holds the lock of an existing bundle, B waits for it (it wants to store a tile), A unlocks and is held right
    before it unlinks the lock file (for at most PAUSE seconds; a correct lock is still held there and the wait
    simply runs out), then C stores another tile, while B is held between appending its record and writing its
    index entry until C is done (or PAUSE ran out).  However the lock is implemented: the two stores must be
    serialised - the bundle valid, all three tiles readable with their own bytes."""
    import mapproxy.cache.compact as cc
    import mapproxy.util.lock as lock_mod
    d = ctx.tmpdir('c19l')
    cache_dir = os.path.join(d, 'cache')
    real = Real(version, cache_dir)
    PAUSE = 0.7
    data = {(0, 0, 0): bytes([48]) * 500, (1, 0, 0): bytes([66]) * 1000, (2, 0, 0): bytes([67]) * 3000}
    real.store([((0, 0, 0), list(data[(0, 0, 0)]))])
    lock_path = os.path.join(cache_dir, 'L00', 'R0000C0000.lck')
    a_unlocking, b_inside, c_done, a_has, a_release = (threading.Event() for _ in range(5))
    th, errors = {}, []

    class OsShim(object):
        def __getattr__(self, name):
            return getattr(os, name)

        def remove(self, path):
            if threading.current_thread() is th.get('A') and path == lock_path:
                a_unlocking.set()
                b_inside.wait(PAUSE)
            return os.remove(path)
    upd_cls, upd_name = (cc.BundleV2, '_update_tile_offset') if version == 2 else (cc.BundleIndexV1, 'update_tile_offset')
    orig_upd = getattr(upd_cls, upd_name)

    def paused(self, *a, **kw):
        if threading.current_thread() is th.get('B'):
            b_inside.set()
            c_done.wait(PAUSE)
        return orig_upd(self, *a, **kw)

    def run_a():
        try:
            lck = lock_mod.FileLock(lock_path, remove_on_unlock=True)
            lck.lock()
            a_has.set()
            a_release.wait(20)
            lck.unlock()
            del lck
        except Exception as ex:   # noqa
            errors.append('A: %r' % (ex,))

    def store(name, coord):
        r = Real(version, cache_dir).store([(coord, list(data[coord]))])
        if r != ('ok', True):
            errors.append('%s: %r' % (name, r))
    saved_os = lock_mod.os
    lock_mod.os = OsShim()
    setattr(upd_cls, upd_name, paused)
    try:
        th['A'] = threading.Thread(target=run_a, daemon=True)
        th['B'] = threading.Thread(target=store, args=('B', (1, 0, 0)), daemon=True)
        th['C'] = threading.Thread(target=store, args=('C', (2, 0, 0)), daemon=True)
        th['A'].start()
        a_has.wait(10)
        th['B'].start()
        import time
        time.sleep(0.15)            # B is polling the lock held by A
        a_release.set()
        a_unlocking.wait(10)
        th['A'].join(20)
        th['C'].start()
        th['C'].join(30)
        c_done.set()
        th['B'].join(30)
    finally:
        for e in (a_release, b_inside, c_done):
            e.set()
        lock_mod.os = saved_os
        setattr(upd_cls, upd_name, orig_upd)
    if any(t.is_alive() for t in th.values()):
        ctx.problem('harness', 'three-writer lock schedule (v%d) did not terminate' % version, None)
        return
    replay = {'format': 'v%d' % version, 'label': label,
              'schedule': ['A holds the bundle lock', 'B store_tile(1,0,0) waits for the lock',
                           'A unlocks (held before the unlink of the lock file)', 'C store_tile(2,0,0)',
                           'B held between record append and index write until C is done'], 'errors': errors}
    ctx.count('race=lock-handover,v%d' % version)
    check_files(ctx, real, replay, 'after the bundle lock changed hands between three writers', strict=False)
    for coord, want in sorted(data.items()):
        got = real.load(coord)
        if got != ('data', want):
            ctx.fail('v%d,lock-handover-wrong-bytes' % version,
                     'three writers, lock handed over: load_tile%r returns %s, stored were %d bytes' % (
                         coord, short(got), len(want)), dict(replay, address=list(coord), got=short(got)))
    if errors:
        ctx.fail('v%d,lock-handover-wrong-bytes' % version, 'three writers, lock handed over: %r' % (errors,), replay)
    ctx.case(('race', version, 'lock-handover'), nontrivial=True,
             sample={'format': 'v%d' % version, 'kind': 'three writers, lock handed over'})


def run_defrag_during_store(ctx, version, label):
    """A defragmentation run while a store is in progress (schedule, deterministic).  Writer A stores a small tile
    into an existing bundle and is held inside the bundle's critical section - lock taken, record appended (v2: still
    in the buffer of the file object), index entry not yet written.  The main thread runs defrag_compact_cache with
    its DEFAULT thresholds: the bundle has no garbage, every bundle is skipped, nothing is rewritten.  Then writer B
    stores another tile of the same bundle; it gets PAUSE seconds (a correct lock makes it wait for A), then A is
    released.  Oracle: the statement - bundle valid (with header accounting: there was no fault), every address
    returns the bytes stored; the defragmentation changed no tile."""
    import mapproxy.cache.compact as cc
    d = ctx.tmpdir('c19d')
    cache_dir = os.path.join(d, 'cache')
    real = Real(version, cache_dir)
    PAUSE = 0.7
    data = {(0, 0, 3): bytes([48]) * 500, (1, 0, 3): bytes([65]) * 1200, (2, 0, 3): bytes([66]) * 900}
    real.store([((0, 0, 3), list(data[(0, 0, 3)]))])
    a_inside, a_release = threading.Event(), threading.Event()
    th, errors = {}, []
    upd_cls, upd_name = (cc.BundleV2, '_update_tile_offset') if version == 2 else (cc.BundleIndexV1, 'update_tile_offset')
    orig_upd = getattr(upd_cls, upd_name)

    def paused(self, *a, **kw):
        if threading.current_thread() is th.get('A'):
            a_inside.set()
            a_release.wait(20)
        return orig_upd(self, *a, **kw)

    def store(name, coord):
        r = Real(version, cache_dir).store([(coord, list(data[coord]))])
        if r != ('ok', True):
            errors.append('%s: %r' % (name, r))
    setattr(upd_cls, upd_name, paused)
    try:
        th['A'] = threading.Thread(target=store, args=('A', (1, 0, 3)), daemon=True)
        th['B'] = threading.Thread(target=store, args=('B', (2, 0, 3)), daemon=True)
        th['A'].start()
        if not a_inside.wait(20):
            ctx.problem('harness', 'defrag-during-store (v%d): writer A did not reach its index update' % version, None)
            return
        before = real.load((0, 0, 3))
        res = real.defrag(0.1, 1024 * 1024)
        th['B'].start()
        th['B'].join(PAUSE)
        b_overtook = not th['B'].is_alive()
        a_release.set()
        th['A'].join(30)
        th['B'].join(30)
    finally:
        a_release.set()
        setattr(upd_cls, upd_name, orig_upd)
    if any(t.is_alive() for t in th.values()):
        ctx.problem('harness', 'defrag-during-store schedule (v%d) did not terminate' % version, None)
        return
    replay = {'format': 'v%d' % version, 'label': label,
              'schedule': ['store_tile(0,0,3) 500 bytes (bundle exists)',
                           'A store_tile(1,0,3) 1200 bytes: held between record append and index write (lock held)',
                           'defrag_compact_cache(cache) with default thresholds -> %s, decisions %r' % (
                               res[0], sorted(res[-1].items())),
                           'B store_tile(2,0,3) 900 bytes: %s' % (
                               'finished while A was still inside the bundle' if b_overtook else 'waited for A'),
                           'A released'], 'errors': errors}
    ctx.count('race=defrag-during-store,v%d=%s' % (version, 'B-overtook' if b_overtook else 'B-waited'))
    if res[0] != 'ok' or any(res[1].values()):
        ctx.fail('v%d,defrag-during-store' % version,
                 'defragmentation with default thresholds of a bundle without garbage: %r' % (res,), replay)
    if before != ('data', data[(0, 0, 3)]):
        ctx.fail('v%d,defrag-during-store' % version,
                 'load_tile(0,0,3) while A is inside the bundle returns %s' % (short(before),), replay)
    when = 'after a store, a defragmentation (everything skipped) during it, and a second store'
    check_files(ctx, real, replay, when, strict=True, sig_invalid='v%d,defrag-during-store' % version)
    for coord, want in sorted(data.items()):
        got = real.load(coord)
        if got != ('data', want):
            ctx.fail('v%d,defrag-during-store' % version,
                     '%s: load_tile%r returns %s, stored were %d bytes' % (when, coord, short(got), len(want)),
                     dict(replay, address=list(coord), got=short(got)))
    if errors:
        ctx.fail('v%d,defrag-during-store' % version, '%s: %r' % (when, errors), replay)
    # and the full rewrite afterwards changes nothing
    res2 = real.defrag(0.0, 0)
    for coord, want in sorted(data.items()):
        got = real.load(coord)
        if res2[0] != 'ok' or got != ('data', want):
            ctx.fail('v%d,defrag-during-store' % version,
                     'then defrag_compact_cache(0, 0) -> %s: load_tile%r returns %s, stored were %d bytes' % (
                         res2[0], coord, short(got), len(want)), dict(replay, address=list(coord), got=short(got)))
    ctx.case(('race', version, 'defrag-during-store'), nontrivial=True,
             sample={'format': 'v%d' % version, 'kind': 'defragmentation (all skipped) while a store holds the bundle lock'})


def run_stale_temp_bundle(ctx, version, label):
    """Three bundles with garbage.  A first defragmentation (thresholds 0/0) is interrupted when it is about to swap
    the third bundle: the filled temp bundle stays behind.  The second bundle gets garbage again.  The next run uses
    min_bytes=1: the bundle that comes first is clean and is SKIPPED, the second is rewritten, the third too.
    No address may change - in particular the second bundle must not inherit the tiles of the stale temp bundle."""
    d = ctx.tmpdir('c19s')
    cache_dir = os.path.join(d, 'cache')
    real = Real(version, cache_dir)
    keys = [(0, 0, 0), (1, 0, 0), (2, 128, 0)]
    slots = {keys[0]: (1, 1), keys[1]: (2, 2), keys[2]: (3, 3)}
    expect = {}
    for k in keys:
        z, c, r = k
        a = (c + slots[k][0], r + slots[k][1], z)
        real.store([(a, [9] * 50)])
        data = bytes([10 + z]) * (20 + z)
        real.store([(a, list(data))])
        expect[a] = data
    order = [key for key in (tuple([int(os.path.basename(os.path.dirname(f))[1:]),
                                    int(os.path.basename(f)[:-7][1:].split('C')[1], 16),
                                    int(os.path.basename(f)[:-7][1:].split('C')[0], 16)])
                             for f in glob.glob(os.path.join(cache_dir, 'L??', 'R????C????.bundle')))]
    addrs = sorted((c + x, r + y, z) for (z, c, r) in keys for x, y in slots.values())
    replay = {'format': 'v%d' % version, 'label': label, 'bundles_in_directory_order': [list(k) for k in order]}

    def check(when):
        for a in addrs:
            got = real.load(a)
            want = expect.get(a)
            if got != (('data', want) if want else ('missing',)):
                ctx.fail('v%d,stale-temp-bundle' % version,
                         '%s: load_tile%r returns %s, expected %s' % (when, a, short(got), 'nothing' if not want else '%d bytes' % len(want)),
                         dict(replay, when=when, address=list(a), got=short(got)))
        check_files(ctx, real, replay, when, strict=False)
    res = real.defrag(0.0, 0, interrupt_at_swap=3)
    replay['first_run'] = 'defrag_compact_cache(0, 0) interrupted before the swap of the third bundle: %s' % res[0]
    check('after the interrupted defragmentation')
    z, c, r = order[1]
    a = (c + slots[order[1]][0], r + slots[order[1]][1], z)
    data = bytes([77]) * 33
    real.store([(a, list(data))])
    expect[a] = data
    replay['then'] = ['store_tile%r (33 bytes): the second bundle has garbage again' % (a,),
                      'defrag_compact_cache(min_percent=0, min_bytes=1): first bundle skipped, the others rewritten']
    res2 = real.defrag(0.0, 1)
    if res2[0] != 'ok':
        ctx.fail('v%d,stale-temp-bundle' % version, 'the second defragmentation raised %s' % res2[1], replay)
    else:
        replay['decisions'] = {repr(k): v for k, v in res2[1].items()}
    check('after the second defragmentation (first bundle skipped)')
    ctx.count('stale-temp-bundle,v%d=%s' % (version, res[0]))
    ctx.case(('stale-temp', version), nontrivial=True, sample={'format': 'v%d' % version, 'kind': 'interrupted defrag, then a run that skips the first bundle'})


def run_big_tile(ctx, version, label):
    """A tile of 2^24 + 5 bytes: more than the 24 size bits of a v2 index entry can hold (v1: 32 bits, fine).
    The store either refuses (an exception; nothing may change for any address) or stores the tile completely; then
    the cache must keep working and a defragmentation must change nothing."""
    rng = ctx.rng
    d = ctx.tmpdir('c19b')
    cache_dir = os.path.join(d, 'cache')
    real = Real(version, cache_dir)
    small = {(3, 4, 1): bytes([rng.randrange(256) for _ in range(20)]), (5, 4, 1): bytes([7]) * 9}
    for a, b in small.items():
        real.store([(a, list(b))])
    big_addr = (4, 4, 1)
    n = 2 ** 24 + 5
    big = bytes([rng.randrange(1, 256) for _ in range(64)]) * (n // 64) + bytes([1, 2, 3, 4, 5])
    assert len(big) == n
    from io import BytesIO
    from mapproxy.cache.tile import Tile
    from mapproxy.image import ImageSource
    try:
        res = ('ok', bool(real.cache.store_tile(Tile(big_addr, ImageSource(BytesIO(big))))))
    except Exception as ex:   # noqa
        res = ('raised', type(ex).__name__)
    replay = {'format': 'v%d' % version, 'label': label,
              'history': ['store (3,4,1): 20 bytes', 'store (5,4,1): 9 bytes', 'store (4,4,1): 2^24 + 5 bytes -> %r' % (res,)]}
    ctx.count('big-tile,v%d=%s' % (version, res[0]))
    expect = dict(small)
    if res == ('ok', True):
        expect[big_addr] = big
    addrs = sorted(set(small) | {big_addr, (6, 4, 1)})

    def check(when):
        for a in addrs:
            got = real.load(a)
            want = expect.get(a)
            if got != (('data', want) if want else ('missing',)):
                ctx.fail('v%d,big-tile-wrong-bytes' % version,
                         '%s: load_tile%r returns %s, expected %s' % (
                             when, a, short(got), 'nothing' if not want else '%d bytes' % len(want)),
                         dict(replay, when=when, address=list(a), got=short(got)))
        check_files(ctx, real, replay, when, strict=False)
    check('after storing a tile of 2^24 + 5 bytes (%s)' % res[0])
    extra = bytes([9, 8, 7])
    if real.store([((6, 4, 1), list(extra))]) == ('ok', True):
        expect[(6, 4, 1)] = extra
    else:
        ctx.fail('v%d,big-tile-wrong-bytes' % version, 'the cache does not accept a store after the big tile', replay)
    check('after a further store')
    r = real.defrag(0.0, 0)
    if r[0] != 'ok':
        ctx.fail('v%d,big-tile-wrong-bytes' % version, 'defragmentation after the big tile raised %s' % r[1], replay)
    check('after a defragmentation')
    ctx.case(('big-tile', version), nontrivial=True, sample={'format': 'v%d' % version, 'kind': 'tile of 2^24+5 bytes', 'store': res[0]})


# ------------------------------------------------------------------------------------- generators

BOUNDARY_SLOTS = [(0, 0), (127, 127), (0, 127), (127, 0), (1, 0), (0, 1), (12, 99), (99, 12), (64, 64)]
LENGTHS = [1, 1, 2, 3, 4, 5, 7, 8, 15, 16, 17, 31, 40, 64, 100, 255, 256, 300]


def gen_data(rng, allow_empty=True):
    if allow_empty and rng.random() < 0.06:
        return []
    n = rng.choice(LENGTHS)
    mode = rng.random()
    if mode < 0.15:
        return [0] * n
    if mode < 0.3:
        return [255] * n
    return [rng.randrange(256) for _ in range(n)]


def gen_history(ctx, version, nops):
    rng = ctx.rng
    nb = rng.choice([1, 1, 2, 3])
    origins = []
    for _ in range(nb):
        z = rng.choice([0, 1, 5, 12, 19])
        c = rng.choice([0, 0, 128, 256, 0x380 * 1, 0x1380, 65408])
        r = rng.choice([0, 0, 128, 4992 // 128 * 128, 0x0380, 65408])
        origins.append((z, c, r))
    pool = list(BOUNDARY_SLOTS)
    rng.shuffle(pool)
    pool = pool[:rng.randrange(2, 6)] + [(rng.randrange(128), rng.randrange(128)) for _ in range(rng.randrange(1, 5))]

    def coord():
        z, c, r = rng.choice(origins)
        x, y = rng.choice(pool) if rng.random() < 0.85 else (rng.randrange(128), rng.randrange(128))
        return (c + x, r + y, z)

    ops, touched = [], []
    for _ in range(nops):
        k = rng.random()
        if k < 0.22 and touched:
            a = rng.choice(touched) if rng.random() < 0.8 else coord()
            ops.append(('R', a))
            touched.append(a)
        else:
            n = rng.choice([1, 1, 1, 2, 2, 3, 5])
            batch = []
            same_bundle = rng.random() < 0.5
            first = coord()
            for i in range(n):
                a = first if i == 0 else coord()
                if same_bundle and key_of(a) != key_of(first):
                    a = (first[0] // 128 * 128 + a[0] % 128, first[1] // 128 * 128 + a[1] % 128, first[2])
                if i and rng.random() < 0.12:
                    a = batch[-1][0]          # duplicate address inside one batch
                batch.append((a, gen_data(rng)))
                touched.append(a)
            ops.append(('S', batch))
    return ops, touched


def pick_thresholds(rng, sizes):
    """sizes: [(est, actual)].  Returns (pn, pd, min_bytes) away from float rounding boundaries."""
    if rng.random() < 0.15:
        return 0, 1, 0          # everything is rewritten, bundles without garbage included
    for _ in range(50):
        est, act = rng.choice(sizes) if sizes else (1, 1)
        frag = act - est
        kind = rng.randrange(8)
        if kind == 0:
            pn, pd = 0, 1
        elif kind == 1:
            pn, pd = rng.choice([(1, 10), (1, 100), (1, 1000), (1, 2), (1, 100000), (-1, 10)])
        elif kind == 2:
            pn, pd = max(frag, 0) * 1024 // max(act, 1), 1024          # just below the fragmentation of one bundle
        elif kind == 3:
            pn, pd = max(frag, 0) * 1024 // max(act, 1) + 1, 1024      # just above
        else:
            pn, pd = rng.randrange(0, 40), rng.choice([1000, 10000, 100000, 4096])
        mb = rng.choice([0, 0, 1, frag, frag + 1, max(frag - 1, 0), 10, 50, 1000, 1024 * 1024, -5])
        ok = True
        for est2, act2 in sizes:
            lhs, rhs = Fraction(act2 - est2, act2), Fraction(pn, pd)
            if lhs != rhs and abs(lhs - rhs) < Fraction(1, 10 ** 9):
                ok = False
            if lhs == rhs and (pd & (pd - 1)):
                ok = False
        if ok:
            return pn, pd, mb
    return 0, 1, 0


# ------------------------------------------------------------------------------------- one case

def run_case(ctx, version, ops, thresholds, label, probes_extra=()):
    """Runs the history and the defragmentation on the real code, evaluates the oracle, returns
    (gallina term, description) for the correspondence."""
    rng = ctx.rng
    d = ctx.tmpdir('c19')
    # configuration: every second history runs in a cache whose path contains the bundle file extensions
    odd_path = (len(ops) + version) % 2 == 0
    cache_dir = os.path.join(d, 'tiles.bundle.d', 'my.bundlx.cache') if odd_path else os.path.join(d, 'cache')
    ctx.count('cache-path=%s' % ('contains-.bundle' if odd_path else 'plain'))
    real = Real(version, cache_dir)
    sparse = any(o[0] == 'X' for o in ops)
    replay = {'format': 'v%d' % version, 'label': label,
              'ops': [[o[0], [[list(a), list(b)] for a, b in o[1]]] if o[0] == 'S' else
                      [o[0], list(o[1])] if o[0] == 'R' else [o[0], list(o[1]), o[2]] for o in ops]}
    expect, touched = {}, []
    aborted = False
    for i, op in enumerate(ops):
        when = 'after operation %d' % i
        if op[0] == 'S':
            res = real.store(op[1])
            for a, data in op[1]:
                touched.append(tuple(a))
                if len(data):
                    expect[tuple(a)] = bytes(data)
                else:
                    expect.pop(tuple(a), None)      # an empty tile is a missing tile in both formats
        elif op[0] == 'X':
            make_sparse(cache_dir, tuple(op[1]), op[2])
            res = ('ok', True)
        else:
            res = real.remove(op[1])
            touched.append(tuple(op[1]))
            expect.pop(tuple(op[1]), None)
        if res != ('ok', True):
            ctx.fail('v%d,operation-failed' % version, '%s: %r returned %r' % (when, op[0], res),
                     dict(replay, when=when, result=list(res)))
            aborted = True
            break
        check_api(ctx, real, expect, sorted(set(touched)), replay, when)
        check_files(ctx, real, replay, when)
    rels = sorted(set(rel(a) for a in touched))
    extra = [s for s in BOUNDARY_SLOTS[:4] + list(probes_extra) if s not in rels]
    extra += [(rng.randrange(128), rng.randrange(128)) for _ in range(3)]
    probes = rels + [s for s in dict.fromkeys(extra) if s not in rels]
    addrs = sorted(set(touched) | set((c + x, r + y, z) for (z, c, r) in bundle_files(cache_dir) for x, y in probes))

    # --- before defragmentation
    sizes = {k: real.size(k) for k in bundle_files(cache_dir)}
    for k in list(sizes):       # v1: index without data file: loads create it
        if not isinstance(sizes[k][0], int):
            real.load((k[1], k[2], k[0]))
            sizes[k] = real.size(k)
    good_sizes = [s for s in sizes.values() if isinstance(s[0], int)]
    if thresholds is None:
        thresholds = pick_thresholds(rng, good_sizes)
    pn, pd, mb = thresholds
    replay['thresholds'] = {'min_percent': '%d/%d' % (pn, pd), 'min_bytes': mb}
    before_api = check_api(ctx, real, expect, addrs, replay, 'before defragmentation')
    parsed = check_files(ctx, real, replay, 'before defragmentation')
    exp_skip = {}
    for k, s in sizes.items():
        if not isinstance(s[0], int):
            continue
        est, act = s
        livesum = sum(sz + 4 for _, sz in parsed.get(k, {}).get('live', {}).values())
        fixed = B2 if version == 2 else B1
        if est != fixed + livesum or act != len(parsed[k]['raw'] if version == 2 else parsed[k]['dat']):
            ctx.fail('v%d,size-estimate' % version,
                     'size() of bundle %r = %r, fixed part + live records = %d' % (k, s, fixed + livesum),
                     dict(replay, bundle=list(k), size=list(s), live_bytes=livesum))
        exp_skip[k] = (Fraction(act - est, act) < Fraction(pn, pd)) or (act - est < mb)
    flens = {}
    for k, base in bundle_files(cache_dir).items():
        for ext in ('.bundle', '.bundlx'):
            if os.path.exists(base + ext):
                flens[(k, ext)] = os.path.getsize(base + ext)
    seen_before = None if aborted else observe(real, probes, exp_skip, sparse)

    # --- the real defragmentation
    res = real.defrag(pn / pd, mb)
    seen_after = None
    if res[0] != 'ok':
        ctx.fail('v%d,defrag-raised' % version, 'defrag_compact_cache raised %s' % res[1], dict(replay, result=res[1]))
    else:
        for k, dec in sorted(res[1].items()):
            if k in exp_skip and dec == exp_skip[k]:
                ctx.fail('v%d,threshold-decision' % version,
                         'bundle %r: size()=%r thresholds %d/%d, %d bytes: defragmented=%r' % (k, sizes[k], pn, pd, mb, dec),
                         dict(replay, bundle=list(k), size=list(sizes[k]), defragmented=dec))
        after_api = check_api(ctx, real, expect, addrs, replay, 'after defragmentation')
        for a in addrs:
            if after_api[a] != before_api[a]:
                ctx.fail('v%d,defrag-changed-tile' % version,
                         'address %r: %s before, %s after defragmentation' % (a, short(before_api[a]), short(after_api[a])),
                         dict(replay, address=list(a), before=short(before_api[a]), after=short(after_api[a])))
        check_files(ctx, real, replay, 'after defragmentation')
        for k, base in bundle_files(cache_dir).items():
            for ext in ('.bundle', '.bundlx'):
                if os.path.exists(base + ext) and (k, ext) in flens and os.path.getsize(base + ext) > flens[(k, ext)]:
                    ctx.fail('v%d,defrag-grew' % version,
                             'bundle %r%s: %d bytes before, %d after defragmentation' % (
                                 k, ext, flens[(k, ext)], os.path.getsize(base + ext)),
                             dict(replay, bundle=list(k)))
        left = [f for f in (os.listdir(cache_dir) if os.path.isdir(cache_dir) else []) if f.startswith('tmp_defrag')]
        if left:
            ctx.fail('v%d,defrag-leftover' % version, 'defragmentation left %r behind' % (left,), dict(replay, left=left))
        seen_after = observe(real, probes, {}, sparse)
        if seen_after is not None:
            seen_after = [(k, o, True) for k, o, _ in seen_after]

    nlive = len(expect)
    churn = sum(1 for i, a in enumerate(touched) if a in touched[:i])
    ctx.case(('v%d' % version, repr(ops), thresholds), nontrivial=(nlive >= 2 and churn >= 1),
             sample={'format': 'v%d' % version, 'operations': len(ops), 'live': nlive, 'thresholds': replay['thresholds']})
    ctx.count('format=v%d' % version)
    ctx.count('bundles=%d' % len(sizes))
    ctx.count('ops=%s' % ('<=5' if len(ops) <= 5 else '<=15' if len(ops) <= 15 else '>15'))
    ctx.count('defragmented=%d' % (sum(1 for v in res[1].values() if v) if res[0] == 'ok' else -1))
    ctx.count('live=%s' % ('0' if nlive == 0 else '1-3' if nlive <= 3 else '>3'))
    if sparse:
        ctx.count('sparse=%s' % ('>=2^32' if max(o[2] for o in ops if o[0] == 'X') >= 2 ** 32 else '<2^32'))
    term = '(%s, %s, (%s, %s, %s), %s, %s)' % (ops_lit(ops, sparse), llit(probes, slot_lit), zlit(pn), zlit(pd), zlit(mb),
                                            seen_lit(seen_before), seen_lit(seen_after))
    return term, replay, sparse


def corpus_cases():
    out = []
    for fn in sorted(glob.glob(os.path.join(VERIF, 'corpus', 'C19', '*.json'))):
        try:
            d = json.load(open(fn))
            ops = []
            for o in d['ops']:
                if o[0] == 'S':
                    ops.append(('S', [(tuple(a), list(b)) for a, b in o[1]]))
                elif o[0] == 'X':
                    ops.append(('X', tuple(o[1]), int(o[2])))
                else:
                    ops.append(('R', tuple(o[1])))
            th = d.get('thresholds')
            out.append((int(d['format'][1:]), ops, tuple(th) if th else None, 'corpus:' + os.path.basename(fn)))
        except Exception as ex:   # noqa
            out.append((None, None, None, 'corpus-unreadable:%s:%r' % (fn, ex)))
    return out


def fixed_cases():
    """Small hand-made histories (both formats): boundaries the random generator reaches only by luck."""
    d = [7, 8, 9]
    big = [9] * 300
    cases = [
        ([], (0, 1, 0)),
        ([('R', (5, 5, 3))], (0, 1, 0)),                                               # remove on a cache without files
        ([('S', [((0, 0, 0), d)]), ('R', (0, 0, 0)), ('S', [((0, 0, 0), d + d)])], (0, 1, 0)),   # store, remove, store again
        ([('S', [((0, 0, 0), d)]), ('R', (0, 0, 0))], (0, 1, 0)),                      # defrag of a bundle without live tiles
        ([('S', [((12, 99, 2), d), ((12, 99, 2), d + [1]), ((127, 127, 2), [])])], (0, 1, 0)),   # duplicate in a batch, empty tile
        ([('S', [((127, 127, 1), d)]), ('S', [((128, 127, 1), d)]), ('S', [((127, 128, 1), d + d)]),
          ('S', [((127, 127, 1), [1])])], (1, 100000, 1)),                               # three bundles
        ([('S', [((1, 0, 0), d)]), ('S', [((0, 1, 0), d + d)]), ('S', [((1, 0, 0), [5])])], (1, 2, 0)),    # skipped: < 50 %
        ([('S', [((1, 0, 0), d)]), ('S', [((0, 1, 0), d + d)]), ('S', [((1, 0, 0), [5])])], (0, 1, 8)),    # skipped: 7 < 8 bytes
        ([('S', [((1, 0, 0), d)]), ('S', [((0, 1, 0), d + d)]), ('S', [((1, 0, 0), [5])])], (0, 1, 7)),    # rewritten: 7 >= 7
        # thresholds zero: bundles WITHOUT garbage are rewritten too (new file = old size), next to bundles with
        # garbage, on two levels: the shared tmp_defrag bundle must be gone / fresh for every bundle
        ([('S', [((5, 5, 1), [1])]), ('S', [((200, 5, 1), big)]), ('S', [((200, 5, 1), [2])]),
          ('S', [((6, 6, 2), [3])]), ('S', [((300, 300, 2), big)]), ('S', [((300, 300, 2), [4, 4])])], (0, 1, 0)),
        ([('S', [((5, 5, 1), d)]), ('S', [((200, 5, 1), d + d)]), ('S', [((5, 5, 2), [1])])], (0, 1, 0)),   # no garbage at all
    ]
    return cases


SPARSE_SIZES = [2 ** 32 - 7, 2 ** 32 - 300, 2 ** 32 + 4096, 2 ** 32 + 1, 2 ** 33 + 1, 2 ** 33 - 100, 2 ** 36 + 12345,
                2 ** 40 - 3000]


def gen_sparse_history(ctx, sizes=None):
    """A few tiles in the low part of one bundle, then the bundle `grows` (sparse hole, see make_sparse) to just
    below / above 2^32, 2^33 or close to the 2^40 limit of the formats, then the history goes on with new tiles,
    overwrites and removes on both sides of the hole; sometimes it grows a second time.  Everything appended after
    the last growth stays below 2900 bytes, so that the file never reaches 2^40."""
    rng = ctx.rng
    z = rng.choice([0, 3, 11])
    c, r = rng.choice([(0, 0), (128, 0), (0x380, 0x1380)])
    key = (z, c, r)
    pool = [(0, 0), (127, 127), (12, 99), (1, 0)] + [(rng.randrange(128), rng.randrange(128)) for _ in range(5)]

    def coord():
        x, y = rng.choice(pool)
        return (c + x, r + y, z)

    def small():
        return [rng.randrange(256) for _ in range(rng.choice([1, 3, 8, 16, 40, 64]))]

    ops, live = [], []
    for _ in range(rng.randrange(1, 5)):
        a = coord()
        ops.append(('S', [(a, small())]))
        live.append(a)
    sizes = list(sizes or rng.sample(SPARSE_SIZES, rng.choice([1, 1, 2])))
    sizes.sort()
    sizes = [n for i, n in enumerate(sizes) if i == 0 or n > sizes[i - 1] + 4000]   # room for what is appended
    for n in sizes:
        ops.append(('X', key, n))
        budget = 2900 // len(sizes)
        for _ in range(rng.randrange(2, 7)):
            k = rng.random()
            if k < 0.2 and live:
                ops.append(('R', rng.choice(live)))
            else:
                batch = [(rng.choice(live) if (live and rng.random() < 0.4) else coord(), small())
                         for _ in range(rng.choice([1, 1, 2, 3]))]
                cost = sum(4 + len(d) for _, d in batch)
                if cost > budget:
                    continue
                budget -= cost
                ops.append(('S', batch))
                live.extend(a for a, _ in batch)
    return ops


def run(ctx):
    terms = {1: [], 2: [], (1, 's'): [], (2, 's'): []}
    descr = {1: [], 2: [], (1, 's'): [], (2, 's'): []}

    def add(version, ops, th, label, extra=()):
        try:
            term, rep, sparse = run_case(ctx, version, ops, th, label, extra)
        except Exception as ex:   # noqa  (a harness failure must not look like success)
            ctx.problem('harness', 'case %s (v%d) could not be run: %r' % (label, version, ex), None)
            return
        k = (version, 's') if sparse else version
        terms[k].append(term)
        descr[k].append(rep)

    for version, ops, th, label in corpus_cases():
        if version is None:
            ctx.problem('harness', label, None)
            continue
        add(version, ops, th, label)
    for i, (ops, th) in enumerate(fixed_cases()):
        for version in (1, 2):
            add(version, ops, th, 'fixed-%d' % i, [(12, 99), (99, 12)])
    nrand = ctx.n(6, 150)
    for i in range(nrand):
        for version in (1, 2):
            nops = ctx.rng.choice([2, 4, 6, 10, 14, 20] if ctx.quick else [2, 4, 6, 10, 14, 20, 30, 45])
            ops, _ = gen_history(ctx, version, nops)
            add(version, ops, None, 'random-%d' % i)

    # bundles beyond 2^32 / 2^33 / close to 2^40 bytes (sparse): every size once per format, then random ones
    for i, n in enumerate([SPARSE_SIZES[k] for k in (0, 2, 4, 6, 7)] if ctx.quick else SPARSE_SIZES * 3):
        for version in (1, 2):
            add(version, gen_sparse_history(ctx, [n]), None, 'sparse-%d' % i)
    for i in range(ctx.n(1, 30)):
        for version in (1, 2):
            add(version, gen_sparse_history(ctx), None, 'sparse-random-%d' % i)

    # write errors at every raw write of a store and of a defragmentation; two writers creating one bundle
    for i in range(ctx.n(1, 12)):
        for version in (1, 2):
            try:
                run_fault_case(ctx, version, gen_fault_history(ctx), 'fault-%d' % i)
            except Exception as ex:   # noqa
                ctx.problem('harness', 'fault case %d (v%d) could not be run: %r' % (i, version, ex), None)
    # the store that is hit creates a NEW bundle: its first raw write is the creation of the bundle file(s)
    for version in (1, 2):
        try:
            run_fault_case(ctx, version, [('S', [((1, 1, 0), [5, 6, 7])]),
                                          ('S', [((3, 3, 4), [1, 2, 3, 4]), ((9, 9, 4), [8] * 40)])], 'fault-new-bundle')
        except Exception as ex:   # noqa
            ctx.problem('harness', 'fault case new-bundle (v%d) could not be run: %r' % (version, ex), None)
    for version in (2, 1):
        for fn, name in ((run_three_writers, 'lock-handover'), (run_big_tile, 'big-tile'),
                         (run_stale_temp_bundle, 'stale-temp-bundle'),
                         (run_defrag_during_store, 'defrag-during-store')):
            try:
                fn(ctx, version, name)
            except Exception as ex:   # noqa
                ctx.problem('harness', '%s case (v%d) could not be run: %r' % (name, version, ex), None)
    try:
        run_reader_new_bundle(ctx, 'race-reader-new-bundle')
    except Exception as ex:   # noqa
        ctx.problem('harness', 'race case reader-new-bundle could not be run: %r' % (ex,), None)
    for version, variant in ((2, 'mid'), (2, 'late'), (1, 'reader')):
        if True:
            try:
                run_race_case(ctx, version, variant, 'race-%s' % variant)
            except Exception as ex:   # noqa
                ctx.problem('harness', 'race case %s (v%d) could not be run: %r' % (variant, version, ex), None)

    # the four comparisons are independent: evaluate them side by side (each one runs its shards in parallel)
    from concurrent.futures import ThreadPoolExecutor
    jobs = []
    for version in (1, 2):
        jobs.append(('v%d_sparse_history_defrag' % version, 'Bytes Gen_compact Gen_compact_fmt Bundle',
                     'v%d_scase' % version, terms[(version, 's')], 'v%d_scase_ok' % version,
                     (lambda v: (lambda i: descr[(v, 's')][i]))(version)))
        jobs.append(('v%d_history_defrag' % version, 'Bytes Gen_compact Bundle', 'v%d_case' % version,
                     terms[version], 'v%d_case_ok' % version, (lambda v: (lambda i: descr[v][i]))(version)))
    jobs.sort(key=lambda j: j[0])
    for j in jobs:
        ctx.corr.setdefault(j[0], 0)          # fixed order in the evidence, whichever finishes first
    with ThreadPoolExecutor(len(jobs)) as ex:
        list(ex.map(lambda j: ctx.corr_check(*j, shard=3), jobs))
