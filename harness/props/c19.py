"""C19  Compact bundles stay structurally valid, and defragmentation loses nothing.

Model: coq/theories/Bundle.v (byte-level model of mapproxy/cache/compact.py v1 + v2 and of
mapproxy/script/defrag.py), lemmas: Bundle_proofs.v, theorems: coq/props/P_C19.v.

Tie: correspondence.  A case is a history of store_tiles / remove_tile calls on a real CompactCacheV1 or
CompactCacheV2 (1-3 bundles, several levels, batches with duplicates, empty tiles, boundary slots), followed by the
real mapproxy.script.defrag.defrag_compact_cache with random thresholds.  Before and after the defragmentation
the bundle files are read *as bytes* by an independent reader (struct only, nothing of mapproxy) and the
following is handed to Coq, which evaluates the model on the same history (vm_compute) and compares: file
lengths, the complete headers, the raw index entries of the probe slots (all touched slots + boundary slots + random
untouched ones), every byte behind the fixed part of the file (= the exact record layout), what load_tile returns
for the probes, what Bundle.size() returns, and the skip/defragment decision of every bundle.  The rest of the
real index (untouched entries, v1 zero area, v1 index header/footer) is compared with its initial value in Python.

Large bundles: a second family of histories lets a real bundle `grow` past 2^32, 2^33 and up to just below the 2^40
limit of the formats (a sparse hole made with os.truncate plus the header file-size field, standing in for a long
overwrite history; nothing writes gigabytes) and continues with stores, overwrites, removes, loads and the real
defrag on both sides of the hole; these are compared with the model on lengths, headers, raw index entries and
load results of the probe slots and size() (no whole-file reads; the independent reader uses pread).
The index-entry arithmetic of the model (v2 decode/encode, v1 entry byte counts) is not hand-written: it is
generated from the Python source (translator/specs/compact_fmt.py -> gen/Gen_compact_fmt.v) and Bundle_proofs.v
proves what it has to be, so an edited shift or mask breaks a proof.

Oracle (independent of the model, on the real bytes after EVERY operation): every index entry is empty or points
at a complete record inside the file whose recorded size matches; live records are pairwise disjoint and lie
behind the fixed part; header file-size field = file length; header max-record-size >= every live record; the
cache API returns exactly the bytes last stored (nothing for removed / never stored / empty tiles).  Around
defragmentation: every address (all ever touched + probes) returns the same bytes as before, no file grew, the
size estimate of size() equals fixed part + live records, and a bundle is rewritten exactly when the thresholds
say so; the new files satisfy the invariant again.
"""
import glob
import json
import os
import struct
from fractions import Fraction

from common import VERIF, blit, llit, olit, zlit

ID = 'C19'
TECHNIQUE = ('Coq proof (structural invariant preserved by every operation => every history; defragmentation as a '
             'refinement of the lookup function) + correspondence check of the executable byte-level model against the '
             'real CompactCacheV1/V2 files and the real defrag_compact_cache')
LEVEL_TEXT = ('Theorems over a byte-level Gallina model of BundleV1/BundleIndexV1/BundleDataV1/BundleV2, the bundle '
              'selection of CompactCacheBase and defrag_compact_cache: the invariant holds after every history of '
              'store_tiles/remove_tile (any length, any batches, any data, any tile coordinates) within a bundle and for '
              'every bundle of a cache (v*_cache_inv_reachable), for both formats; defragmentation of a bundle and of a whole '
              'cache with an arbitrary skip decision per bundle returns the same bytes for every address '
              '(v*_cache_defrag_changes_no_tile), produces files that satisfy the invariant and are not larger; size() is '
              'exactly fixed part + live records.  The model is tied to the code by comparing real files byte for byte with the model evaluated '
              'in Coq on the same histories.')
LEVEL_NOTE = ('Trusted: Coq kernel, hand-written model Bundle.v, this harness and its independent reader.  Guards in the '
              'theorems (= what the formats can represent): tile size < 2^24 (v2) / < 2^32 (v1), data file < 2^40 bytes; '
              'beyond them an offset no longer fits its 40 bits (v2 adds it into the size bits, v1 truncates it) - no theorem or refutation witness is given for that range.  Not modelled: partial '
              'effects of a store that raises, FileLock (C07), write_atomic / crash states (C06), permissions, dry_run, '
              'the float rounding of the threshold test (theorems hold for ANY skip decision; the correspondence uses '
              'thresholds away from rounding boundaries), stale tmp_defrag files of an interrupted earlier defrag run, '
              'bundle files whose names the glob R????C????.bundle does not match (column/row >= 65536 are never '
              'defragmented).  v1 header field 4 ("number of tiles * 4") counts stores into empty slots and is never '
              'decremented by remove_tile: modelled faithfully, no claim is made about it.')
DESIGN_REF = 'DESIGN.md section 5, C19'
RULE = ('case = (format, history of cache-level store/remove operations with tile bytes, thresholds); non-trivial = at '
        'least one overwrite or remove of a live tile and at least two live tiles at the end; distinct by full tuple')
TRUSTED = ['model Bundle.v hand-written from mapproxy/cache/compact.py and mapproxy/script/defrag.py; tie = byte-level '
           'differential run of the real caches and the real defrag against the model',
           'translator: Gen_compact.v (slot arithmetic, bundle key) and Gen_compact_fmt.v (v2 index-entry decode/encode, v1 '
           'entry byte counts) generated from compact.py; the sparse-hole construction of large bundles in the harness']
ASSUMPTIONS = ['a write to an open file lands at the offset of the preceding seek (BufferedRandom flushes before seek)',
               'one writer per bundle at a time (FileLock, property C07)',
               'tile size < 2^24 (v2) / 2^32 (v1), data file < 2^40 bytes']
EXPLANATION = ('invariant proved inductively for all histories, defrag proved lookup-preserving and non-growing for all '
               'threshold decisions; real bundle files compared byte for byte with the model and checked by an '
               'independent reader after every operation')
GEN = ['Gen_compact.v', 'Gen_compact_fmt.v']

B1 = 60 + 16384 * 4
X1 = 16 + 16384 * 5 + 16
B2 = 64 + 16384 * 8
V1_IDX_HEADER = b'\x03\x00\x00\x00\x10\x00\x00\x00\x00\x40\x00\x00\x05\x00\x00\x00'
V1_IDX_FOOTER = b'\x00\x00\x00\x00\x10\x00\x00\x00\x10\x00\x00\x00\x00\x00\x00\x00'
MASK40 = (1 << 40) - 1


# ------------------------------------------------------------------------------------- independent reader

def bundle_files(cache_dir):
    """{(z, c, r): base path} for every bundle that has a data file or (v1) an index file."""
    out = {}
    for lvl in sorted(os.listdir(cache_dir)) if os.path.isdir(cache_dir) else []:
        d = os.path.join(cache_dir, lvl)
        if not (os.path.isdir(d) and lvl.startswith('L')):
            continue
        for fn in sorted(os.listdir(d)):
            if fn.endswith('.bundle') or fn.endswith('.bundlx'):
                name = fn[:-7]
                r, c = name[1:].split('C')
                out[(int(lvl[1:]), int(c, 16), int(r, 16))] = os.path.join(d, name)
    return out


def read_bytes(path):
    try:
        with open(path, 'rb') as f:
            return f.read()
    except FileNotFoundError:
        return None


class FV(object):
    """Read-only view of a (possibly huge, sparse) file: never reads more than what is asked for."""

    def __init__(self, path):
        self.path = path
        self.fd = os.open(path, os.O_RDONLY)
        self.size = os.fstat(self.fd).st_size

    def read(self, off, n):
        if n <= 0 or off < 0:
            return b''
        return os.pread(self.fd, n, off)

    def __del__(self):
        try:
            os.close(self.fd)
        except Exception:   # noqa
            pass

    def __len__(self):
        return self.size


def view(path):
    try:
        return FV(path)
    except OSError:
        return None

SMALL = 4 * 1024 * 1024      # files up to this size are compared byte for byte behind the fixed part


def parse_v2(raw):
    """-> (entries {(x, y): (offset, size)} for size != 0, raw values list, problems)"""
    bad = []
    if raw is None or len(raw) < B2:
        return {}, [], ['file shorter than header + index: %r' % (None if raw is None else len(raw))]
    vals = struct.unpack('<16384Q', raw.read(64, B2 - 64))
    live = {}
    for k, v in enumerate(vals):
        size, off = v >> 40, v & MASK40
        if size == 0:
            continue
        x, y = k % 128, k // 128
        live[(x, y)] = (off, size)
        if off - 4 < B2 or off + size > len(raw):
            bad.append('entry (%d,%d): record [%d,%d) not inside the file behind the index (len %d)' % (x, y, off - 4, off + size, len(raw)))
        elif struct.unpack('<L', raw.read(off - 4, 4))[0] != size:
            bad.append('entry (%d,%d): size in index %d, size in front of the data %d' % (
                x, y, size, struct.unpack('<L', raw.read(off - 4, 4))[0]))
    spans = sorted((o - 4, o + s, xy) for xy, (o, s) in live.items())
    for a, b in zip(spans, spans[1:]):
        if a[1] > b[0]:
            bad.append('records of %r and %r overlap' % (a[2], b[2]))
    return live, vals, bad


def inv_v2(raw):
    live, vals, bad = parse_v2(raw)
    hdr = []
    if raw is not None and len(raw) >= 64:
        h = struct.unpack('<4I3Q6I', raw.read(0, 64))
        if h[5] != len(raw):
            hdr.append('header file size %d, file length %d' % (h[5], len(raw)))
        if live and h[2] < max(s for _, s in live.values()):
            hdr.append('header max record size %d < largest live record %d' % (h[2], max(s for _, s in live.values())))
        fixed = (h[0], h[1], h[3], h[4], h[6], h[7], h[8], h[9], h[10], h[11], h[12])
        if fixed != (3, 16384, 5, 0, 40, 20 + 131072, 3, 16, 16384, 5, 131072):
            hdr.append('constant header fields changed: %r' % (fixed,))
    return live, bad, hdr


def parse_v1(idx, dat):
    bad = []
    if idx is None or len(idx) != X1:
        return {}, {}, ['index file length %r' % (None if idx is None else len(idx))]
    if dat is None or len(dat) < B1:
        return {}, {}, ['data file length %r' % (None if dat is None else len(dat))]
    if idx[:16] != V1_IDX_HEADER or idx[-16:] != V1_IDX_FOOTER:
        bad.append('index header/footer changed')
    offs, live = {}, {}
    for k in range(16384):
        off = int.from_bytes(idx[16 + 5 * k:21 + 5 * k], 'little')
        x, y = k // 128, k % 128
        offs[(x, y)] = off
        if off == 0:
            continue
        if off < 60 or off + 4 > len(dat):
            bad.append('entry (%d,%d): offset %d has no size field inside the file (len %d)' % (x, y, off, len(dat)))
            continue
        size = struct.unpack('<L', dat.read(off, 4))[0]
        if off + 4 + size > len(dat):
            bad.append('entry (%d,%d): record [%d,%d) not inside the file (len %d)' % (x, y, off, off + 4 + size, len(dat)))
            continue
        if size:
            live[(x, y)] = (off, size)
            if off < B1:
                bad.append('entry (%d,%d): live record at %d inside the fixed part' % (x, y, off))
    spans = sorted((o, o + 4 + s, xy) for xy, (o, s) in live.items())
    for a, b in zip(spans, spans[1:]):
        if a[1] > b[0]:
            bad.append('records of %r and %r overlap' % (a[2], b[2]))
    return offs, live, bad


def inv_v1(idx, dat, c, r):
    offs, live, bad = parse_v1(idx, dat)
    hdr = []
    if dat is not None and len(dat) >= 60:
        h = struct.unpack('<4I3Q5I', dat.read(0, 60))
        if h[5] != len(dat):
            hdr.append('header bundle size %d, file length %d' % (h[5], len(dat)))
        if live and h[2] < max(s for _, s in live.values()):
            hdr.append('header largest tile %d < largest live record %d' % (h[2], max(s for _, s in live.values())))
        fixed = (h[0], h[1], h[3], h[6], h[7], h[8], h[9], h[10], h[11])
        if fixed != (3, 16384, 5, 40, 16, r, r + 127, c, c + 127):
            hdr.append('constant header fields changed: %r' % (fixed,))
    return offs, live, bad, hdr


# ------------------------------------------------------------------------------------- running the real code

class Real(object):
    def __init__(self, version, cache_dir):
        from mapproxy.cache.compact import CompactCacheV1, CompactCacheV2
        self.version = version
        self.dir = cache_dir
        self.cache = (CompactCacheV1 if version == 1 else CompactCacheV2)(cache_dir)

    def store(self, tiles):
        from io import BytesIO
        from mapproxy.cache.tile import Tile
        from mapproxy.image import ImageSource
        ts = [Tile(tuple(c), ImageSource(BytesIO(bytes(d)))) for c, d in tiles]
        try:
            return ('ok', bool(self.cache.store_tiles(ts)))
        except Exception as ex:   # noqa
            return ('raised', type(ex).__name__)

    def remove(self, coord):
        from mapproxy.cache.tile import Tile
        try:
            return ('ok', bool(self.cache.remove_tile(Tile(tuple(coord)))))
        except Exception as ex:   # noqa
            return ('raised', type(ex).__name__)

    def load(self, coord):
        from mapproxy.cache.tile import Tile
        t = Tile(tuple(coord))
        try:
            ok = self.cache.load_tile(t)
        except Exception as ex:   # noqa
            return ('raised', type(ex).__name__)
        if t.source is None:
            return ('missing',) if not ok else ('junk', 'load_tile returned True without data')
        data = t.source.as_buffer().read()
        if not ok:
            return ('junk', 'load_tile returned False with data')
        return ('data', bytes(data))

    def size(self, key):
        z, c, r = key
        base = os.path.join(self.dir, 'L%02d' % z, 'R%04xC%04x' % (r, c))
        try:
            est, actual = self.cache.bundle_class(base, (c, r)).size()
            return (int(est), int(actual))
        except Exception as ex:   # noqa
            return ('raised', type(ex).__name__)

    def defrag(self, min_percent, min_bytes):
        from mapproxy.script.defrag import defrag_compact_cache
        decisions = {}

        class Log(object):
            def log(self, fname, fragmentation, fragmentation_bytes, num, total, defrag):
                lvl = os.path.basename(os.path.dirname(fname))
                name = os.path.basename(fname)[:-7]
                r, c = name[1:].split('C')
                decisions[(int(lvl[1:]), int(c, 16), int(r, 16))] = bool(defrag)
        try:
            defrag_compact_cache(self.cache, min_percent=min_percent, min_bytes=min_bytes, log_progress=Log())
            return ('ok', decisions)
        except Exception as ex:   # noqa
            return ('raised', type(ex).__name__, decisions)


def key_of(coord):
    x, y, z = coord
    return (z, x // 128 * 128, y // 128 * 128)


def rel(coord):
    return (coord[0] % 128, coord[1] % 128)


def check_files(ctx, real, replay, when):
    """Oracle on the real bytes of every bundle.  Returns {key: parsed}."""
    v = real.version
    out = {}
    for key, base in sorted(bundle_files(real.dir).items()):
        z, c, r = key
        if v == 2:
            raw = view(base + '.bundle')
            live, bad, hdr = inv_v2(raw)
            out[key] = {'raw': raw, 'live': live}
        else:
            idx, dat = read_bytes(base + '.bundlx'), view(base + '.bundle')
            if dat is None:
                # remove_tile on a bundle that was never written creates the index only; the data file
                # appears with the first read.  Nothing to check yet.
                out[key] = {'idx': idx, 'dat': None, 'live': {}, 'offs': {}}
                continue
            offs, live, bad, hdr = inv_v1(idx, dat, c, r)
            out[key] = {'idx': idx, 'dat': dat, 'live': live, 'offs': offs}
        if bad:
            ctx.fail('v%d,invalid-bundle' % v, '%s: bundle %r: %s' % (when, key, '; '.join(bad[:3])),
                     dict(replay, when=when, bundle=list(key), problems=bad[:10]))
        if hdr:
            ctx.fail('v%d,header-accounting' % v, '%s: bundle %r: %s' % (when, key, '; '.join(hdr[:3])),
                     dict(replay, when=when, bundle=list(key), problems=hdr[:10]))
    return out


def check_api(ctx, real, expect, addrs, replay, when):
    res = {}
    for a in addrs:
        got = real.load(a)
        res[a] = got
        want = expect.get(a)
        ok = (got == ('data', want)) if want else (got == ('missing',))
        if not ok:
            ctx.fail('v%d,wrong-bytes' % real.version,
                     '%s: load_tile%r returned %s, last stored %s' % (
                         when, a, short(got), 'nothing' if not want else '%d bytes' % len(want)),
                     dict(replay, when=when, address=list(a), got=short(got),
                          expected=None if not want else list(want)))
    return res


def short(got):
    if got[0] == 'data':
        return ['data', list(got[1][:64]), len(got[1])]
    return list(got)


# ------------------------------------------------------------------------------------- Gallina literals

def slot_lit(s):
    return '(%d, %d)' % s


def rres_lit(got):
    if got[0] == 'data':
        return '(RData %s)' % llit(got[1])
    if got[0] == 'missing':
        return 'RMissing'
    return 'RError'


def size_lit(sz):
    if isinstance(sz, tuple) and len(sz) == 2 and isinstance(sz[0], int):
        return '(Some (%d, %d))' % sz
    return 'None'


def observe(real, probes, thresholds_skip, sparse=False):
    """[(key, obs literal, skip)] of the bundles on disk; None if something is unreadable.
    sparse=True: the form that never reads the area behind the fixed part as a whole (v2_sobs / v1_sobs)."""
    out = []
    for key, base in sorted(bundle_files(real.dir).items()):
        z, c, r = key
        loads = [real.load((c + x, r + y, z)) for x, y in probes]      # also creates a missing v1 data file
        sz = real.size(key)
        if real.version == 2:
            raw = view(base + '.bundle')
            if raw is None or len(raw) < B2:
                return None
            ents = [struct.unpack('<Q', raw.read(64 + 8 * (x + 128 * y), 8))[0] for x, y in probes]
            if sparse:
                obs = '(%d, %s, %s, %s, %s)' % (len(raw), llit(raw.read(0, 64)), llit(ents),
                                                llit(loads, rres_lit), size_lit(sz))
            else:
                if len(raw) > SMALL:
                    return None
                obs = '(%d, %s, %s, %s, %s, %s)' % (len(raw), llit(raw.read(0, 64)), llit(ents),
                                                     llit(raw.read(B2, len(raw) - B2)), llit(loads, rres_lit), size_lit(sz))
        else:
            idx, dat = read_bytes(base + '.bundlx'), view(base + '.bundle')
            if idx is None or dat is None or len(idx) < X1 or len(dat) < B1:
                return None
            ents = [int.from_bytes(idx[16 + 5 * (x * 128 + y):21 + 5 * (x * 128 + y)], 'little') for x, y in probes]
            zeros = [struct.unpack('<L', dat.read(60 + 4 * (x * 128 + y), 4))[0] for x, y in probes]
            if sparse:
                obs = '(%d, %s, %s, %d, %s, %s, %s, %s)' % (
                    len(idx), llit(idx[:16] + idx[16 + 81920:16 + 81920 + 16]), llit(ents), len(dat),
                    llit(dat.read(0, 60)), llit(zeros), llit(loads, rres_lit), size_lit(sz))
            else:
                if len(dat) > SMALL:
                    return None
                obs = '(%d, %s, %s, %d, %s, %s, %s, %s, %s)' % (
                    len(idx), llit(idx[:16] + idx[16 + 81920:16 + 81920 + 16]), llit(ents), len(dat),
                    llit(dat.read(0, 60)), llit(dat.read(B1, len(dat) - B1)), llit(zeros), llit(loads, rres_lit),
                    size_lit(sz))
        out.append((key, obs, thresholds_skip.get(key, True)))
    return out


def seen_lit(seen):
    if seen is None:
        return 'None'
    return '(Some %s)' % llit(seen, lambda e: '((%d, %d, %d), %s, %s)' % (e[0] + (e[1], blit(e[2]))))


def ops_lit(ops, sparse=False):
    def one(op):
        if op[0] == 'S':
            t = '(CStore %s)' % llit(op[1], lambda t: '((%d, %d, %d), %s)' % (tuple(t[0]) + (llit(t[1]),)))
        elif op[0] == 'R':
            t = '(CRemove (%d, %d, %d))' % tuple(op[1])
        else:
            return '(XSparse (%d, %d, %d) %d)' % (tuple(op[1]) + (op[2],))
        return '(XOp %s)' % t if sparse else t
    return llit(ops, one)


def make_sparse(cache_dir, key, n):
    """Extend the data file of a bundle to n bytes with a hole (no blocks are written) and put n into the
    header's file-size field (8 bytes at offset 24 in both formats), as a long store/overwrite history would have."""
    z, c, r = key
    path = os.path.join(cache_dir, 'L%02d' % z, 'R%04xC%04x.bundle' % (r, c))
    if os.path.getsize(path) > n:
        raise ValueError('sparse size below the current size')
    os.truncate(path, n)
    with open(path, 'r+b') as f:
        f.seek(24)
        f.write(struct.pack('<Q', n))


# ------------------------------------------------------------------------------------- generators

BOUNDARY_SLOTS = [(0, 0), (127, 127), (0, 127), (127, 0), (1, 0), (0, 1), (12, 99), (99, 12), (64, 64)]
LENGTHS = [1, 1, 2, 3, 4, 5, 7, 8, 15, 16, 17, 31, 40, 64, 100, 255, 256, 300]


def gen_data(rng, allow_empty=True):
    if allow_empty and rng.random() < 0.06:
        return []
    n = rng.choice(LENGTHS)
    mode = rng.random()
    if mode < 0.15:
        return [0] * n
    if mode < 0.3:
        return [255] * n
    return [rng.randrange(256) for _ in range(n)]


def gen_history(ctx, version, nops):
    rng = ctx.rng
    nb = rng.choice([1, 1, 2, 3])
    origins = []
    for _ in range(nb):
        z = rng.choice([0, 1, 5, 12, 19])
        c = rng.choice([0, 0, 128, 256, 0x380 * 1, 0x1380, 65408])
        r = rng.choice([0, 0, 128, 4992 // 128 * 128, 0x0380, 65408])
        origins.append((z, c, r))
    pool = list(BOUNDARY_SLOTS)
    rng.shuffle(pool)
    pool = pool[:rng.randrange(2, 6)] + [(rng.randrange(128), rng.randrange(128)) for _ in range(rng.randrange(1, 5))]

    def coord():
        z, c, r = rng.choice(origins)
        x, y = rng.choice(pool) if rng.random() < 0.85 else (rng.randrange(128), rng.randrange(128))
        return (c + x, r + y, z)

    ops, touched = [], []
    for _ in range(nops):
        k = rng.random()
        if k < 0.22 and touched:
            a = rng.choice(touched) if rng.random() < 0.8 else coord()
            ops.append(('R', a))
            touched.append(a)
        else:
            n = rng.choice([1, 1, 1, 2, 2, 3, 5])
            batch = []
            same_bundle = rng.random() < 0.5
            first = coord()
            for i in range(n):
                a = first if i == 0 else coord()
                if same_bundle and key_of(a) != key_of(first):
                    a = (first[0] // 128 * 128 + a[0] % 128, first[1] // 128 * 128 + a[1] % 128, first[2])
                if i and rng.random() < 0.12:
                    a = batch[-1][0]          # duplicate address inside one batch
                batch.append((a, gen_data(rng)))
                touched.append(a)
            ops.append(('S', batch))
    return ops, touched


def pick_thresholds(rng, sizes):
    """sizes: [(est, actual)].  Returns (pn, pd, min_bytes) away from float rounding boundaries."""
    if rng.random() < 0.15:
        return 0, 1, 0          # everything is rewritten, bundles without garbage included
    for _ in range(50):
        est, act = rng.choice(sizes) if sizes else (1, 1)
        frag = act - est
        kind = rng.randrange(8)
        if kind == 0:
            pn, pd = 0, 1
        elif kind == 1:
            pn, pd = rng.choice([(1, 10), (1, 100), (1, 1000), (1, 2), (1, 100000), (-1, 10)])
        elif kind == 2:
            pn, pd = max(frag, 0) * 1024 // max(act, 1), 1024          # just below the fragmentation of one bundle
        elif kind == 3:
            pn, pd = max(frag, 0) * 1024 // max(act, 1) + 1, 1024      # just above
        else:
            pn, pd = rng.randrange(0, 40), rng.choice([1000, 10000, 100000, 4096])
        mb = rng.choice([0, 0, 1, frag, frag + 1, max(frag - 1, 0), 10, 50, 1000, 1024 * 1024, -5])
        ok = True
        for est2, act2 in sizes:
            lhs, rhs = Fraction(act2 - est2, act2), Fraction(pn, pd)
            if lhs != rhs and abs(lhs - rhs) < Fraction(1, 10 ** 9):
                ok = False
            if lhs == rhs and (pd & (pd - 1)):
                ok = False
        if ok:
            return pn, pd, mb
    return 0, 1, 0


# ------------------------------------------------------------------------------------- one case

def run_case(ctx, version, ops, thresholds, label, probes_extra=()):
    """Runs the history and the defragmentation on the real code, evaluates the oracle, returns
    (gallina term, description) for the correspondence."""
    rng = ctx.rng
    d = ctx.tmpdir('c19')
    cache_dir = os.path.join(d, 'cache')
    real = Real(version, cache_dir)
    sparse = any(o[0] == 'X' for o in ops)
    replay = {'format': 'v%d' % version, 'label': label,
              'ops': [[o[0], [[list(a), list(b)] for a, b in o[1]]] if o[0] == 'S' else
                      [o[0], list(o[1])] if o[0] == 'R' else [o[0], list(o[1]), o[2]] for o in ops]}
    expect, touched = {}, []
    aborted = False
    for i, op in enumerate(ops):
        when = 'after operation %d' % i
        if op[0] == 'S':
            res = real.store(op[1])
            for a, data in op[1]:
                touched.append(tuple(a))
                if len(data):
                    expect[tuple(a)] = bytes(data)
                else:
                    expect.pop(tuple(a), None)      # an empty tile is a missing tile in both formats
        elif op[0] == 'X':
            make_sparse(cache_dir, tuple(op[1]), op[2])
            res = ('ok', True)
        else:
            res = real.remove(op[1])
            touched.append(tuple(op[1]))
            expect.pop(tuple(op[1]), None)
        if res != ('ok', True):
            ctx.fail('v%d,operation-failed' % version, '%s: %r returned %r' % (when, op[0], res),
                     dict(replay, when=when, result=list(res)))
            aborted = True
            break
        check_api(ctx, real, expect, sorted(set(touched)), replay, when)
        check_files(ctx, real, replay, when)
    rels = sorted(set(rel(a) for a in touched))
    extra = [s for s in BOUNDARY_SLOTS[:4] + list(probes_extra) if s not in rels]
    extra += [(rng.randrange(128), rng.randrange(128)) for _ in range(3)]
    probes = rels + [s for s in dict.fromkeys(extra) if s not in rels]
    addrs = sorted(set(touched) | set((c + x, r + y, z) for (z, c, r) in bundle_files(cache_dir) for x, y in probes))

    # --- before defragmentation
    sizes = {k: real.size(k) for k in bundle_files(cache_dir)}
    for k in list(sizes):       # v1: index without data file: loads create it
        if not isinstance(sizes[k][0], int):
            real.load((k[1], k[2], k[0]))
            sizes[k] = real.size(k)
    good_sizes = [s for s in sizes.values() if isinstance(s[0], int)]
    if thresholds is None:
        thresholds = pick_thresholds(rng, good_sizes)
    pn, pd, mb = thresholds
    replay['thresholds'] = {'min_percent': '%d/%d' % (pn, pd), 'min_bytes': mb}
    before_api = check_api(ctx, real, expect, addrs, replay, 'before defragmentation')
    parsed = check_files(ctx, real, replay, 'before defragmentation')
    exp_skip = {}
    for k, s in sizes.items():
        if not isinstance(s[0], int):
            continue
        est, act = s
        livesum = sum(sz + 4 for _, sz in parsed.get(k, {}).get('live', {}).values())
        fixed = B2 if version == 2 else B1
        if est != fixed + livesum or act != len(parsed[k]['raw'] if version == 2 else parsed[k]['dat']):
            ctx.fail('v%d,size-estimate' % version,
                     'size() of bundle %r = %r, fixed part + live records = %d' % (k, s, fixed + livesum),
                     dict(replay, bundle=list(k), size=list(s), live_bytes=livesum))
        exp_skip[k] = (Fraction(act - est, act) < Fraction(pn, pd)) or (act - est < mb)
    flens = {}
    for k, base in bundle_files(cache_dir).items():
        for ext in ('.bundle', '.bundlx'):
            if os.path.exists(base + ext):
                flens[(k, ext)] = os.path.getsize(base + ext)
    seen_before = None if aborted else observe(real, probes, exp_skip, sparse)

    # --- the real defragmentation
    res = real.defrag(pn / pd, mb)
    seen_after = None
    if res[0] != 'ok':
        ctx.fail('v%d,defrag-raised' % version, 'defrag_compact_cache raised %s' % res[1], dict(replay, result=res[1]))
    else:
        for k, dec in sorted(res[1].items()):
            if k in exp_skip and dec == exp_skip[k]:
                ctx.fail('v%d,threshold-decision' % version,
                         'bundle %r: size()=%r thresholds %d/%d, %d bytes: defragmented=%r' % (k, sizes[k], pn, pd, mb, dec),
                         dict(replay, bundle=list(k), size=list(sizes[k]), defragmented=dec))
        after_api = check_api(ctx, real, expect, addrs, replay, 'after defragmentation')
        for a in addrs:
            if after_api[a] != before_api[a]:
                ctx.fail('v%d,defrag-changed-tile' % version,
                         'address %r: %s before, %s after defragmentation' % (a, short(before_api[a]), short(after_api[a])),
                         dict(replay, address=list(a), before=short(before_api[a]), after=short(after_api[a])))
        check_files(ctx, real, replay, 'after defragmentation')
        for k, base in bundle_files(cache_dir).items():
            for ext in ('.bundle', '.bundlx'):
                if os.path.exists(base + ext) and (k, ext) in flens and os.path.getsize(base + ext) > flens[(k, ext)]:
                    ctx.fail('v%d,defrag-grew' % version,
                             'bundle %r%s: %d bytes before, %d after defragmentation' % (
                                 k, ext, flens[(k, ext)], os.path.getsize(base + ext)),
                             dict(replay, bundle=list(k)))
        left = [f for f in (os.listdir(cache_dir) if os.path.isdir(cache_dir) else []) if f.startswith('tmp_defrag')]
        if left:
            ctx.fail('v%d,defrag-leftover' % version, 'defragmentation left %r behind' % (left,), dict(replay, left=left))
        seen_after = observe(real, probes, {}, sparse)
        if seen_after is not None:
            seen_after = [(k, o, True) for k, o, _ in seen_after]

    nlive = len(expect)
    churn = sum(1 for i, a in enumerate(touched) if a in touched[:i])
    ctx.case(('v%d' % version, repr(ops), thresholds), nontrivial=(nlive >= 2 and churn >= 1),
             sample={'format': 'v%d' % version, 'operations': len(ops), 'live': nlive, 'thresholds': replay['thresholds']})
    ctx.count('format=v%d' % version)
    ctx.count('bundles=%d' % len(sizes))
    ctx.count('ops=%s' % ('<=5' if len(ops) <= 5 else '<=15' if len(ops) <= 15 else '>15'))
    ctx.count('defragmented=%d' % (sum(1 for v in res[1].values() if v) if res[0] == 'ok' else -1))
    ctx.count('live=%s' % ('0' if nlive == 0 else '1-3' if nlive <= 3 else '>3'))
    if sparse:
        ctx.count('sparse=%s' % ('>=2^32' if max(o[2] for o in ops if o[0] == 'X') >= 2 ** 32 else '<2^32'))
    term = '(%s, %s, (%s, %s, %s), %s, %s)' % (ops_lit(ops, sparse), llit(probes, slot_lit), zlit(pn), zlit(pd), zlit(mb),
                                            seen_lit(seen_before), seen_lit(seen_after))
    return term, replay, sparse


def corpus_cases():
    out = []
    for fn in sorted(glob.glob(os.path.join(VERIF, 'corpus', 'C19', '*.json'))):
        try:
            d = json.load(open(fn))
            ops = []
            for o in d['ops']:
                if o[0] == 'S':
                    ops.append(('S', [(tuple(a), list(b)) for a, b in o[1]]))
                elif o[0] == 'X':
                    ops.append(('X', tuple(o[1]), int(o[2])))
                else:
                    ops.append(('R', tuple(o[1])))
            th = d.get('thresholds')
            out.append((int(d['format'][1:]), ops, tuple(th) if th else None, 'corpus:' + os.path.basename(fn)))
        except Exception as ex:   # noqa
            out.append((None, None, None, 'corpus-unreadable:%s:%r' % (fn, ex)))
    return out


def fixed_cases():
    """Small hand-made histories (both formats): boundaries the random generator reaches only by luck."""
    d = [7, 8, 9]
    big = [9] * 300
    cases = [
        ([], (0, 1, 0)),
        ([('R', (5, 5, 3))], (0, 1, 0)),                                               # remove on a cache without files
        ([('S', [((0, 0, 0), d)]), ('R', (0, 0, 0)), ('S', [((0, 0, 0), d + d)])], (0, 1, 0)),   # store, remove, store again
        ([('S', [((0, 0, 0), d)]), ('R', (0, 0, 0))], (0, 1, 0)),                      # defrag of a bundle without live tiles
        ([('S', [((12, 99, 2), d), ((12, 99, 2), d + [1]), ((127, 127, 2), [])])], (0, 1, 0)),   # duplicate in a batch, empty tile
        ([('S', [((127, 127, 1), d)]), ('S', [((128, 127, 1), d)]), ('S', [((127, 128, 1), d + d)]),
          ('S', [((127, 127, 1), [1])])], (1, 100000, 1)),                               # three bundles
        ([('S', [((1, 0, 0), d)]), ('S', [((0, 1, 0), d + d)]), ('S', [((1, 0, 0), [5])])], (1, 2, 0)),    # skipped: < 50 %
        ([('S', [((1, 0, 0), d)]), ('S', [((0, 1, 0), d + d)]), ('S', [((1, 0, 0), [5])])], (0, 1, 8)),    # skipped: 7 < 8 bytes
        ([('S', [((1, 0, 0), d)]), ('S', [((0, 1, 0), d + d)]), ('S', [((1, 0, 0), [5])])], (0, 1, 7)),    # rewritten: 7 >= 7
        # thresholds zero: bundles WITHOUT garbage are rewritten too (new file = old size), next to bundles with
        # garbage, on two levels: the shared tmp_defrag bundle must be gone / fresh for every bundle
        ([('S', [((5, 5, 1), [1])]), ('S', [((200, 5, 1), big)]), ('S', [((200, 5, 1), [2])]),
          ('S', [((6, 6, 2), [3])]), ('S', [((300, 300, 2), big)]), ('S', [((300, 300, 2), [4, 4])])], (0, 1, 0)),
        ([('S', [((5, 5, 1), d)]), ('S', [((200, 5, 1), d + d)]), ('S', [((5, 5, 2), [1])])], (0, 1, 0)),   # no garbage at all
    ]
    return cases


SPARSE_SIZES = [2 ** 32 - 7, 2 ** 32 - 300, 2 ** 32 + 4096, 2 ** 32 + 1, 2 ** 33 + 1, 2 ** 33 - 100, 2 ** 36 + 12345,
                2 ** 40 - 3000]


def gen_sparse_history(ctx, sizes=None):
    """A few tiles in the low part of one bundle, then the bundle `grows` (sparse hole, see make_sparse) to just
    below / above 2^32, 2^33 or close to the 2^40 limit of the formats, then the history goes on with new tiles,
    overwrites and removes on both sides of the hole; sometimes it grows a second time.  Everything appended after
    the last growth stays below 2900 bytes, so that the file never reaches 2^40."""
    rng = ctx.rng
    z = rng.choice([0, 3, 11])
    c, r = rng.choice([(0, 0), (128, 0), (0x380, 0x1380)])
    key = (z, c, r)
    pool = [(0, 0), (127, 127), (12, 99), (1, 0)] + [(rng.randrange(128), rng.randrange(128)) for _ in range(5)]

    def coord():
        x, y = rng.choice(pool)
        return (c + x, r + y, z)

    def small():
        return [rng.randrange(256) for _ in range(rng.choice([1, 3, 8, 16, 40, 64]))]

    ops, live = [], []
    for _ in range(rng.randrange(1, 5)):
        a = coord()
        ops.append(('S', [(a, small())]))
        live.append(a)
    sizes = list(sizes or rng.sample(SPARSE_SIZES, rng.choice([1, 1, 2])))
    sizes.sort()
    sizes = [n for i, n in enumerate(sizes) if i == 0 or n > sizes[i - 1] + 4000]   # room for what is appended
    for n in sizes:
        ops.append(('X', key, n))
        budget = 2900 // len(sizes)
        for _ in range(rng.randrange(2, 7)):
            k = rng.random()
            if k < 0.2 and live:
                ops.append(('R', rng.choice(live)))
            else:
                batch = [(rng.choice(live) if (live and rng.random() < 0.4) else coord(), small())
                         for _ in range(rng.choice([1, 1, 2, 3]))]
                cost = sum(4 + len(d) for _, d in batch)
                if cost > budget:
                    continue
                budget -= cost
                ops.append(('S', batch))
                live.extend(a for a, _ in batch)
    return ops


def run(ctx):
    terms = {1: [], 2: [], (1, 's'): [], (2, 's'): []}
    descr = {1: [], 2: [], (1, 's'): [], (2, 's'): []}

    def add(version, ops, th, label, extra=()):
        try:
            term, rep, sparse = run_case(ctx, version, ops, th, label, extra)
        except Exception as ex:   # noqa  (a harness failure must not look like success)
            ctx.problem('harness', 'case %s (v%d) could not be run: %r' % (label, version, ex), None)
            return
        k = (version, 's') if sparse else version
        terms[k].append(term)
        descr[k].append(rep)

    for version, ops, th, label in corpus_cases():
        if version is None:
            ctx.problem('harness', label, None)
            continue
        add(version, ops, th, label)
    for i, (ops, th) in enumerate(fixed_cases()):
        for version in (1, 2):
            add(version, ops, th, 'fixed-%d' % i, [(12, 99), (99, 12)])
    nrand = ctx.n(26, 150)
    for i in range(nrand):
        for version in (1, 2):
            nops = ctx.rng.choice([2, 4, 6, 10, 14, 20] if ctx.quick else [2, 4, 6, 10, 14, 20, 30, 45])
            ops, _ = gen_history(ctx, version, nops)
            add(version, ops, None, 'random-%d' % i)

    # bundles beyond 2^32 / 2^33 / close to 2^40 bytes (sparse): every size once per format, then random ones
    for i, n in enumerate(SPARSE_SIZES if ctx.quick else SPARSE_SIZES * 3):
        for version in (1, 2):
            add(version, gen_sparse_history(ctx, [n]), None, 'sparse-%d' % i)
    for i in range(ctx.n(4, 30)):
        for version in (1, 2):
            add(version, gen_sparse_history(ctx), None, 'sparse-random-%d' % i)

    for version in (1, 2):
        ctx.corr_check('v%d_sparse_history_defrag' % version, 'Bytes Gen_compact Gen_compact_fmt Bundle',
                       'v%d_scase' % version, terms[(version, 's')], 'v%d_scase_ok' % version,
                       (lambda v: (lambda i: descr[(v, 's')][i]))(version), shard=3)
    for version in (1, 2):
        ctx.corr_check('v%d_history_defrag' % version, 'Bytes Gen_compact Bundle', 'v%d_case' % version,
                       terms[version], 'v%d_case_ok' % version,
                       (lambda v: (lambda i: descr[v][i]))(version), shard=3)
