"""C15  Parallel fan-out returns every result exactly once and in input order.

Model: coq/theories/Pool.v, theorems: coq/props/P_C15.v.
Tie: correspondence - the real mapproxy.util.async_.ThreadPool is driven with worker functions that block
on per-item events; the harness releases them in a chosen completion order and compares the yielded
sequence / raised exception with `Pool.imap` evaluated inside Coq on the same (pool size, mode, items,
completion order).  Oracle: the property statement itself on what the implementation yielded.
"""
import itertools
import queue
import threading
import time

from common import blit, llit, olit, zlit

ID = 'C15'
TECHNIQUE = 'Coq proof (invariant over all completion orders) + correspondence check of the executable model against ThreadPool'
LEVEL_TEXT = ('Theorems over the Gallina model of map_each/_get_results/_fetch_results/_single_call/_result_iter for every '
              'pool size, item list, completion order (any permutation, unbounded length) and hand-over point between the two '
              'drain phases; the model is tied to mapproxy/util/async_.py by running the real ThreadPool under a harness that '
              'controls the completion order and comparing with the model evaluated by vm_compute.')
LEVEL_NOTE = ('Trusted: Coq kernel, the hand-written model Pool.v, the correspondence harness; queue.Queue FIFO behaviour and '
              'thread start-up are modelled (arrival list), not verified; a return value that looks like sys.exc_info() is '
              'indistinguishable from an exception for _result_iter (values are tagged Ok/Exc in the model).')
DESIGN_REF = 'DESIGN.md section 5, C15'
RULE = ('case = (api, pool size, result mode, items with failing positions, completion order consistent with the pool size); '
        'non-trivial = at least 2 items and a non-identity completion order or a failing item; distinct by full tuple')
TRUSTED = ['model Pool.v hand-written from mapproxy/util/async_.py; tie = differential run of real ThreadPool vs model']
ASSUMPTIONS = ['queue.Queue is FIFO and loses nothing', 'one result is put per task taken']
EXPLANATION = ('resequencing invariant proved for all permutations and hand-over points; put/task_done handshake and forced-shutdown drain '
               'proved for all interleavings; consumers of result objects proved order-independent; implementation driven through chosen '
               'completion orders, gated puts, a forced empty()/get() race, the real _create_bulk_meta_tile / LayerRenderer / '
               'TileCreator._query_sources (recording merger and real LayerMerger with per-source clip coverages) / S3 and Azure '
               'load_tiles+store_tiles (fake bucket), and request sequences through the real WSGI app')


class Boom(Exception):
    def __init__(self, ident):
        Exception.__init__(self, 'boom %d' % ident)
        self.ident = ident


# Python values behind the integer codes used in cases: falsy / None results must travel through the pool
# like any other value (a tile creator returns None for a blank tile).
SPECIAL = {-1: None, -2: '', -3: False, -4: (), -5: 0.0, -6: [], -7: (3, 4, 5), -8: ('a', None, 'c')}
# -7 / -8: ordinary 3-tuples (a tile coordinate): same shape as sys.exc_info() but no exception inside


def encode_value(v):
    return SPECIAL[v] if v in SPECIAL else v


def decode_value(r):
    if r is None:
        return -1
    if r is False:
        return -3
    if isinstance(r, bool):
        return None
    if isinstance(r, int):
        return r if r not in SPECIAL else None
    if r == '' and isinstance(r, str):
        return -2
    if r == () and isinstance(r, tuple):
        return -4
    if isinstance(r, float) and r == 0.0:
        return -5
    if r == [] and isinstance(r, list):
        return -6
    if isinstance(r, tuple) and r == (3, 4, 5):
        return -7
    if isinstance(r, tuple) and r == ('a', None, 'c'):
        return -8
    return None


class TraceTaskQueue(queue.Queue):
    """task queue that logs task_done calls of worker threads (with the index of the task they took)."""

    def __init__(self, log, loglock, race=False, slow_done=False):
        queue.Queue.__init__(self)
        self.log, self.loglock = log, loglock
        # slow_done: a worker is pre-empted between result_queue.put() and task_queue.task_done()
        self.slow_done = slow_done
        self.local = threading.local()
        # race mode (forced shutdown): a worker that asks for its SECOND task is held until the consumer has
        # seen `not empty()` with exactly one task left; it then takes that task before the consumer's get
        self.race = race
        self.worker_gate = threading.Event()
        self.takes = {}
        self.raced = False

    def _is_worker(self):
        from mapproxy.util.async_ import ThreadWorker
        return isinstance(threading.current_thread(), ThreadWorker)

    def get(self, *a, **kw):
        if self.race and self._is_worker():
            me = threading.get_ident()
            if self.takes.get(me, 0) >= 1 and not self.raced:
                self.worker_gate.wait(1.5)
            self.takes[me] = self.takes.get(me, 0) + 1
        item = queue.Queue.get(self, *a, **kw)
        self.local.current = item[0] if isinstance(item, tuple) else None
        return item

    def empty(self):
        r = queue.Queue.empty(self)
        if self.race and not r and not self.raced and not self._is_worker() and self.qsize() == 1:
            self.raced = True
            self.worker_gate.set()
            deadline = time.time() + 0.5
            while self.qsize() > 0 and time.time() < deadline:
                time.sleep(0.002)
        return r

    def task_done(self):
        cur = getattr(self.local, 'current', None)
        self.local.current = None
        from mapproxy.util.async_ import ThreadWorker
        if cur is not None and isinstance(threading.current_thread(), ThreadWorker):
            if self.slow_done:
                time.sleep(0.12)
            with self.loglock:
                self.log.append((False, cur))
                queue.Queue.task_done(self)
        else:
            queue.Queue.task_done(self)


class SignalQueue(queue.Queue):
    """result queue that reports every completed put (so the harness knows the arrival order)."""

    def __init__(self, log=None, loglock=None, gate=None):
        queue.Queue.__init__(self)
        self.puts = queue.Queue()
        self.log, self.loglock, self.gate = log, loglock or threading.Lock(), gate

    def put(self, item, *a, **kw):
        if self.gate is not None:
            self.gate.wait(2.0)         # a slow put: the worker is held between computing and queueing its result
        with self.loglock:
            if self.log is not None and isinstance(item, tuple):
                self.log.append((True, item[0]))
            queue.Queue.put(self, item, *a, **kw)
        self.puts.put(item[0] if isinstance(item, tuple) else None)


def gen_arrival(rng, n, pool_size, mode):
    """A completion order that the pool can produce: an item can complete only after it was started, and
    at most pool_size items are running."""
    if mode == 'identity':
        return list(range(n))
    started = list(range(min(pool_size, n)))
    nxt = len(started)
    arr = []
    while started:
        if mode == 'reverse':
            k = len(started) - 1
        else:
            k = rng.randrange(len(started))
        arr.append(started.pop(k))
        if nxt < n:
            started.append(nxt)
            nxt += 1
    return arr


def run_impl(api, pool_size, use_ro, items, arrival, slow_put=False, race=False, slow_done=False):
    """items: list of ('ok', v) / ('exc', e).  Returns (yielded list, raised ident or None, hang flag, worker trace).
    slow_put: every result_queue.put is held back until the consumer finished or a grace period passed."""
    from mapproxy.util.async_ import ThreadPool, AsyncResult
    n = len(items)
    events = [threading.Event() for _ in items]
    sequential = pool_size < 2 or n == 1

    def work(i, _dummy=None):
        events[i].wait(4)
        kind, v = items[i]
        if kind == 'exc':
            raise Boom(v)
        return encode_value(v)

    pool = ThreadPool(pool_size)
    trace, loglock = [], threading.Lock()
    gate = threading.Event() if (slow_put and not sequential) else None
    pool.result_queue = SignalQueue(trace, loglock, gate)
    pool.task_queue = TraceTaskQueue(trace, loglock, race=race, slow_done=slow_done)
    out, raised, state = [], [None], {'done': False}

    def consume():
        try:
            kw = {'use_result_objects': True} if use_ro else {}
            if api == 'imap':
                it = pool.imap(work, list(range(n)), **kw)
            elif api == 'imap2':
                it = pool.imap(work, list(range(n)), [None] * n, **kw)
            elif api == 'starmap':
                it = pool.starmap(work, [(i,) for i in range(n)], **kw)
            elif api == 'map':
                it = pool.map(work, list(range(n)), **kw)
            else:
                it = pool.starcall([(work, i) for i in range(n)], **kw)
            for r in it:
                if isinstance(r, AsyncResult):
                    if r.exception is not None:
                        ex = r.exception[1]
                        out.append(('exc', ex.ident if isinstance(ex, Boom) else -1))
                    else:
                        d = decode_value(r.result)
                        out.append(('ok', d) if d is not None else ('junk', repr(r.result)[:80]))
                else:
                    d = decode_value(r)
                    out.append(('ok', d) if d is not None else ('junk', repr(r)[:80]))
        except Boom as ex:
            raised[0] = ex.ident
        except Exception as ex:  # noqa
            raised[0] = -2
            out.append(('junk', repr(ex)[:80]))
        state['done'] = True

    if sequential:
        for e in events:
            e.set()
    t = threading.Thread(target=consume, daemon=True)
    t.start()
    if gate is not None:
        for e in events:
            e.set()
        deadline = time.time() + 0.12
        while time.time() < deadline and not state['done']:
            time.sleep(0.005)
        gate.set()
    elif not sequential:
        for i in arrival:
            events[i].set()
            if state['done']:
                continue
            # wait until the result of item i is in the result queue (or the consumer gave up)
            deadline = time.time() + 1.0
            while time.time() < deadline:
                try:
                    got = pool.result_queue.puts.get(timeout=0.02)
                    if got == i:
                        break
                except queue.Empty:
                    if state['done'] or not t.is_alive():
                        break
    t.join(3)
    hang = t.is_alive()
    for e in events:
        e.set()
    with loglock:
        tr = list(trace)
    return out, raised[0], hang, tr


def vlit(item):
    return '(%s %s)' % ('Ok' if item[0] == 'ok' else 'Exc', zlit(item[1]))


def oracle(ctx, case, out, raised, hang):
    api, ps, use_ro, items, arrival = case
    n = len(items)
    where = 'mode=%s,%s' % ('result' if use_ro else 'raise', 'sequential' if (ps < 2 or n == 1) else 'pool')
    rep = {'api': api, 'pool_size': ps, 'use_result_objects': use_ro, 'items': items, 'completion_order': arrival,
           'yielded': out, 'raised': raised}
    if hang:
        ctx.fail(where + ',hang', 'imap did not terminate', rep)
        return
    if any(o[0] == 'junk' for o in out):
        ctx.fail(where + ',junk', 'a value that is neither a result nor a reported exception was yielded: %r' % (out,), rep)
        return
    excs = [i for i, it in enumerate(items) if it[0] == 'exc']
    if use_ro or not excs:
        if raised is not None:
            ctx.fail(where + ',spurious-raise', 'exception raised although none expected', rep)
        elif out != list(items):
            kind = 'order' if sorted(map(repr, out)) == sorted(map(repr, items)) else 'lost-or-duplicated'
            ctx.fail(where + ',' + kind, 'yielded %r for inputs %r' % (out, items), rep)
        return
    # raise mode with failing items
    if raised is None:
        ctx.fail(where + ',swallowed', 'no exception raised although item(s) %r fail; yielded %r' % (excs, out), rep)
        return
    if ps < 2 or n == 1:
        first = excs[0]
    else:
        first = [i for i in arrival if items[i][0] == 'exc'][0]
    if raised != items[first][1]:
        ctx.fail(where + ',wrong-exception', 'raised %r, expected the exception of item %d' % (raised, first), rep)
    elif api == 'map' and out:
        ctx.fail(where + ',bad-prefix', 'map returned values although it raised: %r' % (out,), rep)
    elif out != list(items[:len(out)]) or any(o[0] != 'ok' for o in out) or len(out) > first:
        ctx.fail(where + ',bad-prefix', 'values yielded before the raise are not an input-order prefix: %r' % (out,), rep)


def gen_cases(ctx):
    rng = ctx.rng
    cases = []
    apis = ['imap', 'starmap', 'map', 'starcall', 'imap2']
    # corpus: finding F11 (sequential raise mode) and small boundary cases first
    for api in apis[:3]:
        cases.append((api, 1, False, [('ok', 5), ('exc', 6), ('ok', 7)], [0, 1, 2]))
        cases.append((api, 0, False, [('exc', 1), ('exc', 2)], [0, 1]))
        cases.append((api, 3, True, [('exc', 9)], [0]))
        cases.append((api, 3, False, [('exc', 9)], [0]))
        cases.append((api, 2, True, [], []))
    if ctx.quick:
        nrand = 260
        exhaustive_n = 4
    else:
        nrand = 1500
        exhaustive_n = 6
    # exhaustive: all completion orders of up to exhaustive_n items with pool_size >= n, one failing position or none
    for n in range(2, exhaustive_n + 1):
        perms = list(itertools.permutations(range(n)))
        if len(perms) > 130:
            perms = rng.sample(perms, 130 if ctx.quick else 720)
        for perm in perms:
            failing = rng.choice([None] + list(range(n)))
            items = [('exc', 100 + i) if i == failing else ('ok', 10 + i) for i in range(n)]
            use_ro = rng.random() < 0.5
            cases.append((rng.choice(apis), n + rng.randrange(0, 2), use_ro, items, list(perm)))
    for _ in range(nrand):
        n = rng.choice([0, 1, 2, 2, 3, 3, 4, 5, 6, 8])
        ps = rng.choice([0, 1, 2, 2, 3, 4, 6])
        nfail = rng.choice([0, 0, 1, 1, 2, n])
        fails = set(rng.sample(range(n), min(nfail, n)))
        items = [('exc', 100 + i) if i in fails else ('ok', rng.randrange(-8, 50)) for i in range(n)]
        arrival = gen_arrival(rng, n, max(ps, 1), rng.choice(['random', 'random', 'reverse', 'identity']))
        cases.append((rng.choice(apis), ps, rng.random() < 0.5, items, arrival))
    return cases


def run(ctx):
    cases = [(c, False) for c in gen_cases(ctx)]
    # slow-put cases: every worker is held between computing its result and queueing it while the consumer
    # is free to run (exposes a task_done that is signalled before the result is in the queue)
    rng = ctx.rng
    for _ in range(ctx.n(14, 80)):
        n = rng.choice([2, 3, 4, 6])
        ps = rng.choice([2, 3, 4, 6])
        items = [('ok', rng.choice([-1, -2, -3, -7, -8, 0, 5, 17, 40 + i])) for i in range(n)]
        if rng.random() < 0.5:
            # a slow failure: its result reaches the queue only in the second drain phase (after join())
            items[rng.randrange(n)] = ('exc', 300 + rng.randrange(9))
        cases.append(((rng.choice(['imap', 'starmap', 'starcall']), ps, rng.random() < 0.5, items, list(range(n))), True))
    # forced-shutdown race: raise mode, first item fails, more items than workers; a worker takes the last
    # queued task between the consumer's empty() test and its get() in _consume_queue
    for k in range(ctx.n(6, 30)):
        ps = rng.choice([2, 2, 3])
        n = ps + rng.choice([2, 3, 4])
        items = [('exc', 100)] + [('ok', 10 + i) for i in range(1, n)]
        cases.append(((rng.choice(['imap', 'starmap', 'map']), ps, False, items, list(range(n))), 'race'))
    # slow task_done: every worker is held between result_queue.put() and task_queue.task_done(): the consumer has
    # all results while tasks are still "unfinished" (the call must still return)
    for k in range(ctx.n(8, 40)):
        n = rng.choice([2, 3, 4])
        ps = rng.choice([2, 3, 4])
        items = [('ok', 10 + i) for i in range(n)]
        if k % 3 == 2:
            items[rng.randrange(n)] = ('exc', 400 + rng.randrange(9))
        cases.append(((rng.choice(['imap', 'starmap', 'map']), ps, k % 2 == 0, items, list(range(n))), 'slowdone'))
    terms, descr = [], []
    for case, slow in cases:
        api, ps, use_ro, items, arrival = case
        race = slow == 'race'
        slow_done = slow == 'slowdone'
        slow = slow is True
        if race:
            ctx.count('forced_shutdown_race')
        if slow_done:
            ctx.count('slow_task_done')
        out, raised, hang, trace = run_impl(api, ps, use_ro, items, arrival, slow_put=slow, race=race, slow_done=slow_done)
        n = len(items)
        pool_path = not (ps < 2 or n == 1)
        if pool_path and not hang and (raised is None or slow):
            # the order in which results really reached the queue (after a raise the trace may be incomplete:
            # results that were never put are appended in input order, the model does not look past the raise)
            arrival = [i for is_put, i in trace if is_put]
            arrival += [i for i in range(n) if i not in arrival]
            case = (api, ps, use_ro, items, arrival)
        nontrivial = n >= 2 and (arrival != sorted(arrival) or any(i[0] == 'exc' for i in items))
        ctx.case((api, ps, use_ro, tuple(items), tuple(arrival), slow), nontrivial,
                 {'api': api, 'pool_size': ps, 'use_result_objects': use_ro, 'items': items,
                  'completion_order': arrival, 'slow_put': slow, 'yielded': out, 'raised': raised})
        ctx.count('api=' + api)
        ctx.count('n=%d' % n)
        ctx.count('pool_size=%d' % ps)
        ctx.count('mode=' + ('result' if use_ro else 'raise'))
        ctx.count('failing=%d' % sum(1 for i in items if i[0] == 'exc'))
        ctx.count('falsy_values=%d' % sum(1 for i in items if i[0] == 'ok' and i[1] in SPECIAL or i[1] == 0))
        if slow:
            ctx.count('slow_put')
        oracle(ctx, case, out, raised, hang)
        if hang or any(o[0] == 'junk' for o in out):
            obs = '([Exc (-999)], Some (-999))'   # cannot be produced by the model
        else:
            obs = '(%s, %s)' % (llit(out, vlit), olit(raised))
        split = ctx.rng.randrange(0, n + 2)
        # worker trace: only meaningful (complete) when the pool ran to the end without a forced shutdown
        check_trace = pool_path and raised is None and not hang
        tr = trace if check_trace else []
        terms.append('(%d%%nat, %s, %s, %s, %d%%nat, %s, %s, %s, %s)' % (
            ps, blit(use_ro), llit(items, vlit), llit(arrival, lambda a: '%d%%nat' % a), split, blit(api == 'map'), obs,
            blit(check_trace), llit(tr, lambda e: '(%s, %d%%nat)' % (blit(e[0]), e[1]))))
        descr.append({'api': api, 'pool_size': ps, 'use_result_objects': use_ro, 'items': items,
                      'completion_order': arrival, 'split_used_for_model': split, 'slow_put': slow,
                      'worker_trace(put=True/done=False, index)': tr,
                      'implementation_yielded': out, 'implementation_raised': raised})
    ctx.corr_check(
        'imap', 'Pool PoolSync',
        'nat * bool * list val * list nat * nat * bool * (list val * option Z) * bool * list (bool * nat)', terms,
        "fun c => let '(ps, ro, items, arr, split, is_map, out, chk, tr) := c in "
        "result_eqb (as_list_api is_map (imap ps ro items arr split)) out && "
        "(negb chk || (wf_trace (List.length items) (map wev_of tr) && "
        " match map_each_ev (negb ro) items (map wev_of tr) split 0 with "
        " | Some r => result_eqb r out | None => false end))",
        lambda i: descr[i])
    from props import c15_consumers
    c15_consumers.run(ctx)
    c15_consumers.run_app_sequences(ctx)
