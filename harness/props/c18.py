"""C18  Every request gets a well-formed answer and cannot inject markup.

Model: coq/theories/Escape.v (+ coq/gen/Gen_exc_templates.v generated from /repo), theorems: coq/props/P_C18.v.

Tie
  * translator/specs/exc_templates.py (fail closed): escape_html, the two render methods, all handler classes with
    their template files, all RequestError call sites.
  * correspondence `escape`:   html.escape (as imported by mapproxy.exception), util.escape.escape_html and
                               html.unescape against the model on generated strings (code point lists).
  * correspondence `handler`:  every XML exception handler class rendered with generated (msg, code, locator)
                               against Escape.exception_doc of the generated template.
  * correspondence `tokens`:   the Python tokenizer used by the oracle against Escape.tokenize.
  * correspondence `welcome`:  MapProxyApp.welcome_response against the generated Gen_exc_templates.welcome_response.
  * correspondence `host`:     Request.host / url_scheme / host_url against Escape.host / url_scheme / host_url.
  * correspondence `url`:      Request.script_url / base_url / urllib.parse.quote against Escape.script_url / base_url / quote.
  * probe `htmlpage` (deterministic): welcome page (paths '' and '/') and demo pages with hostile Host / X-Forwarded-* / script
                               names WITHOUT marker; oracle = lxml element structure and token kinds equal to the benign page.
  * probe `demostatic` (deterministic): names below /demo/static/ that are no regular file, on the packaged templates and on an
                               instance with globals.template_dir; oracle = 404 that names no directory of the server.
  * correspondence `capabilities`: capabilities documents of the whole application for hostile Host / X-Forwarded-* values
                               against `fill segs (escape_html host_url)` with the segments of the benign document.
  * correspondence `appdoc`:   XML exception documents produced by the WHOLE application on a malformed-request
                               stream; the message is recovered with lxml and the body must be exactly
                               exception_doc template message code locator.
The model describes the REPAIRED code (fix commits C18-a message sanitising, C18-b escaped host in Request.base_url,
C18-c content type of in-image exceptions); on a tree without them the translator fails closed.
Oracle (on the implementation, independent of the model): see `oracle_*` below.  The application-level part
(WSGI never raises, images decode, no trace back in a body) is validated, not proved.
"""
import io
import logging
import os
import re
import sys

from common import llit, olit, zlit

ID = 'C18'
GEN = ['Gen_exc_templates.v']
TECHNIQUE = ('Coq proof (escaping, entity structure, round trip, tokenizer insertion lemma, fixed skeleton of every '
             'generated exception template) + fail-closed translator for templates / escape_html / RequestError call sites '
             '+ correspondence of model and implementation (functions, handler classes, whole-application documents)')
LEVEL_TEXT = ('Proved for all strings (lists of code points): html.escape and escape_html emit no < > quote characters, '
              'every & starts one of five entities, unescape(html.escape m) = m; for every exception template of the source '
              'tree, every code/locator literal of the source tree and every message the document tokenises to fixed tokens '
              'around ONE text node that decodes to the message.  Partial: that the WSGI application never raises, that images '
              'decode with the requested size and that no trace back reaches a body is validated on a generated '
              'malformed-request stream, not proved.')
LEVEL_NOTE = ('Trusted: Coq kernel, hand-written model Escape.v (tokenizer is minimal: tags, quoted attribute values, character '
              'data; no comments/CDATA - the translator refuses templates containing them), translator spec exc_templates.py, '
              'the harness; tempita is modelled for the template subset in use and cross-checked by the handler correspondence; '
              'CPython str.replace / html.escape are modelled and cross-checked by the escape correspondence.')
DESIGN_REF = 'DESIGN.md section 5, C18'
RULE = ('case = one generated string (escape), one (handler class, message, code, locator) rendering, or one WSGI request '
        '(service, path, query string, headers, upstream behaviour); non-trivial = string containing a character that must be '
        'escaped / request that differs from a valid one in at least one parameter; distinct by full input')
TRUSTED = ['model Escape.v hand-written from html.escape / escape_html / XMLExceptionHandler.render / tempita subset',
           'translator spec exc_templates.py (templates, escape_html, render methods, RequestError call sites)',
           'app-level claims (never raises, images decode, no trace back) are validated by the request stream only']
ASSUMPTIONS = ['re.sub with a character class replaces exactly the characters of the class (xml_sanitize; checked by correspondence)',
               'str.replace with a one-character pattern replaces every occurrence left to right without rescanning',
               'tempita renders literal text verbatim and {{v}} as str(v) / empty for None (checked by correspondence)',
               'a WSGI server never delivers CR or LF inside a header value or the request line',
               'debug_mode is off (the catch-all of MapProxyApp.__call__ re-raises in debug mode by design)',
               'an upstream answer that declares an image content type is an image (single tiles are passed through undecoded)']
EXPLANATION = ('escaping proved for all strings, skeleton proved for all messages per generated template; implementation driven '
               'through functions, handler classes and the whole WSGI app with hostile inputs')

XML_ILLEGAL = 'xml-illegal-character'   # was known finding C18-a; repaired (render methods sanitise the message)

HERE = os.path.dirname(os.path.abspath(__file__))
VERIF = os.path.dirname(os.path.dirname(HERE))


# ----------------------------------------------------------------------------- strings

SPECIAL = ['&', '<', '>', '"', "'"]
FRAGMENTS = ['&amp;', '&lt;', '&gt;', '&quot;', '&#x27;', '&#39;', '&#60;', '&amp', '&lt', '&', '&&', ';', '#', '&#', '&#x',
             '<b>', '</b>', '<!--', '-->', '<![CDATA[', ']]>', '<?', '?>', '<c18m>', '"><c18m x="', "'><c18m x='",
             '</ServiceException>', '<script>', '\\', '%', '{{', '}}', '{{exception}}', '$', '\n', '\r\n', '\t', ' ']
NONASCII = [0xe9, 0xff, 0x100, 0x2603, 0xfffd, 0xffff, 0xfffe, 0x10000, 0x1f600, 0x10ffff, 0x85, 0xa0, 0x2028]
CONTROL = [0, 1, 8, 11, 12, 14, 27, 31, 127]
SURROGATES = [0xd800, 0xdbff, 0xdc00, 0xdfff]


def gen_string(rng, surrogates=True, control=True, maxlen=24):
    kind = rng.random()
    n = rng.choice([0, 1, 1, 2, 3, 5, 8, maxlen])
    out = []
    for _ in range(n):
        r = rng.random()
        if r < 0.30:
            out.append(rng.choice(SPECIAL))
        elif r < 0.50:
            out.append(rng.choice(FRAGMENTS))
        elif r < 0.62:
            out.append(chr(rng.randrange(32, 127)))
        elif r < 0.72:
            out.append(chr(rng.choice(NONASCII)))
        elif r < 0.80 and control:
            out.append(chr(rng.choice(CONTROL)))
        elif r < 0.84 and surrogates:
            out.append(chr(rng.choice(SURROGATES)))
        elif r < 0.90:
            out.append(rng.choice('abcxyz019 _-.:,/=()[]'))
        else:
            out.append(chr(rng.randrange(0x20, 0x3000)))
    if kind < 0.05:
        out = out * 3
    return ''.join(out)


def cps(s):
    return [ord(c) for c in s]


def slist(s):
    return llit(cps(s))


def xml_char_ok(c):
    o = ord(c)
    return o in (9, 10, 13) or 0x20 <= o <= 0xd7ff or 0xe000 <= o <= 0xfffd or 0x10000 <= o <= 0x10ffff


# ----------------------------------------------------------------------------- python tokenizer (oracle side)

def py_tokenize(s):
    """independent re-implementation of Escape.tokenize; returns list of (kind, text), kind 0 text / 1 tag / 2 open"""
    toks = []
    mode = 't'
    q = None
    cur = []
    for ch in s:
        if mode == 't':
            if ch == '<':
                toks.append((0, ''.join(cur)))
                cur = []
                mode = 'g'
            else:
                cur.append(ch)
        elif mode == 'g':
            if ch == '>':
                toks.append((1, ''.join(cur)))
                cur = []
                mode = 't'
            else:
                cur.append(ch)
                if ch in '"\'':
                    mode, q = 'q', ch
        else:
            cur.append(ch)
            if ch == q:
                mode = 'g'
    toks.append((0 if mode == 't' else 2, ''.join(cur)))
    return toks


def py_skeleton(toks):
    return tuple((k, t) if k else None for k, t in toks)


ENT = {'amp;': '&', 'lt;': '<', 'gt;': '>', 'quot;': '"', '#x27;': "'"}


def check_escaped_text(e):
    """None when e looks like escaped character data, else a description."""
    for ch in '<>"\'':
        if ch in e:
            return 'contains %r' % ch
    i = e.find('&')
    while i >= 0:
        if not any(e.startswith(b, i + 1) for b in ENT):
            return 'ampersand at %d does not start an entity' % i
        i = e.find('&', i + 1)
    return None


# ----------------------------------------------------------------------------- part A: escape functions

def part_escape(ctx):
    import html
    try:
        import mapproxy.exception as mexc
        from mapproxy.util.escape import escape_html
        esc = mexc.escape
    except Exception as e:  # noqa
        ctx.problem('harness', 'cannot import the escape functions: %r' % (e,))
        return
    strings = ['', '&', '<', '>', '"', "'", '&amp;', '&&amp;;', '<b a="1">&\'', 'a&lt;b', '&#x27;', "''\"\"", '\ud800<',
               '<<>>', '&lt', 'amp;', '&amp', '\x00<\x01>']
    n = ctx.n(350, 6000)
    for _ in range(n):
        strings.append(gen_string(ctx.rng))
    terms, descr = [], []
    for s in strings:
        def call(f):
            try:
                r = f(s)
                return r if isinstance(r, str) else None
            except Exception as e:  # noqa
                return None
        o1, o2 = call(esc), call(escape_html)
        nontrivial = any(c in s for c in SPECIAL)
        ctx.case(('escape', s), nontrivial, {'part': 'escape', 'input': cps(s)[:40], 'html.escape': (o1 or '')[:80]} if nontrivial else None)
        ctx.count('escape:len=%s' % ('0' if not s else '1-4' if len(s) < 5 else '5-19' if len(s) < 20 else '20+'))
        rep = {'function': 'escape', 'input_code_points': cps(s)}
        if o1 is None or o2 is None:
            ctx.fail('escape,raised', 'escape function raised or returned a non-string for %r' % (s,), rep)
            o1, o2 = o1 or '\x00?', o2 or '\x00?'
        else:
            why = check_escaped_text(o1)
            if why:
                ctx.fail('escape,html.escape-markup', 'escape(%r) = %r: %s' % (s, o1, why), rep)
            why = check_escaped_text(o2)
            if why:
                ctx.fail('escape,escape_html-markup', 'escape_html(%r) = %r: %s' % (s, o2, why), rep)
            try:
                back, back2 = html.unescape(o1), html.unescape(o2)
            except Exception:  # noqa
                back = back2 = None
            if back != s:
                ctx.fail('escape,roundtrip', 'html.unescape(escape(%r)) = %r' % (s, back), rep)
            elif back2 != s.replace('"', '').replace("'", ''):
                ctx.fail('escape,escape_html-roundtrip', 'html.unescape(escape_html(%r)) = %r' % (s, back2), rep)
        # unescape correspondence on the image of escape followed by ampersand-free text
        tail = gen_string(ctx.rng).replace('&', '')
        u_in = o1 + tail
        try:
            u_out = html.unescape(u_in)
        except Exception:  # noqa
            u_out = '\x00?'
        terms.append('(%s, %s, %s, %s, %s)' % (slist(s), slist(o1), slist(o2), slist(u_in), slist(u_out)))
        descr.append({'input': cps(s), 'html.escape': cps(o1), 'escape_html': cps(o2), 'unescape_input': cps(u_in),
                      'html.unescape': cps(u_out)})
    ctx.corr_check(
        'escape', 'Escape Gen_exc_templates', 'list Z * list Z * list Z * list Z * list Z', terms,
        "fun c => let '(s, o1, o2, ui, uo) := c in "
        "str_eqb (html_escape s) o1 && str_eqb (escape_html s) o2 && str_eqb (gen_escape_html s) o2 && str_eqb (unescape ui) uo",
        lambda i: descr[i])


# ----------------------------------------------------------------------------- part B: handler classes

def load_handler_table(ctx):
    sys.path.insert(0, os.path.join(VERIF, 'translator'))
    try:
        from specs import exc_templates
        import common
        return exc_templates.handler_table(common.REPO), exc_templates.request_error_sites(common.REPO)
    except Exception as e:  # noqa  (the translator already reported the broken obligation)
        ctx.problem('translator', 'handler table cannot be derived from the source: %s' % (e,))
        return None, None


def import_class(rel, name):
    import importlib
    modname = rel[:-3].replace('/', '.')
    if modname.endswith('.__init__'):
        modname = modname[:-9]
    return getattr(importlib.import_module(modname), name)


def part_handlers(ctx, table, codes, locs):
    """render every XML handler class; returns dict skeleton -> (template name, code, loc) for the app part"""
    try:
        from mapproxy.exception import RequestError
    except Exception as e:  # noqa
        ctx.problem('harness', 'cannot import mapproxy.exception: %r' % (e,))
        return {}
    skeletons = {}
    terms, descr, tok_terms, tok_descr = [], [], [], []
    n_each = ctx.n(35, 500)
    for cname, rel, tpl, has_loc in table:
        try:
            cls = import_class(rel, cname)
        except Exception as e:  # noqa
            ctx.problem('harness', 'cannot import handler %s from %s: %r' % (cname, rel, e))
            continue

        def render(msg, code, loc):
            try:
                resp = cls().render(RequestError(msg, code=code, locator=loc))
                body = resp.response
                if isinstance(body, bytes):
                    body = body.decode('utf-8', 'surrogatepass')
                return body if isinstance(body, str) else None, resp
            except Exception as e:  # noqa
                return None, e

        # reference documents (empty message) for every literal code / locator
        for code in [None] + list(codes):
            for loc in ([None] + list(locs)) if has_loc else [None]:
                ref, _ = render('', code, loc)
                if ref is None:
                    ctx.fail('handler,raised', '%s raised for the empty message, code %r' % (cname, code),
                             {'handler': cname, 'msg': '', 'code': code, 'locator': loc})
                    continue
                skeletons.setdefault(py_skeleton(py_tokenize(ref)), (tpl, code, loc, cname))
        cases = [('', None, None), ('<b a="1">&\'', codes[0] if codes else None, locs[0] if locs else None),
                 ('</ServiceException><c18m/>', None, None), ('{{exception}}{{code}}', None, None),
                 ('\x01\ud800', None, None)]
        for _ in range(n_each):
            code = ctx.rng.choice([None, None] + list(codes))
            if ctx.rng.random() < 0.1:
                code = gen_string(ctx.rng, maxlen=6)       # arbitrary code: model fidelity only
            loc = ctx.rng.choice([None] + list(locs)) if ctx.rng.random() < 0.7 else gen_string(ctx.rng, maxlen=4)
            cases.append((gen_string(ctx.rng), code, loc))
        for msg, code, loc in cases:
            body, resp = render(msg, code, loc)
            literal = (code is None or code in codes) and (loc is None or loc in locs or not has_loc)
            nontrivial = any(c in msg for c in SPECIAL)
            ctx.case(('handler', cname, msg, code, loc), nontrivial,
                     {'part': 'handler', 'handler': cname, 'msg': cps(msg)[:30], 'code': code} if nontrivial else None)
            ctx.count('handler=' + cname)
            rep = {'handler': cname, 'module': rel, 'msg_code_points': cps(msg), 'code': code, 'locator': loc}
            if body is None:
                ctx.fail('handler,raised', '%s.render raised %r' % (cname, resp), rep)
                body = '\x00?'
            elif literal:
                oracle_document(ctx, 'handler', body, msg, (code, loc if has_loc else None), cls, render, rep)
                ct = resp.headers.get('Content-type', '')
                if 'xml' not in ct:
                    ctx.fail('handler,content-type', '%s answers with Content-type %r' % (cname, ct), rep)
            terms.append('(%s, %s, %s, %s, %s)' % (tpl, slist(msg), olit(code, slist), olit(loc if has_loc else None, slist), slist(body)))
            descr.append(dict(rep, template=tpl, implementation_document=cps(body)))
            if len(tok_terms) < ctx.n(150, 1500):
                doc = body if ctx.rng.random() < 0.7 else (body[:ctx.rng.randrange(len(body) + 1)] + msg + gen_string(ctx.rng))
                toks = py_tokenize(doc)
                tok_terms.append('(%s, %s)' % (slist(doc), llit(toks, lambda t: '(%d, %s)' % (t[0], slist(t[1])))))
                tok_descr.append({'document': cps(doc), 'python_tokens': [(k, cps(t)) for k, t in toks]})
    ctx.corr_check(
        'handler', 'Escape Gen_exc_templates', 'list piece * list Z * option (list Z) * option (list Z) * list Z', terms,
        "fun c => let '(t, msg, code, loc, doc) := c in str_eqb (exception_doc t msg code loc) doc",
        lambda i: descr[i], shard=150)
    ctx.corr_check(
        'tokens', 'Escape', 'list Z * list (Z * list Z)', tok_terms,
        "fun c => let '(doc, toks) := c in "
        "list_eqb (fun a b => Z.eqb (fst a) (fst b) && str_eqb (snd a) (snd b)) (map tok_code (tokenize doc)) toks",
        lambda i: tok_descr[i], shard=150)
    return skeletons


def oracle_document(ctx, where, body, msg, code_loc, cls, render, rep):
    """the property on one XML exception document whose message is known"""
    code, loc = code_loc
    ref, _ = render('', code, loc)
    if ref is None:
        return
    toks, rtoks = py_tokenize(body), py_tokenize(ref)
    if py_skeleton(toks) != py_skeleton(rtoks):
        ctx.fail(where + ',skeleton-changed', 'element skeleton of the %s document depends on the message %r' % (cls.__name__, msg), rep)
        return
    diff = [i for i, (a, b) in enumerate(zip(toks, rtoks)) if a != b]
    if msg.strip(' \t\r\n') == '':
        return
    if len(diff) != 1:
        ctx.fail(where + ',text-nodes', 'message %r changes %d tokens of the document' % (msg, len(diff)), rep)
        return
    raw = toks[diff[0]][1]
    import html
    # an implementation may replace characters that XML cannot represent by U+FFFD (proposed repair of finding C18-a)
    sanitized = ''.join(c if xml_char_ok(c) else '\ufffd' for c in msg)
    if html.unescape(raw).strip(' \t\r\n') not in (msg.strip(' \t\r\n'), sanitized.strip(' \t\r\n')) or check_escaped_text(raw):
        ctx.fail(where + ',text-not-message', 'text node %r does not decode to the message %r' % (raw, msg), rep)
        return
    bad = sorted(set(c for c in body if not xml_char_ok(c)))
    if bad:
        ctx.fail(XML_ILLEGAL, 'XML exception document contains characters that XML 1.0 cannot represent: %r' % bad[:5], rep)
        return
    try:
        from lxml import etree
        root = etree.fromstring(body.encode('utf-8'))
        text = ''.join(root.itertext())
    except Exception as e:  # noqa
        ctx.fail(where + ',not-wellformed', 'lxml rejects the document for message %r: %s' % (msg, e), rep)
        return
    norm = lambda s: s.replace('\r\n', '\n').replace('\r', '\n').strip(' \t\n')  # noqa
    if norm(text) not in (norm(msg), norm(sanitized)):
        ctx.fail(where + ',lxml-text', 'lxml reads the text %r for the message %r' % (text, msg), rep)


# ----------------------------------------------------------------------------- part B2: the other handler classes

def part_other_handlers(ctx):
    """PlainExceptionHandler (text/plain, message verbatim) and the two image handlers (oracle only: no markup is
    produced by them, so there is nothing for the escape model to say)."""
    try:
        from mapproxy.exception import RequestError, PlainExceptionHandler
        from mapproxy.request.wms import WMS111MapRequest, WMS130MapRequest
        from mapproxy.request.wms.exception import WMSImageExceptionHandler, WMSBlankExceptionHandler
        from PIL import Image
    except Exception as e:  # noqa
        ctx.problem('harness', 'cannot import the plain / image exception handlers: %r' % (e,))
        return
    for _ in range(ctx.n(40, 400)):
        msg = gen_string(ctx.rng)
        internal = ctx.rng.random() < 0.3
        rep = {'handler': 'PlainExceptionHandler', 'msg_code_points': cps(msg), 'internal': internal}
        ctx.case(('plain', msg, internal), any(c in msg for c in SPECIAL))
        ctx.count('handler=PlainExceptionHandler')
        try:
            resp = PlainExceptionHandler().render(RequestError(msg, internal=internal))
            ct = resp.headers.get('Content-type', '')
            if not ct.startswith('text/plain') or resp.response != msg or resp.status[:3] != ('500' if internal else '404'):
                ctx.fail('handler,plain', 'PlainExceptionHandler answers %r %r %r for %r' % (resp.status, ct, resp.response, msg), rep)
        except Exception as e:  # noqa
            ctx.fail('handler,raised', 'PlainExceptionHandler.render raised %r' % (e,), rep)
    for _ in range(ctx.n(60, 600)):
        msg = gen_string(ctx.rng, maxlen=60)
        w, h = ctx.rng.choice([1, 2, 17, 64, 256, 257, 301, 512, 1000]), ctx.rng.choice([1, 3, 48, 256, 257, 400, 800])
        fmt = ctx.rng.choice(['image/png', 'image/jpeg', 'image/gif'])
        cls = ctx.rng.choice([WMSImageExceptionHandler, WMSBlankExceptionHandler])
        # sizes as clients write them: GetMap accepts decimal notation and truncates (int(float(..)))
        def num(v):
            return ctx.rng.choice([str(v), str(v), '%d.0' % v, '%d.00' % v, '%d.7' % v, ' %d' % v, '%de0' % v, '+%d' % v])
        params = {'width': num(w), 'height': num(h), 'format': fmt, 'layers': 'x', 'styles': '', 'bbox': '0,0,1,1',
                  'exceptions': 'inimage' if cls is WMSImageExceptionHandler else 'blank'}
        if ctx.rng.random() < 0.5:
            params['transparent'] = ctx.rng.choice(['true', 'TRUE', 'false', 'x'])
        if ctx.rng.random() < 0.5:
            params['bgcolor'] = ctx.rng.choice(['0xff0000', '0X00ff00', '#0000ff', '0xffffff'])
        reqcls = ctx.rng.choice([WMS111MapRequest, WMS130MapRequest])
        rep = {'handler': cls.__name__, 'request_class': reqcls.__name__, 'params': params, 'msg_code_points': cps(msg)}
        ctx.case(('imagehandler', cls.__name__, msg, tuple(sorted(params.items()))), True)
        ctx.count('handler=' + cls.__name__)
        try:
            req = reqcls(param=params)
            resp = cls().render(RequestError(msg, request=req))
            data = resp.response.read() if hasattr(resp.response, 'read') else resp.response
            im = Image.open(io.BytesIO(data))
            im.load()
            ct = resp.headers.get('Content-type', '')
            if im.size != (w, h):
                ctx.fail('handler,image-size', '%s: requested %r, image is %r' % (cls.__name__, (w, h), im.size), rep)
            elif 'image/' + (im.format or '').lower() != ct:
                ctx.fail('handler,image-type', '%s: declared %r, image is %s' % (cls.__name__, ct, im.format), rep)
        except Exception as e:  # noqa
            ctx.fail('handler,image-raised', '%s.render raised / produced an undecodable image: %r' % (cls.__name__, e), rep)


# ----------------------------------------------------------------------------- part C: the whole application

CONF = '''
globals:
  cache:
    base_dir: %(base)s/cache_data
    lock_dir: %(base)s/locks
    tile_lock_dir: %(base)s/tilelocks
    meta_size: [1, 1]
    meta_buffer: 0
services:
  demo:
  tms:
  kml:
  wmts:
    restful: true
    kvp: true
    featureinfo_formats:
      - mimetype: text/plain
        suffix: txt
      - mimetype: application/json
        suffix: json
  wms:
    srs: ['EPSG:4326', 'EPSG:3857', 'EPSG:900913']
    bbox_srs:
      - srs: 'EPSG:4326'
        bbox: [-180, -70, 180, 80]
      - 'EPSG:3857'
    image_formats: ['image/png', 'image/jpeg', 'image/gif']
    featureinfo_types: ['text', 'html', 'xml']
    md:
      title: C18 fixture
layers:
  - name: cached
    title: Cached Layer
    sources: [c1]
  - name: big
    title: Layer with 512 pixel tiles
    sources: [c2]
  - name: direct
    title: Direct Layer
    sources: [up]
caches:
  c1:
    grids: [GLOBAL_MERCATOR]
    sources: [up]
  c2:
    grids: [big512]
    sources: [up]
grids:
  big512:
    base: GLOBAL_MERCATOR
    tile_size: [512, 512]
sources:
  up:
    type: wms
    wms_opts:
      featureinfo: true
      legendgraphic: true
    req:
      url: http://upstream.invalid/service
      layers: foo
'''

UP = {'mode': 'ok'}
HOSTILE = ['<c18m>', '\xe4', 'l\xe4yer', '\xff', '\xc3(', '"><c18m x="', "'><c18m x='", '</script><c18m>', '&', '&amp;', '&lt;c18m&gt;', '<', '>', '"', "'", '\\',
           '%', '%zz', '%00', '\x00', '\x01', '\x7f', '\t', '\r\n', '\n', ' ', '', 'é', '☃', '\U0001f600', '\xff\xfe',
           '../../../etc/passwd', '{{exception}}', '-1', '0', '300', '1024', '2000', '300.0', '150.00', '64.5', '2e2', '1e400', 'nan', 'inf', '-inf', '99999999999999999999', '1.5', 'abc',
           ',', ',,,,', '0,0,0,0', '1,2', 'EPSG:0', 'EPSG:', 'EPSG:99999999999', 'image/', 'image/foo', 'text/html', 'png',
           'A' * 300, 'true', 'TRUE', 'inimage', 'blank', 'xml', 'application/vnd.ogc.se_inimage', 'application/vnd.ogc.se_blank',
           '0x', '0xzzzzzz', '#ffffff', '2009-13-45', 'default', 'cached,cached', 'cached,<c18m>', 'direct']

# syntactic forms of a Host header (RFC 3986 authority): IPv6 literals, ports, empty parts
HOST_FORMS = ['[::1]', '[::1]:8080', '[2001:db8::1]:80', '[2001:db8:0:0:0:0:0:1]:443', '::1', 'a:b:c', ':', '::', 'localhost:', ':80',
              'localhost:80', 'localhost:443', 'localhost:8080', 'example.org:80:80', '[fe80::1%25eth0]:80', 'h,i:80', ' spaced.example ']
# parameter tails for values that name a media type / format (RFC 7231 parameters, case, line ends)
FORMAT_TAILS = [';x=1', '; charset=utf-8', ';\r\nX-Injected: 1', '; charset=utf-8\r\nSet-Cookie: c18=1', '\r\n', '\n', ';\x00', ' ', ';', ';;=']
MARK = re.compile(r'c18m', re.I)


def build_app(ctx):
    from mapproxy.wsgiapp import make_wsgi_app
    import mapproxy.client.http as H
    from PIL import Image
    base = ctx.tmpdir('app')
    conf = os.path.join(base, 'mapproxy.yaml')
    with open(conf, 'w') as f:
        f.write(CONF % {'base': base})

    def fake_open(self, url, data=None, method=None):
        from urllib.parse import urlparse, parse_qs
        q = {k.lower(): v[0] for k, v in parse_qs(urlparse(url).query).items()}
        if UP['mode'] == 'oserror':
            # an unexpected server-side fault whose text names a file of the server
            raise OSError(13, 'Permission denied', os.path.join(UP['base'], 'secret', 'client-cert.pem'))
        if UP['mode'] == 'error':
            raise H.HTTPClientError('HTTP Error "%s": 500 <c18m> &' % url, response_code=500)
        req = q.get('request', '').lower()
        if UP['mode'] == 'garbage':
            b = io.BytesIO(b'<html><upstream>not an image &</html>')     # an error page, honestly declared
            b.headers = {'Content-type': 'text/html'}
            b.code = 200
            return b
        if req in ('getfeatureinfo', 'feature_info'):
            b = io.BytesIO(b'info <upstream-b> & "upstream"')
            b.headers = {'Content-type': q.get('info_format', 'text/plain')}
            b.code = 200
            return b
        try:
            w, h = int(q.get('width', 256)), int(q.get('height', 256))
        except ValueError:
            w, h = 256, 256
        if not (1 <= w <= 4096 and 1 <= h <= 4096):
            # an honest upstream refuses sizes it cannot render (it never answers with another size)
            raise H.HTTPClientError('HTTP Error "%s": 400 size not supported' % url, response_code=400)
        if req == 'getlegendgraphic':
            w, h = 20, 12
        im = Image.new('RGB', (w, h), (10, 200, 30))
        b = io.BytesIO()
        fmt = 'JPEG' if 'jpeg' in q.get('format', '') else 'PNG'
        im.save(b, fmt)
        b.seek(0)
        b.headers = {'Content-type': 'image/' + fmt.lower()}
        b.code = 200
        return b

    H.HTTPClient.open = fake_open
    UP['base'] = base
    app = make_wsgi_app(conf)
    # a second instance whose cache / lock directories cannot be created (the parent is a regular file):
    # every store fails on the server side
    with open(os.path.join(base, 'afile'), 'w') as f:
        f.write('x')
    conf2 = os.path.join(base, 'mapproxy-faulty.yaml')
    with open(conf2, 'w') as f:
        f.write(CONF % {'base': os.path.join(base, 'afile')})
    try:
        faulty = make_wsgi_app(conf2)
    except Exception:  # noqa
        faulty = None
    return app, base, faulty


WMS_MAP = {'service': 'WMS', 'request': 'GetMap', 'version': '1.1.1', 'layers': 'cached', 'styles': '', 'srs': 'EPSG:4326',
           'bbox': '-10,-10,30,20', 'width': '64', 'height': '48', 'format': 'image/png'}


def base_requests():
    """(name, path, list of (key, value)) valid requests of every service"""
    def kv(d, **over):
        d = dict(d)
        d.update(over)
        return [(k, v) for k, v in d.items() if v is not None]
    out = []
    out.append(('wms111.map', '/service', kv(WMS_MAP)))
    out.append(('wms111.map.direct', '/service', kv(WMS_MAP, layers='direct', format='image/jpeg')))
    out.append(('wms110.map', '/service', kv(WMS_MAP, version='1.1.0')))
    out.append(('wms130.map', '/service', kv(WMS_MAP, version='1.3.0', srs=None, crs='EPSG:3857', bbox='0,0,1000000,1000000')))
    out.append(('wms100.map', '/service', kv(WMS_MAP, version=None, service=None, wmtver='1.0.0', request='map', format='PNG')))
    out.append(('wms111.map.inimage', '/service', kv(WMS_MAP, layers='nolayer', exceptions='application/vnd.ogc.se_inimage')))
    out.append(('wms111.map.blank', '/service', kv(WMS_MAP, layers='nolayer', exceptions='application/vnd.ogc.se_blank', transparent='true')))
    out.append(('wms130.map.inimage', '/service', kv(WMS_MAP, version='1.3.0', srs=None, crs='EPSG:4326', layers='nolayer', exceptions='INIMAGE', bgcolor='0xff0000')))
    for v in ('1.0.0', '1.1.0', '1.1.1', '1.3.0'):
        if v == '1.0.0':
            out.append(('wms100.cap', '/service', [('wmtver', '1.0.0'), ('request', 'capabilities')]))
        else:
            out.append(('wms%s.cap' % v.replace('.', ''), '/service', [('service', 'WMS'), ('request', 'GetCapabilities'), ('version', v)]))
    out.append(('wms111.fi', '/service', kv(WMS_MAP, request='GetFeatureInfo', layers='direct', query_layers='direct', x='10', y='10',
                                            info_format='text/plain')))
    out.append(('wms130.fi', '/service', kv(WMS_MAP, version='1.3.0', srs=None, crs='EPSG:4326', request='GetFeatureInfo', layers='direct',
                                            query_layers='direct', i='10', j='10', info_format='text/html')))
    out.append(('wms111.legend', '/service', [('service', 'WMS'), ('request', 'GetLegendGraphic'), ('version', '1.1.1'), ('layer', 'direct'),
                                              ('format', 'image/png')]))
    out.append(('ows.noservice', '/ows', [('request', 'GetCapabilities')]))
    out.append(('wmts.kvp.tile', '/service', [('service', 'WMTS'), ('request', 'GetTile'), ('version', '1.0.0'), ('layer', 'cached'),
                                              ('style', ''), ('tilematrixset', 'GLOBAL_MERCATOR'), ('tilematrix', '1'), ('tilerow', '0'),
                                              ('tilecol', '1'), ('format', 'image/png')]))
    out.append(('wmts.kvp.cap', '/service', [('service', 'WMTS'), ('request', 'GetCapabilities'), ('version', '1.0.0')]))
    out.append(('wmts.kvp.fi', '/service', [('service', 'WMTS'), ('request', 'GetFeatureInfo'), ('version', '1.0.0'), ('layer', 'cached'),
                                            ('style', ''), ('tilematrixset', 'GLOBAL_MERCATOR'), ('tilematrix', '1'), ('tilerow', '0'),
                                            ('tilecol', '1'), ('format', 'image/png'), ('infoformat', 'text/plain'), ('i', '5'), ('j', '7')]))
    out.append(('wmts.rest.tile', '/wmts/cached/GLOBAL_MERCATOR/1/0/1.png', []))
    out.append(('wmts.rest.cap', '/wmts/1.0.0/WMTSCapabilities.xml', []))
    out.append(('wmts.rest.fi', '/wmts/cached/GLOBAL_MERCATOR/1/0/1/5/7.txt', []))
    out.append(('tms.tile', '/tms/1.0.0/cached/EPSG900913/1/0/1.png', []))
    out.append(('tms.cap', '/tms/1.0.0/', []))
    out.append(('tms.layercap', '/tms/1.0.0/cached/EPSG900913', []))
    out.append(('tms.root', '/tms', []))
    out.append(('tiles.tile', '/tiles/cached/EPSG900913/1/0/1.png', [('origin', 'nw')]))
    # the layer with 512 pixel tiles, every tile service
    out.append(('tms.tile.big', '/tms/1.0.0/big/EPSG900913/1/0/1.png', []))
    out.append(('tiles.tile.big', '/tiles/big/EPSG900913/1/0/1.png', []))
    out.append(('kml.tile.big', '/kml/big/EPSG900913/1/0/1.png', []))
    out.append(('wmts.rest.tile.big', '/wmts/big/big512/1/0/1.png', []))
    out.append(('wmts.kvp.tile.big', '/service', [('service', 'WMTS'), ('request', 'GetTile'), ('version', '1.0.0'), ('layer', 'big'),
                                                  ('style', ''), ('tilematrixset', 'big512'), ('tilematrix', '1'), ('tilerow', '0'),
                                                  ('tilecol', '1'), ('format', 'image/png')]))
    # decimal sizes (accepted by GetMap: int(float(..))): the answer and the in-image / blank exception must have that size
    out.append(('wms111.map.decimal', '/service', kv(WMS_MAP, width='300.0', height='150.0')))
    out.append(('wms130.map.decimal', '/service', kv(WMS_MAP, version='1.3.0', srs=None, crs='EPSG:3857', bbox='0,0,1000000,1000000',
                                                     width='64.9', height='48.2')))
    out.append(('wms111.map.inimage.decimal', '/service', kv(WMS_MAP, layers='nolayer', exceptions='application/vnd.ogc.se_inimage',
                                                             width='300.0', height='150.0')))
    out.append(('wms111.map.blank.decimal', '/service', kv(WMS_MAP, layers='nolayer', exceptions='application/vnd.ogc.se_blank',
                                                           width='300.0', height='150.00')))
    out.append(('wms130.map.inimage.decimal', '/service', kv(WMS_MAP, version='1.3.0', srs=None, crs='EPSG:4326', layers='nolayer',
                                                             exceptions='INIMAGE', width='3e2', height='64.5')))
    # maps that overlap the extent the service offers for the SRS (bbox_srs: EPSG:4326 = -180,-70,180,80) on each side, in a
    # corner, around it and completely outside: the answer has the REQUESTED size in every case
    for tag, bb in (('east', '170,0,190,10'), ('south', '0,-80,10,-60'), ('west', '-190,0,-170,10'), ('north', '0,70,10,90'),
                    ('southeast', '170,-80,190,-60'), ('northwest', '-190,70,-170,90'), ('around', '-200,-100,200,100'),
                    ('outside', '190,0,200,10'), ('edge', '-180,-70,180,80')):
        out.append(('wms111.map.extent.' + tag, '/service', kv(WMS_MAP, bbox=bb, width='80', height='40')))
    out.append(('wms130.map.extent.east', '/service', kv(WMS_MAP, version='1.3.0', srs=None, crs='EPSG:4326', bbox='0,170,10,190', width='80',
                                                         height='40', layers='direct')))
    out.append(('wms111.map.extent.jpeg', '/service', kv(WMS_MAP, bbox='170,-80,190,10', width='33', height='77', layers='direct',
                                                         format='image/jpeg')))
    out.append(('kml.root', '/kml/cached/EPSG900913/0/0/0.kml', []))
    out.append(('kml.tile', '/kml/cached/EPSG900913/1/0/1.png', []))
    out.append(('root', '/', []))
    out.append(('demo.index', '/demo/', []))
    out.append(('demo.redirect', '/demo', []))
    out.append(('demo.wms', '/demo/', [('wms_layer', 'cached'), ('format', 'png'), ('srs', 'EPSG:4326')]))
    out.append(('demo.tms', '/demo/', [('tms_layer', 'cached'), ('format', 'png'), ('srs', 'EPSG:900913')]))
    out.append(('demo.wmts', '/demo/', [('wmts_layer', 'cached'), ('format', 'png'), ('srs', 'EPSG:900913')]))
    out.append(('demo.wmscap', '/demo/', [('wms_capabilities', ''), ('type', 'external')]))
    out.append(('demo.wmtscap', '/demo/', [('wmts_capabilities', '')]))
    out.append(('demo.tmscap', '/demo/', [('tms_capabilities', ''), ('layer', 'cached'), ('srs', 'EPSG:900913')]))
    out.append(('demo.static', '/demo/static/site.css', []))
    out.append(('unknown', '/nothing/here', []))
    return out


def fresh(path, pairs, i):
    """the same request for a tile / map extent that is not in the cache yet (so that the upstream is asked)"""
    x, y = i % 16, (i // 16) % 16
    path = re.sub(r'/1/0/1(?=[./])', '/4/%d/%d' % (x, y), path)
    out = []
    for k, v in pairs:
        kl = k.lower()
        if kl == 'tilematrix':
            v = '4'
        elif kl == 'tilerow':
            v = str(y)
        elif kl == 'tilecol':
            v = str(x)
        elif kl == 'bbox' and v == '-10,-10,30,20':
            v = '%d,%d,%d,%d' % (-170 + 20 * x, -80 + 9 * y, -150 + 20 * x, -65 + 9 * y)
        out.append((k, v))
    return path, out


class RawPath(str):
    """a PATH_INFO that is handed to the application verbatim (latin-1 text of arbitrary bytes)"""


def wsgi_path(path, raw_latin1):
    """PEP 3333: PATH_INFO is the percent-decoded request path, bytes decoded as latin-1.  Characters above U+00FF can only
    arrive as UTF-8 bytes; characters U+0080..U+00FF arrive either as UTF-8 or (raw_latin1: a client that percent-encodes latin-1,
    or arbitrary bytes) as the single byte - which is in general NOT valid UTF-8."""
    if isinstance(path, RawPath):
        return str(path)
    out = []
    for c in path:
        if c in '\r\n':
            continue
        if raw_latin1 and 0x80 <= ord(c) <= 0xff:
            out.append(c)
        else:
            out.append(c.encode('utf-8', 'replace').decode('latin-1'))
    return ''.join(out)


class Encoded(str):
    """a query value that is already percent-encoded (arbitrary bytes, not necessarily UTF-8)"""


NON_UTF8 = ['%FF', '%E4', '%C3%28', '%ED%A0%80', '%F8%88%80%80%80', '%80']


def enc_query(pairs, rng, raw_prob=0.0):
    from urllib.parse import quote
    parts = []
    for k, v in pairs:
        if isinstance(v, Encoded):
            parts.append(quote(k, safe='') + '=' + str(v))
        elif rng.random() < raw_prob:
            # raw, not percent-encoded (what a sloppy client sends): only characters that may appear in a request line
            vv = ''.join(c for c in v if c not in '\r\n &#' and ord(c) < 256 and ord(c) > 32)
            parts.append(k + '=' + vv)
        else:
            parts.append(quote(k, safe='') + '=' + quote(v.encode('utf-8', 'replace'), safe='/:,'))
    return '&'.join(parts)


def mutate(rng, name, path, pairs):
    """one malformed variant; returns (path, pairs, headers, raw_qs or None, description)"""
    pairs = list(pairs)
    headers = {}
    raw_qs = None
    what = []
    nmut = rng.choice([1, 1, 1, 2, 3])
    for _ in range(nmut):
        r = rng.random()
        if r < 0.38 and pairs:
            i = rng.randrange(len(pairs))
            v = rng.choice(HOSTILE) if rng.random() < 0.8 else gen_string(rng, surrogates=False)
            if rng.random() < 0.25:
                v = pairs[i][1] + v
            what.append('value %s' % pairs[i][0])
            pairs[i] = (pairs[i][0], v)
        elif r < 0.48 and pairs:
            i = rng.randrange(len(pairs))
            what.append('drop %s' % pairs[i][0])
            del pairs[i]
        elif r < 0.56 and pairs:
            i = rng.randrange(len(pairs))
            what.append('duplicate %s' % pairs[i][0])
            pairs.insert(rng.randrange(len(pairs) + 1), (pairs[i][0] if rng.random() < 0.5 else pairs[i][0].upper(), rng.choice(HOSTILE)))
        elif r < 0.62:
            k = rng.choice(['exceptions', 'EXCEPTIONS', 'format', 'bgcolor', 'transparent', 'time', 'elevation', 'dim_x', 'tiled', 'origin',
                            'sld', 'sld_body', 'feature_count', 'info_format', 'infoformat', 'wms_layer', 'type', 'srs', 'layer', 'styles',
                            'request', 'service', 'version', 'wmtver', '<c18m>', ''])
            what.append('add %s' % k)
            pairs.append((k, rng.choice(HOSTILE)))
        elif r < 0.80:
            segs = path.split('/')
            if len(segs) > 1:
                i = rng.randrange(1, len(segs))
                rr = rng.random()
                if rr < 0.6:
                    segs[i] = rng.choice(HOSTILE)
                elif rr < 0.75:
                    del segs[i]
                elif rr < 0.9:
                    segs.insert(i, rng.choice(['', '..', '.', '1.0.0', 'cached', '%2e%2e', '<c18m>']))
                else:
                    segs[i] = segs[i] + rng.choice(['.png', '.jpeg', '.<c18m>', '.kml', '.xml', 'x', '.'])
                path = '/'.join(segs)
                what.append('path')
        elif r < 0.92:
            h = rng.choice(['HTTP_X_FORWARDED_HOST', 'HTTP_X_FORWARDED_PROTO', 'HTTP_X_SCRIPT_NAME', 'HTTP_HOST', 'HTTP_IF_NONE_MATCH',
                            'HTTP_IF_MODIFIED_SINCE', 'HTTP_ACCEPT', 'HTTP_REFERER', 'HTTP_ORIGIN'])
            v = rng.choice(HOSTILE + ['evil.example"><c18m x="', "evil.example'><c18m>", 'a, b', 'javascript:alert(1)//', 'https', 'ftp',
                                      '/prefix', '/pre"fix<c18m>', '/pre&fix', "/pre'fix", 'Thu, 01 Jan 1970 00:00:00 GMT', 'Fri, 01 Jan 2100 00:00:00 GMT',
                                      'Sun, 06 Nov 2094 08:49:37 GMT', 'yesterday', '*', 'W/"x"'] + HOST_FORMS)
            v = ''.join(c for c in v if ord(c) >= 32 and ord(c) != 127)     # a WSGI server never delivers control characters in a header value
            headers[h] = v.encode('utf-8').decode('latin-1')      # PEP 3333: header values are latin-1 decoded bytes
            what.append('header %s' % h)
        else:
            raw_qs = rng.choice(['&&&', '=', '=&=', '%', 'a=%zz&b=%', '?', ';', 'service', 'service=', 'service=%ff%fe', 'SERVICE=wms&service=wmts',
                                 'service=WMS&request=' + 'A' * 2000, 'request=GetMap' + '&layers=x' * 50,
                                 'service=WMS&request=GetMap&version=1.1.1&layers=%3Cc18m%3E',
                                 'service=WMS&request=GetMap&version=1.3.0&layers=%3Cc18m%3E',
                                 'service=WMS&request=GetMap&wmtver=1.0.0&layers=%3Cc18m%3E',
                                 'service=WMS&request=GetMap&version=1.1.0&layers=%3Cc18m%3E',
                                 'service=WMTS&request=GetTile&layer=%3Cc18m%3E',
                                 'service=%3Cc18m%3E', 'service=wms&request=%3Cc18m%3E', 'service=wmts&request=%3Cc18m%3E',
                                 'service=wms&request=getmap&version=%3Cc18m%3E'])
            what.append('raw query')
    return path, pairs, headers, raw_qs, '; '.join(what)


class FileWrapper(object):
    """what a WSGI server offers as environ['wsgi.file_wrapper'] (wsgiref.util.FileWrapper): streams the file-like object from
    its CURRENT position in blocks"""

    def __init__(self, filelike, blksize=8192):
        self.filelike, self.blksize = filelike, blksize
        if hasattr(filelike, 'close'):
            self.close = filelike.close

    def __iter__(self):
        return self

    def __next__(self):
        data = self.filelike.read(self.blksize)
        if data:
            return data
        raise StopIteration


def start_app(app, path, qs, headers):
    """first half of a request: the WSGI callable is run (status and headers are fixed), the body is not read yet"""
    env = {'REQUEST_METHOD': 'GET', 'PATH_INFO': path, 'QUERY_STRING': qs, 'SERVER_NAME': 'localhost', 'SERVER_PORT': '80',
           'SERVER_PROTOCOL': 'HTTP/1.1', 'wsgi.url_scheme': 'http', 'wsgi.errors': io.StringIO(), 'wsgi.input': io.BytesIO(),
           'wsgi.version': (1, 0), 'wsgi.multithread': False, 'wsgi.multiprocess': False, 'wsgi.run_once': False,
           'SCRIPT_NAME': '', 'HTTP_HOST': 'localhost'}
    env.update(headers)
    if qs is None:
        del env['QUERY_STRING']       # PEP 3333: QUERY_STRING may be absent when the URL has no query
    if env.pop('wsgi.file_wrapper', None):
        env['wsgi.file_wrapper'] = FileWrapper      # optional platform extension of PEP 3333 (gunicorn, uwsgi, mod_wsgi, wsgiref)
    if env.pop('mapproxy.authorize', None) == 'limited':
        # authorization callback: everything is allowed, but only inside a small area (tiles outside are answered empty)
        def authorize(service, layers=(), environ=None, **kw):
            lim = {'geometry': [0, 0, 10, 10], 'srs': 'EPSG:4326'}
            return {'authorized': 'partial',
                    'layers': dict((name, {'tile': True, 'map': True, 'featureinfo': True, 'legendgraphic': True, 'limited_to': lim})
                                   for name in layers)}
        env['mapproxy.authorize'] = authorize
    st = {'calls': 0, 'env': env, 'it': None, 'raised': None}

    def start_response(status, hdrs, exc_info=None):
        st['calls'] += 1
        st['status'], st['headers'] = status, hdrs
        return lambda data: None
    try:
        st['it'] = app(env, start_response)
    except BaseException as e:  # noqa
        if isinstance(e, (KeyboardInterrupt, SystemExit)):
            raise
        st['raised'] = '%s: %s' % (type(e).__name__, str(e)[:200])
    return st


def finish_app(st):
    """second half: the server reads the body"""
    if st['raised']:
        return {'raised': st['raised']}
    try:
        it = st['it']
        chunks = []
        for c in it:
            chunks.append(c)
        if hasattr(it, 'close'):
            it.close()
    except BaseException as e:  # noqa
        if isinstance(e, (KeyboardInterrupt, SystemExit)):
            raise
        return {'raised': '%s: %s' % (type(e).__name__, str(e)[:200])}
    return {'status': st.get('status'), 'headers': st.get('headers'), 'chunks': chunks, 'calls': st['calls'],
            'errors': st['env']['wsgi.errors'].getvalue()}


def call_app(app, path, qs, headers):
    return finish_app(start_app(app, path, qs, headers))


def requested_size(name, path, pairs):
    d = {}
    for k, v in pairs:
        d.setdefault(k.lower(), v)
    if '.map' in name:
        try:
            w, h = int(float(d['width'])), int(float(d['height']))
        except (KeyError, ValueError, OverflowError):
            return None
        return (w, h) if w >= 1 and h >= 1 else None       # an image of size 0 does not exist
    return None


def xml_document_problem(body, text):
    """None when the (non-exception) XML document is well-formed and free of injected markup"""
    bad = sorted(set(c for c in text if not xml_char_ok(c)))
    if bad:
        return 'xml-illegal-character-in-document', 'XML document contains %r' % bad[:5]
    try:
        from lxml import etree
        rootel = etree.fromstring(body)
    except Exception as e:  # noqa
        return 'xml-not-wellformed', 'lxml rejects the body: %s' % str(e)[:120]
    for el in rootel.iter():
        if isinstance(el.tag, str) and (MARK.search(el.tag) or any(MARK.search(a) for a in el.attrib)):
            return 'xml-injection', 'request text became markup: element %s %r' % (el.tag, dict(el.attrib))
    return None


FI_CT = 'featureinfo,content-type-from-request'      # known finding C18-d (see known_findings.d/C18.json)


def oracle_response(ctx, name, res, rep, req_size, base, skeletons, appdocs):
    sig = 'service=%s,' % name.split('.')[0]
    if 'raised' in res:
        ctx.fail(sig + 'wsgi-raised', 'the WSGI application raised %s' % res['raised'], rep)
        return 'raised'
    status, headers, chunks = res['status'], res['headers'], res['chunks']
    if res['calls'] != 1 or not isinstance(status, str) or not re.match(r'^\d{3} \S', status) or not isinstance(headers, list):
        ctx.fail(sig + 'incomplete-response', 'start_response called %d times with status %r' % (res['calls'], status), rep)
        return 'incomplete'
    if any(not isinstance(c, bytes) for c in chunks):
        ctx.fail(sig + 'body-not-bytes', 'response body contains non-bytes chunks', rep)
        return 'incomplete'
    body = b''.join(chunks)
    hd = {}
    for h in headers:
        if not (isinstance(h, tuple) and len(h) == 2 and type(h[0]) is str and type(h[1]) is str):
            ctx.fail(sig + 'bad-header', 'header %r is not a pair of str' % (h,), rep)
            return 'incomplete'
        k, v = h
        try:
            (k + v).encode('latin-1')
            ok = not re.search(r'[\x00-\x08\x0a-\x1f\x7f]', k + v)
        except UnicodeEncodeError:
            ok = False
        if not ok:
            infofmt = None
            try:
                from urllib.parse import parse_qsl
                vals = [pv for pk, pv in parse_qsl(rep.get('QUERY_STRING') or '', True) if pk.lower() == 'info_format']
                infofmt = ','.join(vals) if vals else None          # RequestParams joins repeated parameters with a comma
            except Exception:  # noqa
                pass
            if k.lower() == 'content-type' and infofmt and v.startswith(infofmt) and not b''.join(chunks) and '.fi' in name:
                # finding C18-d: WMS GetFeatureInfo without any result answers Response('', mimetype=<raw INFO_FORMAT>)
                ctx.fail(FI_CT, 'WMS GetFeatureInfo without result declares the unvalidated INFO_FORMAT parameter %r as Content-type' % infofmt, rep)
                return 'incomplete'
            ctx.fail(sig + 'bad-header-value', 'header %s: %r cannot be sent (control or non latin-1 characters)' % (k, v[:80]), rep)
            return 'incomplete'
        hd[k.lower()] = v
    code = int(status[:3])
    cl = hd.get('content-length')
    if cl is not None and code != 304 and (not cl.isdigit() or int(cl) != len(body)):
        ctx.fail(sig + 'content-length', 'Content-length %r but %d body bytes' % (cl, len(body)), rep)
    ct = hd.get('content-type', '')
    kind = 'other'
    if (code in (204, 304) or code < 200) and body:
        # RFC 7230 3.3.3: these answers have no message body; whatever is sent is read as the start of the next response
        ctx.fail(sig + 'body-on-%d' % code, 'status %s with a body of %d bytes (Content-length %r)' % (status, len(body), cl), rep)
        return 'incomplete'
    if code == 304 or not body:
        return 'empty'
    if ct.startswith('image/'):
        kind = 'image'
        try:
            from PIL import Image
            im = Image.open(io.BytesIO(body))
            im.load()
            fmt = (im.format or '').lower()
            declared = ct.split(';')[0].split('/')[1].strip().lower()
            if {'jpg': 'jpeg'}.get(declared, declared) != fmt:
                ctx.fail(sig + 'image-type', 'declared %r but the body is %s' % (ct, fmt), rep)
            elif req_size is not None and code == 200 and im.size != req_size:
                ctx.fail(sig + 'image-size', 'requested %r, got %r' % (req_size, im.size), rep)
            elif req_size is None and ('tile' in name) and im.size != ((512, 512) if name.endswith('.big') else (256, 256)):
                ctx.fail(sig + 'image-size', 'tile of size %r, the layer has %s pixel tiles' % (im.size, '512' if name.endswith('.big') else '256'),
                         rep)
        except Exception as e:  # noqa
            ctx.fail(sig + 'image-undecodable', 'body declared %r does not decode: %s' % (ct, str(e)[:100]), rep)
        return kind
    # textual bodies
    try:
        text = body.decode('utf-8')
    except UnicodeDecodeError:
        if 'xml' in ct or 'html' in ct:
            ctx.fail(sig + 'not-utf8', 'textual body (%s) is not UTF-8' % ct, rep)
        return 'binary'
    for pat, whatp in (('Traceback (most recent call last)', 'a stack trace'), ('File "/', 'a python source path'),
                       (base, 'the cache directory of the server'),
                       (os.path.dirname(os.path.dirname(sys.modules['mapproxy'].__file__)) + '/mapproxy', 'the installation path')):
        if pat in text:
            ctx.fail(sig + 'leak', 'body contains %s (%r)' % (whatp, pat), rep)
            return 'leak'
    is_xml = 'xml' in ct or text.lstrip().startswith('<?xml')
    if is_xml:
        kind = 'xml'
        toks = py_tokenize(text)
        root = next((t for k, t in toks if k == 1 and not t.startswith(('?', '!'))), '')
        rootname = re.split(r'[\s/>]', root, 1)[0]
        is_exc = rootname in ('ServiceExceptionReport', 'ows:ExceptionReport', 'WMTException', 'TileMapServerError')
        bad = sorted(set(c for c in text if not xml_char_ok(c)))
        if is_exc:
            kind = 'xml-exception'
            sk = py_skeleton(toks)
            if sk not in skeletons:
                ctx.fail(sig + 'xml-skeleton-changed', 'exception document with an element structure that no handler produces for the '
                         'empty message: %r' % text[:300], rep)
                return kind
            tpl, ecode, eloc, cname = skeletons[sk]
            if bad:
                ctx.fail(XML_ILLEGAL, 'XML exception document (%s) contains characters that XML 1.0 cannot represent: %r' % (cname, bad[:5]), rep)
                # still hand the document to the model: message recovered with the tokenizer
                texts = [t for k, t in toks if k == 0 and t.strip(' \t\r\n')]
                import html
                msg = html.unescape(texts[0]) if len(texts) == 1 else None
            else:
                try:
                    from lxml import etree
                    rootel = etree.fromstring(body)
                    leaves = [e for e in rootel.iter() if len(e) == 0]
                    msg = (leaves[0].text or '') if len(leaves) == 1 else None
                except Exception as e:  # noqa
                    ctx.fail(sig + 'xml-not-wellformed', 'lxml rejects the exception document: %s; %r' % (str(e)[:100], text[:200]), rep)
                    return kind
                if msg is None:
                    ctx.fail(sig + 'xml-skeleton-changed', 'exception document without a single leaf element: %r' % text[:300], rep)
                    return kind
                if '\r' in text:
                    msg = None     # XML line-end normalisation: the parsed text is not the raw message
            if msg is not None and tpl == 'tpl_wms100exception':
                # <WMTException>\n{{exception}}\n</WMTException>
                msg = msg[1:-1] if (msg.startswith('\n') and msg.endswith('\n') and len(msg) >= 2) else None
            if msg is not None:
                appdocs.append((tpl, msg, ecode, eloc, text, rep))
        else:
            prob = xml_document_problem(body, text)
            if prob:
                ctx.fail(sig + prob[0], prob[1], rep)
                return kind
    elif 'html' in ct:
        kind = 'html'
        try:
            import lxml.html
            doc = lxml.html.document_fromstring(text)
            for el in doc.iter():
                if isinstance(el.tag, str) and (MARK.search(el.tag) or any(MARK.search(a) for a in el.attrib)):
                    ctx.fail(sig + 'html-injection', 'request text became markup: element <%s %s>' % (el.tag, ' '.join(el.attrib)), rep)
                    return kind
        except Exception as e:  # noqa
            ctx.fail(sig + 'html-unparsable', 'lxml.html cannot read the page: %s' % str(e)[:100], rep)
    else:
        kind = 'text'
    return kind


def part_welcome(ctx, app):
    """MapProxyApp.welcome_response against the generated model (Gen_exc_templates.welcome_response)"""
    try:
        import mapproxy.version
        from mapproxy.wsgiapp import MapProxyApp
        from mapproxy.util.escape import escape_html
        version = mapproxy.version.version
    except Exception as e:  # noqa
        ctx.problem('harness', 'cannot import wsgiapp: %r' % (e,))
        return

    class NoDemo(object):
        handlers = {}
    terms, descr = [], []
    for i in range(ctx.n(60, 600)):
        url = gen_string(ctx.rng)
        demo = ctx.rng.random() < 0.8
        arg = escape_html(url) if i % 2 == 0 else url          # the function itself is modelled for any argument
        try:
            resp = MapProxyApp.welcome_response(app if demo else NoDemo(), arg)
            body, ct = resp.response, resp.headers.get('Content-type', '')
        except Exception as e:  # noqa
            ctx.fail('welcome,raised', 'welcome_response raised %r' % (e,), {'script_url_code_points': cps(arg)})
            continue
        ctx.case(('welcome', arg, demo), any(c in url for c in SPECIAL))
        ctx.count('welcome:demo=%s' % demo)
        if not isinstance(body, str) or not ct.startswith('text/html'):
            ctx.fail('welcome,type', 'welcome_response answers %r / %r' % (type(body).__name__, ct), {'script_url_code_points': cps(arg)})
            continue
        if i % 2 == 0:
            sk = py_skeleton(py_tokenize(body))
            ref = py_skeleton(py_tokenize(MapProxyApp.welcome_response(app if demo else NoDemo(), 'X').response))
            if len(sk) != len(ref) or [t is None for t in sk] != [t is None for t in ref]:
                ctx.fail('welcome,structure', 'welcome page structure depends on the URL %r' % (url,), {'url_code_points': cps(url)})
        terms.append('(%s, %s, %s, %s)' % (slist(version), 'true' if demo else 'false', slist(arg), slist(body)))
        descr.append({'version': version, 'demo': demo, 'script_url': cps(arg), 'implementation_html': cps(body)})
    ctx.corr_check(
        'welcome', 'Escape Gen_exc_templates', 'list Z * bool * list Z * list Z', terms,
        "fun c => let '(v, demo, url, html) := c in str_eqb (welcome_response v demo url) html",
        lambda i: descr[i], shard=150)


CAP_DOCS = [('wms111.cap', '/service', 'service=WMS&request=GetCapabilities&version=1.1.1'),
            ('wms130.cap', '/service', 'service=WMS&request=GetCapabilities&version=1.3.0'),
            ('wms100.cap', '/service', 'wmtver=1.0.0&request=capabilities'),
            ('wms110.cap', '/service', 'service=WMS&request=GetCapabilities&version=1.1.0'),
            ('wmts.kvp.cap', '/service', 'service=WMTS&request=GetCapabilities&version=1.0.0'),
            ('wmts.rest.cap', '/wmts/1.0.0/WMTSCapabilities.xml', ''),
            ('tms.root', '/tms', ''), ('tms.cap', '/tms/1.0.0/', ''), ('tms.layercap', '/tms/1.0.0/cached/EPSG900913', '')]
CAP_HOSTS = [{'HTTP_HOST': '[2001:db8::1]:8080'}, {'HTTP_HOST': '[::1]'}, {'HTTP_HOST': 'a:b:c'}, {'HTTP_HOST': 'evil"><c18m x="'}, {'HTTP_X_FORWARDED_HOST': "a&b'><c18m>"}, {'HTTP_X_FORWARDED_PROTO': '"><c18m x="'},
             {'HTTP_HOST': 'h<c18m>:8080'}, {'HTTP_X_FORWARDED_HOST': 'proxy.example, other', 'HTTP_X_FORWARDED_PROTO': 'https'},
             {'HTTP_HOST': 'localhost:80'}, {'HTTP_HOST': 'h\xe4st.example'}, {'HTTP_X_FORWARDED_PROTO': "java'script"},
             {'HTTP_HOST': '&amp;&lt;'}, {'HTTP_X_FORWARDED_HOST': '</Service><c18m/>'}]


def part_capabilities(ctx, app):
    """Capabilities documents as `fill segs (escape_html host_url)`: the segments are taken from the document for a benign
    host; for hostile Host / X-Forwarded-* values the real document must be exactly the same segments filled with the
    model's escape_html of the host URL that the real Request computes (theorem capabilities_structure_independent_of_host
    then says that its token structure is that of the benign document)."""
    try:
        from mapproxy.request.base import Request
    except Exception as e:  # noqa
        ctx.problem('harness', 'cannot import mapproxy.request.base: %r' % (e,))
        return
    marker_host = 'hostmarker.c18.example'
    defs, terms, descr = [], [], []
    docs = CAP_DOCS if not ctx.quick else [CAP_DOCS[i] for i in (0, 1, 4, 5, 7, 8)]
    for k, (name, path, qs) in enumerate(docs):
        res = call_app(app, path, qs, {'HTTP_HOST': marker_host})
        if 'chunks' not in res or not (res.get('status') or '').startswith('200'):
            ctx.fail('capabilities,no-answer', 'no capabilities document for %s: %r' % (name, res.get('status') or res.get('raised')),
                     {'service': name, 'PATH_INFO': path, 'QUERY_STRING': qs})
            continue
        ref = b''.join(res['chunks']).decode('utf-8', 'replace')
        marker = 'http://' + marker_host
        parts = ref.split(marker)
        if len(parts) < 2:
            ctx.problem('harness', 'the capabilities document %s does not mention the request host' % name)
            continue
        ref_shape = [t[0] for t in py_tokenize(ref)]
        segs = []
        for i, ptxt in enumerate(parts):
            if i:
                segs.append('Ins')
            segs.append('Fix %s' % slist(ptxt))
        defs.append('Definition segs_%d : list seg := [%s].' % (k, '; '.join(segs)))
        hosts = CAP_HOSTS if not ctx.quick else [CAP_HOSTS[(2 * k + j) % len(CAP_HOSTS)] for j in (0, 1)]
        for hdr in hosts:
            hdr = dict((h, v.encode('utf-8').decode('latin-1')) for h, v in hdr.items())     # PEP 3333 header text
            res = call_app(app, path, qs, hdr)
            rep = {'service': name, 'PATH_INFO': path, 'QUERY_STRING': qs, 'headers': hdr, 'status': res.get('status')}
            ctx.case(('capabilities', name, tuple(sorted(hdr.items()))), True,
                     {'part': 'capabilities', 'document': name, 'headers': hdr})
            ctx.count('capabilities:doc=' + name)
            if 'chunks' not in res:
                ctx.fail('service=%s,wsgi-raised' % name.split('.')[0], 'the WSGI application raised %s' % res.get('raised'), rep)
                continue
            badh = [(hk, hv) for hk, hv in (res.get('headers') or []) if re.search(r'[\x00-\x08\x0a-\x1f\x7f]', str(hk) + str(hv))]
            if badh:
                ctx.fail('service=%s,bad-header-value' % name.split('.')[0], 'header %r cannot be sent (control characters)' % (badh[0],), rep)
                continue
            try:
                doc = b''.join(res['chunks']).decode('utf-8')
            except UnicodeDecodeError:
                ctx.fail('capabilities,not-utf8', 'capabilities document %s is not UTF-8' % name, rep)
                continue
            env = {'SERVER_NAME': 'localhost', 'SERVER_PORT': '80', 'wsgi.url_scheme': 'http', 'HTTP_HOST': 'localhost', 'SCRIPT_NAME': ''}
            env.update(hdr)
            try:
                raw = Request(env).host_url.rstrip('/')
            except Exception as e:  # noqa
                ctx.fail('capabilities,host-url-raised', 'Request.host_url raised %r' % (e,), rep)
                continue
            shp = [t[0] for t in py_tokenize(doc)]
            if shp != ref_shape:
                ctx.fail('capabilities,structure-depends-on-host', 'the token structure of %s changes with the request host %r (%d tokens instead '
                         'of %d)' % (name, hdr, len(shp), len(ref_shape)), rep)
            else:
                prob = xml_document_problem(doc.encode('utf-8'), doc)
                if prob:
                    ctx.fail('service=%s,%s' % (name.split('.')[0], prob[0]), prob[1], rep)
            terms.append('(segs_%d, %s, %s)' % (k, slist(raw), slist(doc)))
            descr.append(dict(rep, host_url_of_Request=cps(raw), document_head=doc[:300]))
    ctx.corr_check('capabilities', 'Escape', 'list seg * list Z * list Z', terms,
                   "fun c => let '(segs, raw, doc) := c in str_eqb (fill segs (escape_html raw)) doc",
                   lambda i: descr[i], shard=3, defs='\n'.join(defs))


ROOT_HEADERS = [{'HTTP_HOST': 'example.org" onmouseover="alert(1)'}, {'HTTP_HOST': "example.org' onmouseover='alert(1)"},
                {'HTTP_HOST': 'example.org"><script>alert(1)</script>'}, {'HTTP_X_FORWARDED_HOST': 'evil.example"><img src=x onerror=alert(1)>'},
                {'HTTP_X_FORWARDED_PROTO': 'javascript:alert(1)//"><img src=x>'}, {'HTTP_X_FORWARDED_PROTO': 'https" x="'},
                {'HTTP_X_FORWARDED_HOST': 'a, b"><b>', 'HTTP_X_FORWARDED_PROTO': 'https'}, {'HTTP_HOST': 'h</a><a href="//evil.example/'},
                {'HTTP_HOST': '[::1]:8080'}, {'HTTP_HOST': 'h&amp;quot;&lt;'}, {'HTTP_HOST': 'h\xe4st" x="\xe9'},
                {'HTTP_X_SCRIPT_NAME': '/pre"fix<b>'}, {'SCRIPT_NAME': '/pre"><b>fix'}, {'SCRIPT_NAME': "/pre' x='"},
                {'HTTP_HOST': 'example.org"', 'SCRIPT_NAME': '/" onmouseover="alert(1)'}]
HTML_PAGES = [('root', '/', ''), ('root', '', ''), ('demo.index', '/demo/', ''), ('demo.wms', '/demo/', 'wms_layer=cached&format=png&srs=EPSG%3A4326'),
              ('demo.tms', '/demo/', 'tms_layer=cached&format=png&srs=EPSG%3A900913'),
              ('demo.wmts', '/demo/', 'wmts_layer=cached&format=png&srs=EPSG%3A900913')]


def html_structure(text):
    """(lxml element structure: tags with their sorted attribute names, token kinds of the minimal tokenizer)"""
    import lxml.html
    doc = lxml.html.document_fromstring(text)
    els = [(el.tag, tuple(sorted(el.attrib))) for el in doc.iter() if isinstance(el.tag, str)]
    return els, [t[0] for t in py_tokenize(text)]


def part_html_pages(ctx, app):
    """Deterministic probe (independent of the seed): the HTML pages of the application (welcome page for path '' and '/', demo
    pages) requested with Host / X-Forwarded-Host / X-Forwarded-Proto / script names that contain quote characters and markup
    WITHOUT any marker.  Oracle: the element structure (lxml: tags and attribute names in document order; the minimal tokenizer:
    number and kinds of tokens) is that of the page for a benign host - request-derived text creates no element, no attribute
    and ends no tag (property: `fixed element structure with request-derived text appearing only as escaped character data`)."""
    for name, path, qs in HTML_PAGES:
        ref = call_app(app, path, qs, {'HTTP_HOST': 'benign.example'})
        rep0 = {'service': name, 'PATH_INFO': path, 'QUERY_STRING': qs, 'headers': {'HTTP_HOST': 'benign.example'}}
        if 'chunks' not in ref or not (ref.get('status') or '').startswith('200'):
            ctx.fail('service=%s,no-page' % name.split('.')[0], 'no HTML page for %s: %r' % (name, ref.get('status') or ref.get('raised')), rep0)
            continue
        try:
            ref_struct = html_structure(b''.join(ref['chunks']).decode('utf-8'))
        except Exception as e:  # noqa
            ctx.fail('service=%s,html-unparsable' % name.split('.')[0], 'the page for a benign host cannot be read: %r' % (e,), rep0)
            continue
        for hdr in ROOT_HEADERS:
            hdr = dict((h, v.encode('utf-8').decode('latin-1')) for h, v in hdr.items())     # PEP 3333 header text
            res = call_app(app, path, qs, hdr)
            rep = {'service': name, 'PATH_INFO': path, 'QUERY_STRING': qs, 'headers': hdr, 'upstream': 'ok', 'status': res.get('status'),
                   'body_head': repr(b''.join(res.get('chunks') or [])[:300]) if 'chunks' in res else None}
            sig = 'service=%s,' % name.split('.')[0]
            ctx.case(('htmlpage', name, path, tuple(sorted(hdr.items()))), True, {'part': 'htmlpage', 'page': name, 'PATH_INFO': path, 'headers': hdr})
            ctx.count('htmlpage:' + name)
            if 'chunks' not in res:
                ctx.fail(sig + 'wsgi-raised', 'the WSGI application raised %s' % res.get('raised'), rep)
                continue
            if not (res.get('status') or '').startswith('200'):
                ctx.fail(sig + 'html-status-depends-on-host', 'status %r instead of 200 for the headers %r' % (res.get('status'), hdr), rep)
                continue
            try:
                struct = html_structure(b''.join(res['chunks']).decode('utf-8'))
            except Exception as e:  # noqa
                ctx.fail(sig + 'html-unparsable', 'the page cannot be read: %r' % (e,), rep)
                continue
            if struct[0] != ref_struct[0]:
                extra = [e for e in struct[0] if e not in ref_struct[0]][:3]
                ctx.fail(sig + 'html-injection', 'the element structure of the HTML page depends on request headers %r: elements / attributes '
                         'that the page for a benign host does not have: %r' % (hdr, extra), rep)
            elif struct[1] != ref_struct[1]:
                ctx.fail(sig + 'html-injection', 'the token structure of the HTML page depends on request headers %r (%d tokens instead of %d)'
                         % (hdr, len(struct[1]), len(ref_struct[1])), rep)


STATIC_MISSING = ['/demo/static/nonexistent.js', '/demo/static/', '/demo/static/img', '/demo/static/site.css/x', '/demo/static/a b.css',
                  '/demo/static/<c18m>.js', '/demo/static/%2e%2e/x', '/demo/static/x\r\nSet-Cookie: a=b', '/demo/static/x\x00y',
                  '/demo/static/\xc3\xbc\xc3\xb1.css', '/demo/static//etc/passwd', '/demo/static/../static/site.css',
                  '/demo/static/site.css']


def server_paths_in(text, extra=()):
    """absolute paths named in `text` that exist on this machine (two or more components), plus the given directories"""
    found = [d for d in extra if d and d in text]
    for m in re.finditer(r'(?<![\w:/.])/[\w.+-]+(?:/[\w.+-]+)+', text):
        p = m.group(0)
        parts = p.split('/')
        for n in range(len(parts), 2, -1):
            cand = '/'.join(parts[:n])
            if os.path.exists(cand):
                found.append(cand)
                break
    return found


def part_demo_static(ctx, app, base):
    """Deterministic probe (independent of the seed): the static-file branch of the demo service (DemoServer.handle) with names
    that are no regular file (missing, a directory, below a file, markup, control characters, `..`), on the application with the
    packaged templates and on an instance with `globals.template_dir` configured.  Oracle: complete answer (oracle_response) and no
    textual body names a directory of the server (installation directory, configured template directory, configuration / cache
    directory, any absolute path that exists on this machine) - property: `never contain a stack trace or file-system path of the
    server`."""
    from mapproxy.wsgiapp import make_wsgi_app
    import shutil
    inst = os.path.dirname(os.path.abspath(sys.modules['mapproxy'].__file__))
    tpl = os.path.join(base, 'tpl')
    app2 = None
    try:
        os.makedirs(os.path.join(tpl, 'demo', 'static', 'img'))
        shutil.copy(os.path.join(inst, 'service', 'templates', 'demo', 'static', 'site.css'), os.path.join(tpl, 'demo', 'static', 'site.css'))
        conf3 = os.path.join(base, 'mapproxy-tpl.yaml')
        with open(conf3, 'w') as f:
            f.write((CONF % {'base': base}).replace('globals:\n', 'globals:\n  template_dir: %s\n' % tpl, 1))
        app2 = make_wsgi_app(conf3)
    except Exception as e:  # noqa
        ctx.problem('harness', 'the application with globals.template_dir could not be built: %r' % (e,))
    for label, a in (('packaged templates', app), ('globals.template_dir configured', app2)):
        if a is None:
            continue
        for i, p in enumerate(STATIC_MISSING):
            hdr = {'wsgi.file_wrapper': True} if i % 2 else {}
            UP['mode'] = 'ok'
            res = call_app(a, p, None if i % 3 == 0 else '', hdr)
            rep = {'service': 'demo.static', 'instance': label, 'PATH_INFO': p, 'QUERY_STRING': None if i % 3 == 0 else '', 'headers': hdr,
                   'upstream': 'ok', 'status': res.get('status'),
                   'body_head': repr(b''.join(res.get('chunks') or [])[:300]) if 'chunks' in res else None}
            ctx.case(('demostatic', label, p), True, {'part': 'demostatic', 'instance': label, 'PATH_INFO': p})
            kind = oracle_response(ctx, 'demo.static', res, rep, None, base, {}, [])
            ctx.count('demostatic:status=' + (res.get('status') or 'raised')[:3])
            if 'chunks' not in res or kind in ('leak', 'incomplete', 'raised'):
                continue
            code = (res.get('status') or '')[:3]
            last = p == '/demo/static/site.css'
            if (code == '200') != last or code not in ('200', '404'):
                ctx.fail('service=demo,static-status', 'status %r for the static file name %r (%s)' % (res.get('status'), p,
                         'an existing file' if last else 'not a regular file below the static directory'), rep)
                continue
            if code == '404':
                try:
                    text = b''.join(res['chunks']).decode('utf-8')
                except UnicodeDecodeError:
                    text = b''.join(res['chunks']).decode('latin-1')
                named = server_paths_in(text, (inst, tpl, base, os.path.dirname(inst)))
                if named:
                    ctx.fail('service=demo,leak', 'the 404 answer for a missing static file names server path(s) %r' % (named[:3],), rep)


def part_host(ctx):
    """Request.host / url_scheme / host_url against Escape.host / url_scheme / host_url on generated environs"""
    try:
        from mapproxy.request.base import Request
    except Exception as e:  # noqa
        ctx.problem('harness', 'cannot import mapproxy.request.base: %r' % (e,))
        return
    rng = ctx.rng
    spaces = ['', ' ', '\t', '\x0b', '\x1c', '\x85', '\xa0', '\u2003', '\u3000', '\u200b', '\ufeff']

    def hostval():
        r = rng.random()
        if r < 0.45:
            v = rng.choice(HOST_FORMS + ['example.org', 'example.org:8080', 'a,b', 'a:80,b:443', ',', ',x', '', ':443', 'h:443', 'h:80', 'h:080',
                                         'h:80 ', 'h: 80', 'H:80:x', '[::]:443', 'x:443:80'])
        elif r < 0.7:
            v = ''.join(rng.choice(['a', 'b', ':', ':', ',', '80', '443', '[', ']', '.', ' ', '\xa0', 'é', '<', '"']) for _ in range(rng.randrange(0, 7)))
        else:
            v = gen_string(rng, surrogates=False, maxlen=8)
        return rng.choice(spaces) + v + rng.choice(spaces) if rng.random() < 0.3 else v
    terms, descr = [], []
    for _ in range(ctx.n(200, 3000)):
        xfh = hostval() if rng.random() < 0.35 else None
        hh = hostval() if rng.random() < 0.75 else None
        xfp = rng.choice([None, None, '', 'http', 'https', 'HTTPS', 'ftp', ' https', '"><c18m>'])
        scheme = rng.choice(['http', 'https'])
        sname = rng.choice(['localhost', '127.0.0.1', '::1', 'srv.example'])
        sport = rng.choice(['80', '443', '8080', '', '080'])
        env = {'wsgi.url_scheme': scheme, 'SERVER_NAME': sname, 'SERVER_PORT': sport}
        if xfh is not None:
            env['HTTP_X_FORWARDED_HOST'] = xfh
        if hh is not None:
            env['HTTP_HOST'] = hh
        if xfp is not None:
            env['HTTP_X_FORWARDED_PROTO'] = xfp
        rep = {'environ': dict(env)}
        try:
            req = Request(dict(env))
            h, sc, hu = req.host, req.url_scheme, req.host_url
            if not (isinstance(h, str) and isinstance(sc, str) and isinstance(hu, str)):
                raise TypeError('not a str')
        except Exception as e:  # noqa
            ctx.fail('host,raised', 'Request.host / host_url raised %s: %s for %r' % (type(e).__name__, e, env), rep)
            h = sc = hu = None
        ctx.case(('host', xfh, hh, xfp, scheme, sname, sport), hh is not None and ':' in hh or xfh is not None,
                 {'part': 'host', 'environ': env, 'host': h} if hh and hh.count(':') > 1 else None)
        ctx.count('host:colons=%s' % (min((hh or '').count(':'), 3) if xfh is None else 'x-forwarded-host'))
        terms.append('(%s, %s, %s, %s, %s, %s, %s, %s, %s)' % (olit(xfh, slist), olit(hh, slist), olit(xfp, slist), slist(scheme), slist(sname),
                                                          slist(sport), olit(h, slist), olit(sc, slist), olit(hu, slist)))
        descr.append(dict(rep, implementation={'host': h, 'url_scheme': sc, 'host_url': hu}))
    ctx.corr_check(
        'host', 'Escape',
        'option (list Z) * option (list Z) * option (list Z) * list Z * list Z * list Z * option (list Z) * option (list Z) * option (list Z)',
        terms,
        "fun c => let '(xfh, hh, xfp, sch, sn, sp, oh, osc, ohu) := c in "
        "let e := {| x_fwd_host := xfh; http_host := hh; x_fwd_proto := xfp; wsgi_scheme := sch; server_name := sn; server_port := sp |} in "
        "opt_eqb str_eqb (host e) oh && opt_eqb str_eqb (host_url e) ohu && "
        "match osc with Some x => str_eqb (url_scheme e) x | None => true end",
        lambda i: descr[i])


def part_url(ctx):
    """Request.script_url / Request.base_url (urllib.parse.quote of SCRIPT_NAME and PATH_INFO appended to the host URL) against
    Escape.script_url / Escape.base_url / Escape.quote on generated environs; None = the property raised."""
    try:
        from mapproxy.request.base import Request
        from urllib.parse import quote as py_quote
    except Exception as e:  # noqa
        ctx.problem('harness', 'cannot import mapproxy.request.base: %r' % (e,))
        return
    rng = ctx.rng
    names = [None, '', '/', '//', '/pre', '/pre/', '/pre//', '/a"b<c18m>', "/x'y", '/a&b', '/a b', '/%41', '/~user/_a.b-c', '/\xc3\xa4', '/\xff',
             'noslash', '/€', '/\U0001f600/', '/\x00\x7f']
    paths = [None, '', '/', '/service', '/wmts/1.0.0/WMTSCapabilities.xml', '/x y', '/%', '/"><c18m>', '/\xe4', '/tms/', '/a;b?c#d']
    fixed = [({'HTTP_HOST': 'h"x'}, '/p"<\xe9/', None), ({'HTTP_HOST': 'h"x'}, None, '/<'), ({}, '/\ud800', '/'), ({}, '/', '/\udfff')]
    terms, descr = [], []
    for k in range(ctx.n(150, 2500)):
        if k < len(fixed):
            hdr, sn, pi = fixed[k]
        else:
            hdr = {}
            r = rng.random()
            if r < 0.4:
                hdr['HTTP_HOST'] = rng.choice(HOST_FORMS + ['example.org', 'h"<c18m>', "h'&", 'h/'])
            elif r < 0.6:
                hdr['HTTP_X_FORWARDED_HOST'] = rng.choice(['proxy.example, other', 'p"<c18m>', ' p ', 'p//'])
            if rng.random() < 0.3:
                hdr['HTTP_X_FORWARDED_PROTO'] = rng.choice(['https', 'ftp', '"><c18m>', 'http/'])
            sn = rng.choice(names) if rng.random() < 0.7 else gen_string(rng, maxlen=6)
            pi = rng.choice(paths) if rng.random() < 0.7 else gen_string(rng, maxlen=6)
        scheme, sname, sport = rng.choice(['http', 'https']), 'srv.example', rng.choice(['80', '443', '8080'])
        env = {'wsgi.url_scheme': scheme, 'SERVER_NAME': sname, 'SERVER_PORT': sport}
        env.update(hdr)
        if sn is not None:
            env['SCRIPT_NAME'] = sn
        if pi is not None:
            env['PATH_INFO'] = pi
        rep = {'environ': dict((a, cps(b)) for a, b in env.items())}
        lone = any(0xd800 <= ord(c) <= 0xdfff for c in (sn or '') + (pi or ''))
        obs = {}
        for attr in ('script_url', 'base_url'):
            try:
                v = getattr(Request(dict(env)), attr)
                obs[attr] = v if isinstance(v, str) else None
            except Exception as e:  # noqa
                obs[attr] = None
                if not any(0xd800 <= ord(c) <= 0xdfff for c in (sn or '') + ((pi or '') if attr == 'base_url' else '')):
                    ctx.fail('url,raised', 'Request.%s raised %s: %s' % (attr, type(e).__name__, e), rep)
        try:
            qv = py_quote(sn or '')
        except Exception:  # noqa
            qv = None
        if obs['base_url'] is not None and any(c in obs['base_url'] for c in '<>"\''):
            ctx.fail('url,base_url-markup', 'Request.base_url contains markup characters: %r' % (obs['base_url'],), rep)
        ctx.case(('url', tuple(sorted(env.items()))), any(c in (sn or '') + (pi or '') for c in SPECIAL + ['%', ' ']) or lone,
                 {'part': 'url', 'environ': rep['environ'], 'base_url': obs['base_url']} if lone else None)
        ctx.count('url:script_name=%s' % ('absent' if sn is None else 'surrogate' if lone else 'present'))
        g = lambda key: olit(env.get(key), slist)  # noqa
        terms.append('(%s, %s, %s, %s, %s, %s, (%s, %s), (%s, %s, %s))' % (
            g('HTTP_X_FORWARDED_HOST'), g('HTTP_HOST'), g('HTTP_X_FORWARDED_PROTO'), slist(scheme), slist(sname), slist(sport),
            olit(sn, slist), olit(pi, slist), olit(obs['script_url'], slist), olit(obs['base_url'], slist), olit(qv, slist)))
        descr.append(dict(rep, implementation={'script_url': obs['script_url'], 'base_url': obs['base_url'], 'quote(SCRIPT_NAME)': qv}))
    ctx.corr_check(
        'url', 'Escape',
        'option (list Z) * option (list Z) * option (list Z) * list Z * list Z * list Z * (option (list Z) * option (list Z)) * '
        '(option (list Z) * option (list Z) * option (list Z))',
        terms,
        "fun c => let '(xfh, hh, xfp, sch, sn, sp, (scr, pth), (osu, obu, oq)) := c in "
        "let e := {| x_fwd_host := xfh; http_host := hh; x_fwd_proto := xfp; wsgi_scheme := sch; server_name := sn; server_port := sp |} in "
        "opt_eqb str_eqb (script_url e scr) osu && opt_eqb str_eqb (base_url e scr pth) obu && "
        "opt_eqb str_eqb (quote (opt_default [] scr)) oq",
        lambda i: descr[i])


def part_app(ctx, skeletons):
    logging.disable(logging.CRITICAL)
    try:
        app, base, faulty = build_app(ctx)
    except Exception as e:  # noqa
        import traceback
        ctx.problem('harness', 'cannot build the application: %r' % (e,), traceback.format_exc())
        return
    part_welcome(ctx, app)
    part_capabilities(ctx, app)
    part_html_pages(ctx, app)
    part_demo_static(ctx, app, base)
    bases = base_requests()
    appdocs = []
    stream = []
    for name, path, pairs in bases:                      # valid requests first
        stream.append((name, path, pairs, {}, None, 'valid', 'ok'))
    k = 0
    for name, path, pairs in bases:                      # valid requests whose upstream fails / answers garbage
        for up in ('error', 'garbage', 'oserror'):
            k += 1
            p2, q2 = fresh(path, pairs, k)
            stream.append((name, p2, q2, {}, None, 'valid', up))
    # sequences within this one application instance: a tile outside / at the border of the authorized area, for the layer with
    # 256 pixel tiles and then for the layer with 512 pixel tiles (and the other way round), every tile service
    authz = {'mapproxy.authorize': 'limited'}
    by_name = dict((n, (pth, prs)) for n, pth, prs in bases)
    for svc in ('tms.tile', 'wmts.rest.tile', 'wmts.kvp.tile', 'tiles.tile', 'kml.tile'):
        for order in ((svc, svc + '.big'), (svc + '.big', svc)):
            for i in (17, 8 * 16 + 8):             # fresh(): tile 4/1/1 (outside the area), tile 4/8/8 (intersects it)
                for nm in order:
                    pth, prs = fresh(by_name[nm][0], by_name[nm][1], i)
                    stream.append((nm, pth, prs, dict(authz), None, 'valid', 'ok'))
    for nm in ('wms111.map', 'wms130.map', 'wms111.map.decimal', 'wms111.fi', 'kml.root', 'tms.cap', 'wmts.kvp.cap', 'demo.index'):
        stream.append((nm, by_name[nm][0], by_name[nm][1], dict(authz), None, 'valid', 'ok'))
    # PATH_INFO as a real WSGI server delivers it (PEP 3333: the percent-decoded bytes as latin-1 text): byte sequences that
    # are not valid UTF-8, for every service prefix
    for rawp in ('/\xff', '/\xe4', '/service\xff', '/service/\xe4', '/ows/\xfe\xff', '/wms\xc3', '/tms/1.0.0/l\xe4yer/0/0/0.png',
                 '/tms/1.0.0/cached/EPSG900913/1/0/1.png\xff', '/tms/\xe4', '/tms/1.0.0/\xc3\x28', '/tiles/l\xe4yer/0/0/0.png',
                 '/tiles/\xff/EPSG900913/1/0/1.png', '/kml/l\xe4yer/EPSG900913/0/0/0.kml', '/kml/cached/\xe4/0/0/0.kml',
                 '/wmts/l\xe4yer/GLOBAL_MERCATOR/1/0/1.png', '/wmts/cached/\xa0\xa1/1/0/1.png', '/wmts/1.0.0/\xffWMTSCapabilities.xml',
                 '/demo/\xe4', '/demo/static/\xff.css', '/demo\xe4/', '/\xe4\xf6\xfc/\xdf', '/nothing/\x80'):
        stream.append(('rawpath.' + (rawp.split('/')[1][:8] or 'root'), RawPath(rawp), [], {}, None, 'non-UTF-8 path bytes', 'ok'))
        stream.append(('rawpath.' + (rawp.split('/')[1][:8] or 'root'), RawPath(rawp), [('service', 'WMS'), ('request', 'GetCapabilities')], {}, None,
                       'non-UTF-8 path bytes', 'ok'))
    # percent escapes that are not UTF-8 (%FF, a lone continuation byte, an encoded surrogate, ..) in every parameter of every request
    from urllib.parse import quote as _quote
    for bi, (name, path, pairs) in enumerate(bases):
        for i, (key, val) in enumerate(pairs):
            for j, esc in enumerate(NON_UTF8):
                if ctx.quick and (bi + i + j) % 3:
                    continue
                for v2 in (Encoded(_quote(val, safe='/:,') + esc), Encoded(esc)):
                    q2 = list(pairs)
                    q2[i] = (key, v2)
                    stream.append((name, path, q2, {}, None, 'non-UTF-8 escape in %s' % key, 'ok'))
    # capabilities documents requested through paths / script names with sub-delimiters and markup (they end up in Request.base_url)
    for name, path, pairs in bases:
        if 'cap' not in name and name not in ('tms.root', 'kml.root', 'demo.index', 'root'):
            continue
        for extra in ('/a&b', "/x'y", '/<c18m>', '/a;b=c', '/"q"', '/a b', '/%26'):
            if path in ('/service', '/ows'):
                stream.append((name, path + extra, pairs, {}, None, 'extra path segment', 'ok'))
            stream.append((name, path, pairs, {'HTTP_X_SCRIPT_NAME': '/pre' + extra[1:]}, None, 'script name', 'ok'))
    # every form of Host header for every service
    for i, (name, path, pairs) in enumerate(bases):
        for j in range(len(HOST_FORMS) if not ctx.quick else 3):
            hv = HOST_FORMS[(i * 3 + j) % len(HOST_FORMS)]
            stream.append((name, path, pairs, {'HTTP_HOST': hv}, None, 'host form', 'ok'))
    # every parameter that names a format / media type, with parameter tails, case changes and line ends appended to the VALID value
    for name, path, pairs in bases:
        for i, (key, val) in enumerate(pairs):
            if key.lower() not in ('format', 'info_format', 'infoformat', 'exceptions', 'type') and ctx.quick:
                continue
            for tail in FORMAT_TAILS:
                q2 = list(pairs)
                q2[i] = (key, val + tail)
                stream.append((name, path, q2, {}, None, 'tail on %s' % key, 'ok'))
                if '.fi' in name:
                    stream.append((name, path, q2, {'mapproxy.authorize': 'limited'}, None, 'tail on %s, no result' % key, 'ok'))
            if val.upper() != val:
                q2 = list(pairs)
                q2[i] = (key, val.upper())
                stream.append((name, path, q2, {}, None, 'upper case %s' % key, 'ok'))
    # demo pages: every parameter of every page with hostile values (with and without `/`, quotes, script end tags)
    demo_hostile = ['"><c18m x="', "'><c18m x='", '</script><c18m>', 'image/png"><c18m x="', "image/png'><c18m x='",
                    'image/</script><c18m>', 'a/b<c18m>', 'EPSG:4326"><c18m x="', 'EPSG:900913</script><c18m>', '<c18m>',
                    'cached"><c18m x="', 'png<c18m>', '../<c18m>']
    for name, path, pairs in bases:
        if not name.startswith('demo.') or not pairs:
            continue
        for i, (key, _v) in enumerate(pairs):
            for hv in demo_hostile:
                q2 = list(pairs)
                q2[i] = (key, hv)
                stream.append((name, path, q2, {}, None, 'demo value %s' % key, 'ok'))
                q3 = list(pairs)
                q3[i] = (key, pairs[i][1] + hv)
                stream.append((name, path, q3, {}, None, 'demo suffix %s' % key, 'ok'))
    # corpus
    cdir = os.path.join(VERIF, 'corpus', 'C18')
    if os.path.isdir(cdir):
        import json
        for fn in sorted(os.listdir(cdir)):
            if fn.endswith('.json'):
                try:
                    c = json.load(open(os.path.join(cdir, fn)))
                    for r in c.get('requests', []):
                        stream.append((r.get('name', 'corpus.x'), r['path'], [tuple(p) for p in r.get('query', [])], r.get('headers', {}),
                                       r.get('raw_query'), 'corpus ' + fn, r.get('upstream', 'ok')))
                except Exception as e:  # noqa
                    ctx.problem('harness', 'unreadable corpus file %s: %r' % (fn, e))
    n = ctx.n(800, 12000)
    for _ in range(n):
        name, path, pairs = ctx.rng.choice(bases)
        if ctx.rng.random() < 0.4:
            path, pairs = fresh(path, pairs, ctx.rng.randrange(256))
        p2, q2, h2, raw, what = mutate(ctx.rng, name, path, pairs)
        up = ctx.rng.choice(['ok', 'ok', 'ok', 'ok', 'error', 'garbage', 'oserror'])
        if ctx.rng.random() < 0.12:
            h2 = dict(h2, **{'mapproxy.authorize': 'limited'})
        stream.append((name, p2, q2, h2, raw, what, up))
    for idx, (name, path, pairs, headers, raw, what, up) in enumerate(stream):
        qs = raw if raw is not None else enc_query(pairs, ctx.rng, raw_prob=0.15 if what != 'valid' else 0.0)
        wpath = wsgi_path(path, what != 'valid' and ctx.rng.random() < 0.5)
        UP['mode'] = up
        no_qs = qs == '' and idx % 2 == 0          # every second request without query: the environ has no QUERY_STRING key
        if idx % 3 == 1 or what == 'valid':
            headers = dict(headers, **{'wsgi.file_wrapper': True})     # the server offers wsgi.file_wrapper
        res = call_app(app, wpath, None if no_qs else qs, headers)
        rep = {'service': name, 'PATH_INFO': wpath, 'QUERY_STRING': None if no_qs else qs, 'headers': headers, 'upstream': up, 'mutation': what,
               'status': res.get('status'), 'body_head': repr(b''.join(res.get('chunks') or [])[:300]) if 'chunks' in res else None}
        req_size = requested_size(name, path, pairs) if raw is None else None
        kind = oracle_response(ctx, name, res, rep, req_size, base, skeletons, appdocs)
        status = (res.get('status') or 'raised')[:3]
        ctx.case(('app', wpath, qs, no_qs, tuple(sorted(headers.items())), up), what != 'valid',
                 {'part': 'app', 'PATH_INFO': wpath, 'QUERY_STRING': qs[:200], 'headers': headers, 'status': res.get('status')}
                 if what != 'valid' and kind == 'xml-exception' else None)
        ctx.count('app:service=' + name.split('.')[0])
        ctx.count('app:status=' + status)
        ctx.count('app:answer=' + kind)
        if status == '500' and kind == 'text':
            ctx.count('app:catch-all-internal-error')
    # conditional requests built from the validators of a first answer (history of two requests within one instance)
    for name, path, pairs in bases:
        qs = enc_query(pairs, ctx.rng)
        UP['mode'] = 'ok'
        first = call_app(app, path, qs, {})
        hd1 = dict((str(k).lower(), v) for k, v in (first.get('headers') or []) if isinstance(v, str))
        etag, lm = hd1.get('etag'), hd1.get('last-modified')
        conds = [{'HTTP_IF_MODIFIED_SINCE': 'Fri, 01 Jan 2100 00:00:00 GMT'}, {'HTTP_IF_MODIFIED_SINCE': 'Sun, 06 Nov 2094 08:49:37 GMT'}]
        if etag:
            conds += [{'HTTP_IF_NONE_MATCH': etag}, {'HTTP_IF_NONE_MATCH': etag, 'HTTP_IF_MODIFIED_SINCE': 'Thu, 01 Jan 1970 00:00:00 GMT'},
                      {'HTTP_IF_NONE_MATCH': '"other"', 'HTTP_IF_MODIFIED_SINCE': 'Fri, 01 Jan 2100 00:00:00 GMT'}]
        if lm:
            conds += [{'HTTP_IF_MODIFIED_SINCE': lm}]
        if not (etag or lm):
            conds = conds[:1]
        for ci, hdr in enumerate(conds):
            if ci % 2:
                hdr = dict(hdr, **{'wsgi.file_wrapper': True})
            res = call_app(app, path, qs, hdr)
            rep = {'service': name, 'PATH_INFO': path, 'QUERY_STRING': qs, 'headers': hdr, 'upstream': 'ok',
                   'history': 'the same request answered %s with ETag %r, Last-modified %r immediately before' % (first.get('status'), etag, lm),
                   'status': res.get('status'), 'body_head': repr(b''.join(res.get('chunks') or [])[:120]) if 'chunks' in res else None}
            kind = oracle_response(ctx, name, res, rep, requested_size(name, path, pairs), base, skeletons, appdocs)
            ctx.case(('conditional', path, qs, tuple(sorted(hdr.items()))), True)
            ctx.count('conditional:status=' + (res.get('status') or 'raised')[:3])
    # schedules of two overlapping requests in one instance (a threaded server): both WSGI callables have run before the first
    # body is read; read order A,B and B,A.  Pairs: the same blank tile twice, blank tile + other tile, any two valid requests.
    by_name = dict((n, (pth, prs)) for n, pth, prs in bases)
    pairs_ab = []
    authz = {'mapproxy.authorize': 'limited'}
    for svc in ('tms.tile', 'wmts.rest.tile', 'wmts.kvp.tile', 'tiles.tile', 'kml.tile', 'tms.tile.big', 'wmts.rest.tile.big'):
        pth, prs = fresh(by_name[svc][0], by_name[svc][1], 17)           # tile 4/1/1: outside the authorized area, answered blank
        blank = (svc, pth, prs, authz)
        pth2, prs2 = fresh(by_name[svc][0], by_name[svc][1], 8 * 16 + 8)
        pairs_ab += [(blank, blank), (blank, (svc, pth2, prs2, authz)), (blank, (svc, by_name[svc][0], by_name[svc][1], {}))]
    valid = [(n, pth, prs, {}) for n, pth, prs in bases]
    for i in range(len(valid)):
        pairs_ab.append((valid[i], valid[i]))
        pairs_ab.append((valid[i], valid[(i * 7 + 3) % len(valid)]))
    for pi, (ra, rb) in enumerate(pairs_ab):
        UP['mode'] = 'ok'
        fw = {'wsgi.file_wrapper': True} if pi % 2 else {}
        qa, qb = enc_query(ra[2], ctx.rng), enc_query(rb[2], ctx.rng)
        sa = start_app(app, ra[1], qa, dict(ra[3], **fw))
        sb = start_app(app, rb[1], qb, dict(rb[3], **fw))
        order = (sa, sb) if pi % 4 < 2 else (sb, sa)
        done = {}
        for st_ in order:
            done[id(st_)] = finish_app(st_)
        for which, rq, q_, st_ in (('first', ra, qa, sa), ('second', rb, qb, sb)):
            res = done[id(st_)]
            rep = {'service': rq[0], 'PATH_INFO': rq[1], 'QUERY_STRING': q_, 'headers': dict(rq[3], **fw), 'upstream': 'ok',
                   'schedule': 'two overlapping requests: A = %s?%s, B = %s?%s; both WSGI calls made, then bodies read in the order %s; '
                               'this is the %s request' % (ra[1], qa, rb[1], qb, 'A,B' if pi % 4 < 2 else 'B,A', which),
                   'status': res.get('status'), 'body_head': repr(b''.join(res.get('chunks') or [])[:120]) if 'chunks' in res else None}
            oracle_response(ctx, rq[0], res, rep, requested_size(rq[0], rq[1], rq[2]), base, skeletons, appdocs)
            ctx.case(('overlap', pi, which), True)
            ctx.count('overlap:status=' + (res.get('status') or 'raised')[:3])
    # the instance whose cache directories cannot be created
    if faulty is None:
        ctx.problem('harness', 'the application with an unusable cache directory could not be built')
    else:
        k = 0
        for name, path, pairs in bases:
            if name.split('.')[0] in ('demo', 'root', 'unknown') or 'cap' in name:
                continue
            for up in ('ok', 'error'):
                k += 1
                p2, q2 = fresh(path, pairs, 100 + k)
                qs = enc_query(q2, ctx.rng)
                if qs == '' and k % 2:
                    qs = None                  # no QUERY_STRING key at all
                UP['mode'] = up
                res = call_app(faulty, p2, qs, {})
                rep = {'service': name, 'instance': 'cache and lock directories below a regular file', 'PATH_INFO': p2, 'QUERY_STRING': qs,
                       'headers': {}, 'upstream': up, 'status': res.get('status'),
                       'body_head': repr(b''.join(res.get('chunks') or [])[:300]) if 'chunks' in res else None}
                kind = oracle_response(ctx, name, res, rep, None, base, skeletons, appdocs)
                ctx.case(('faulty', p2, qs, up), True)
                ctx.count('faulty:status=' + (res.get('status') or 'raised')[:3])
                ctx.count('faulty:answer=' + kind)
    logging.disable(logging.NOTSET)
    ctx.notes.append('answers produced by the catch-all of MapProxyApp.__call__ (500 "internal error", allowed by the property): %d of %d '
                     'requests; e.g. unparsable WIDTH/BBOX, GetFeatureInfo / GetLegendGraphic with a failing upstream, demo pages with '
                     'unknown layers' % (ctx.distribution.get('app:catch-all-internal-error', 0), len(stream)))
    # whole-application exception documents against the model
    seen, terms, descr = set(), [], []
    for tpl, msg, code, loc, text, rep in appdocs:
        key = (tpl, msg, code, loc)
        if key in seen:
            continue
        seen.add(key)
        terms.append('(%s, %s, %s, %s, %s)' % (tpl, slist(msg), olit(code, slist), olit(loc, slist), slist(text)))
        descr.append(dict(rep, template=tpl, message_read_by_parser=cps(msg), code=code, locator=loc))
    ctx.count('app:distinct-exception-documents', len(terms))
    ctx.corr_check(
        'appdoc', 'Escape Gen_exc_templates', 'list piece * list Z * option (list Z) * option (list Z) * list Z', terms,
        "fun c => let '(t, msg, code, loc, doc) := c in str_eqb (exception_doc t msg code loc) doc",
        lambda i: descr[i], shard=150)


def run(ctx):
    part_escape(ctx)
    table, sites = load_handler_table(ctx)
    skeletons = {}
    if table is not None:
        codes, locs, _n = sites
        skeletons = part_handlers(ctx, table, codes, locs)
    part_other_handlers(ctx)
    part_host(ctx)
    part_url(ctx)
    part_app(ctx, skeletons)
