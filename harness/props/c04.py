"""C04  A tile is the same image however it was produced.

Model: coq/theories/MetaGrid.v (MetaGrid / MetaTile arithmetic, TileSplitter.get_tile rectangle, create_tiles
strategy; on top of the exact grid model Grid.v), theorems: coq/props/P_C04.v.

Tie (correspondence, exact stream: grids with integer parameters, every float operation of grid.py exact, so
implementation and model must agree bit for bit):
  * MetaGrid API: _meta_size, main_tile, tile_list, meta_tile (bbox, size, crop pattern, grid size),
    minimal_meta_tile, built through the real TileGrid / MetaGrid constructors;
  * end to end: a real TileManager (mapproxy/cache/tile.py) with a position-encoding upstream (the pixel value is
    the index of the ground cell under the pixel centre, a function of ground position only) and a recording
    cache, for meta_size x meta_buffer x minimize_meta_requests x bulk_meta_tiles x concurrent_tile_creators;
    the upstream request log + the coordinates of every store call are compared with `create_plan`, sampled
    pixels of the stored images with `model_pixel` (pattern + TileSplitter + upstream picture).
Streams: (a) empty cache, picture 'cells' (pixel = ground cell index), 'rgba' (four informative bands, alpha 1..254,
transparent cache) or 'rgb' (opaque cache): the comparison with the tile fetched alone covers all bands;
(b) histories on ONE cache: several requests with changing configuration and removals of single tiles in between
(partially cached meta tiles with and without their main tile); the observed plan is compared with
`plan_with_cache`, every requested tile must be served with an image.
(c) schedules: creators of one request that run in parallel meet before the source reads its query - in the mock
source's get_map, or (real WMSSource/WMSClient over a mock HTTP client) after WMSClient._query_req has set the last
request parameter; two request threads on ONE TileManager, the first held inside MetaGrid.meta_tile;
(d) upstream faults: one response of a request is not cacheable (substitute image) or ends in the middle of the PNG
image data; afterwards the same request again without fault; compared with `request_with_faults`.
(e) the faults of (d) also include an upstream request that raises SourceError (the request must fail, no tile may be
answered without image by a request that looks successful); (f) a source with alpha and a clipping coverage
(clip: true, inside the grid extent) in front of an opaque cache: tiles cut out of meta tiles that cross the coverage
border are compared byte by byte with the same tile fetched alone, sampled pixels with `model_clip_colour`.
(g) encoded store: what a real backend writes (decoded bytes of tile.source.as_buffer(), lossless options colors=0) for
an upstream with alpha, with true colour + tRNS, or opaque RGBA behind a clipping coverage; cache options opaque /
transparent / `mixed`; several requests on one cache whose image options object is shared; every stored tile (no
buffer cut off) equals the same tile fetched alone on a fresh cache, format included.
(h) base configuration x concurrent creators (fixed probes BASE_CONFIG_PROBES, independent of the seed): globals
image.paletted false / image.jpeg_quality in force in the request thread (local_base_config), image options that leave
the encoding open, one request handled by several concurrent creators (meta tiles or single tiles): every stored
tile as encoded equals the same tile fetched alone under the same base configuration (format, PNG mode, pixels).
Oracle (Python, exact fractions, independent of the model): stored tile == same tile fetched alone through a
TileManager without meta tiling (bit-exact when no buffer is cut off at the grid border, <= 1 px otherwise);
no background pixel more than one pixel inside the extent; every requested tile is produced; one upstream
request per meta tile and every valid tile of the meta tile is in the store call that follows it; no tile
is stored twice.
"""
import json
import os
import threading
import time
from fractions import Fraction

from common import zlit, blit, llit, olit, VERIF
from gridlib import GridCase, frac

ID = 'C04'
TECHNIQUE = ('Coq proof over an exact-arithmetic model of MetaGrid/TileSplitter/create_tiles + correspondence of the '
             'model with MetaGrid and with a real TileManager (position-encoding upstream, recording cache)')
LEVEL_TEXT = ('Theorems for every grid (any bbox, tile size, positive resolutions, both origins), every meta size >= 1, '
              'every buffer >= 0, every level and tile over the exact-arithmetic Gallina model of MetaGrid (meta size, main '
              'tile, buffered and truncated bbox, size, crop pattern, minimal meta tile) and of TileSplitter.get_tile: '
              'crop offsets are pixel-exact without truncation (the image cut from a meta tile equals the tile fetched alone '
              'for every picture that depends on ground position only), within one pixel with truncation, the pattern holds '
              'exactly the valid tiles of the meta tile once each, padding only happens outside the extent. The model is tied '
              'to mapproxy/grid.py, image/tile.py and cache/tile.py by a correspondence check through the real classes.')
LEVEL_NOTE = ('Trusted: Coq kernel; hand-written model MetaGrid.v (on Grid.v); the correspondence harness; PIL crop/paste '
              'copy pixels unchanged (observed through the position-encoding picture, not proved). IEEE-754 rounding of '
              'grid.py is not modelled: the exact stream (integer parameters) must agree bit for bit. Locking and '
              'concurrent creators are exercised by the harness (threads) but are not part of the model (C08).')
DESIGN_REF = 'DESIGN.md section 5, C04'
RULE = ('case = (grid, meta size, buffer, strategy flags, level, requested tiles); non-trivial = meta tile of more than one '
        'tile or a non-zero buffer, border tiles / truncated buffers / levels smaller than the meta size included; '
        'distinct by full tuple')
TRUSTED = ['model MetaGrid.v hand-written from mapproxy/grid.py (MetaGrid), image/tile.py (TileSplitter), cache/tile.py '
           '(create_tiles); tie = differential run of the real classes vs the model (vm_compute)',
           'float rounding of grid.py not modelled (exact stream bit-exact); PIL crop/paste trusted to copy pixels']
ASSUMPTIONS = ['resolutions positive, bbox non-degenerate, tile size positive, meta size >= 1, buffer >= 0',
               'end to end: the grid extent is at least one pixel wide and high on the level (otherwise a truncated meta request has size 0)',
               'the upstream picture depends on ground position only (section hypothesis: it is the sampling function of the model)',
               'plan_with_cache: a request does not name the same coordinate twice',
               'request_with_faults: a faulted response is named by its bbox (cases where two requests of one call have the same bbox are counted and not compared); cut-off responses are modelled for the meta tile strategies only']
EXPLANATION = ('crop pattern arithmetic proved over Z for all grids/meta sizes/buffers; real MetaGrid and TileManager '
               'compared with the model on an exact stream; tiles compared pixel by pixel with the tile fetched alone')

PIC_MOD = 4093


# ----------------------------------------------------------------------------- grids

TILE_SIZES = [(8, 8), (16, 8), (7, 5), (4, 4), (10, 10), (5, 9), (12, 6)]


def make_grid(rng, k, spec=None):
    """An exact-stream grid: integer bbox, resolutions multiples of 10 (as floats)."""
    from mapproxy.grid import TileGrid
    from mapproxy.srs import SRS
    if spec is None:
        tw, th = rng.choice(TILE_SIZES)
        rf = 10 * rng.choice([1, 1, 2, 3])
        if rng.random() < 0.6:
            n = rng.randrange(1, 5)
            res = [rf * 2 ** (n - 1 - j) for j in range(n)]
        else:
            res = sorted({rf * rng.choice([1, 2, 3, 4, 5, 6, 8, 12]) for _ in range(rng.randrange(1, 5))}, reverse=True)
        wpx = tw * rng.randrange(1, 11) + rng.choice([0, 0, 0, 1, tw - 1, rng.randrange(0, tw)])
        hpx = th * rng.randrange(1, 9) + rng.choice([0, 0, 0, 1, th - 1, rng.randrange(0, th)])
        wsub = rng.choice([0, 0, 0, 3, 5, 7, rf - 1, rng.randrange(0, rf)])
        hsub = rng.choice([0, 0, 0, 3, 5, 7, rf - 1, rng.randrange(0, rf)])
        x0 = rng.randrange(-5000, 5000)
        y0 = rng.randrange(-5000, 5000)
        spec = {'tile_size': [tw, th], 'res': res, 'bbox': [x0, y0, x0 + wpx * rf + wsub, y0 + hpx * rf + hsub],
                'origin': rng.choice(['ll', 'ul'])}
    g = TileGrid(SRS(3857), bbox=tuple(float(v) for v in spec['bbox']), tile_size=tuple(spec['tile_size']),
                 res=[float(r) for r in spec['res']], origin=spec['origin'])
    gc = GridCase('g%d' % k, g, extra_den=1)
    gc.spec = spec
    return gc


def coord_lit(c):
    return '(%s, %s, %s)' % (zlit(c[0]), zlit(c[1]), zlit(c[2]))


def z2(p):
    return '(%s, %s)' % (zlit(p[0]), zlit(p[1]))


def mg_lit(gc, ms, buf):
    return '(mkMG %s %d %d %d)' % (gc.name, ms[0], ms[1], buf)


def metatile_lit(gc, mt):
    pat = llit(mt.tile_patterns, lambda p: '(%s, %s)' % (olit(p[0], coord_lit), z2(p[1]) if p[1] is not None else '(0, 0)'))
    return '(mkMT %s %s %s %s)' % (gc.zbbox(mt.bbox), z2(mt.size), pat, z2(mt.grid_size))


def call(f, *a, **kw):
    try:
        return ('ok', f(*a, **kw))
    except Exception as e:  # noqa
        return ('raised', type(e).__name__)


# ----------------------------------------------------------------------------- position-encoding upstream

TRNS_KEY = (7, 7, 255)        # blue 255 is never a picture colour


def colour_of(transparent, vx, vy):
    return (vx % 256, vy % 256, (vx * 7 + vy * 13) % 255, 1 + (vx + 3 * vy) % 254 if transparent else 255)


def overlay_colour(vx, vy):
    """picture kind 'holes': the colour of an opaque cell, None for a fully transparent cell"""
    return (vx % 256, vy % 256, 255, 255) if (vx + vy) % 2 == 0 else None


class Picture:
    """The upstream picture: a function of ground position only.  The q-cell containing a ground point (counted from
    the lower left grid corner, index mod 4093 per axis) decides the value; an image of (bbox, size) samples the
    picture at the pixel centres, in exact integers scaled by gc.S.
    kind 'cells': the pixel carries the two cell indices (12 bits each in R, G, B; alpha 255);
    kind 'rgba' : all four bands carry information, alpha between 1 and 254 (a transparent cache);
    kind 'rgb'  : three bands, blue below 255 (a non-transparent cache; the background is white)."""

    def __init__(self, gc, q, kind='cells'):
        self.gc, self.q, self.kind = gc, q, kind           # q: scaled integer
        self.transparent = kind != 'rgb'

    def cells(self, bbox, size):
        gc, q = self.gc, self.q
        minx, miny, maxx, maxy = [gc.z(v) for v in bbox]
        w, h = size
        gx0, gy0 = gc.z(gc.bbox[0]), gc.z(gc.bbox[1])
        xs = [(((2 * c + 1) * (maxx - minx) + 2 * w * (minx - gx0)) // (2 * w * q)) % PIC_MOD for c in range(w)]
        ys = [((2 * h * (maxy - gy0) - (2 * r + 1) * (maxy - miny)) // (2 * h * q)) % PIC_MOD for r in range(h)]
        return xs, ys

    def render(self, bbox, size):
        from PIL import Image
        w, h = size
        xs, ys = self.cells(bbox, size)
        buf = bytearray()
        if self.kind == 'cells':
            rowx = [(v & 255, v >> 8) for v in xs]
            for vy in ys:
                lo, hi = vy & 255, (vy >> 8) << 4
                for xl, xh in rowx:
                    buf += bytes((xl, xh | hi, lo, 255))
            return Image.frombytes('RGBA', (w, h), bytes(buf))
        if self.kind == 'rgba':
            for vy in ys:
                for vx in xs:
                    buf += bytes(colour_of(True, vx, vy))
            return Image.frombytes('RGBA', (w, h), bytes(buf))
        if self.kind == 'rgba1':
            # RGBA without any transparency (alpha 255 everywhere)
            for vy in ys:
                for vx in xs:
                    buf += bytes(colour_of(False, vx, vy))
            return Image.frombytes('RGBA', (w, h), bytes(buf))
        if self.kind == 'holes':
            # an overlay: half of the cells opaque (blue 255: never a colour of the other kinds), the others fully transparent
            for vy in ys:
                for vx in xs:
                    buf += bytes(overlay_colour(vx, vy) or (0, 0, 0, 0))
            return Image.frombytes('RGBA', (w, h), bytes(buf))
        if self.kind == 'rgbt':
            # true colour with one colour marked transparent (PNG colour type 2 + tRNS): a third of the cells
            for vy in ys:
                for vx in xs:
                    buf += bytes(TRNS_KEY if (vx + 2 * vy) % 3 == 0 else colour_of(False, vx, vy)[:3])
            img = Image.frombytes('RGB', (w, h), bytes(buf))
            img.info['transparency'] = TRNS_KEY
            return img
        for vy in ys:
            for vx in xs:
                buf += bytes(colour_of(False, vx, vy)[:3])
        return Image.frombytes('RGB', (w, h), bytes(buf))

    def decode(self, img):
        """rows of pixel values: kind cells -> (vx, vy) or None (background); colour kinds -> (r, g, b, a)."""
        if self.kind == 'cells':
            return decode(img)
        w, h = img.size
        if img.mode == 'RGBA':
            data = img.tobytes()
            return [[tuple(data[4 * (r * w + c):4 * (r * w + c) + 4]) for c in range(w)] for r in range(h)]
        data = img.convert('RGB').tobytes()
        return [[tuple(data[3 * (r * w + c):3 * (r * w + c) + 3]) + (255,) for c in range(w)] for r in range(h)]

    def is_bg(self, a):
        if self.kind == 'cells':
            return a is None
        return a == ((255, 255, 255, 0) if self.transparent else (255, 255, 255, 255))

    def mismatch(self, a, refcell, tol):
        """None when pixel value a shows the picture within tol cells of the reference cell, else a description."""
        if self.kind == 'cells':
            dx, dy = centred(a[0] - refcell[0]), centred(a[1] - refcell[1])
            return None if (abs(dx) <= tol and abs(dy) <= tol) else 'differs by (%d,%d) cells' % (dx, dy)
        for dx in range(-tol, tol + 1):
            for dy in range(-tol, tol + 1):
                if colour_of(self.transparent, (refcell[0] + dx) % PIC_MOD, (refcell[1] + dy) % PIC_MOD) == a:
                    return None
        return 'has colour %r, the picture there is %r' % (a, colour_of(self.transparent, refcell[0], refcell[1]))


def decode(img):
    """PIL RGBA image of kind 'cells' -> list of rows of (vx, vy) or None (background)."""
    img = img.convert('RGBA') if img.mode != 'RGBA' else img
    w, h = img.size
    data = img.tobytes()
    rows = []
    for r in range(h):
        row = []
        for c in range(w):
            o = 4 * (r * w + c)
            if data[o + 3] == 0:
                row.append(None)
            else:
                row.append((data[o] | ((data[o + 1] & 15) << 8), data[o + 2] | ((data[o + 1] >> 4) << 8)))
        rows.append(row)
    return rows


def tkey():
    t = threading.current_thread()
    return (t.name, t.ident)


class Upstream:
    """The upstream source.  rendezvous=(P, n): a source that looks at the query late - a call of get_map waits (bounded)
    until the other creators that run in parallel (groups of P of the n expected requests) are inside get_map as
    well and reads bbox and size of the query it was handed only then (schedule control at a legitimate hook)."""
    coverage = None
    extent = None
    res_range = None

    def __init__(self, picture, events, lock, opts, supports_meta=True, as_buffer=False, rendezvous=None, fault_at=None):
        self.picture, self.events, self.lock, self.opts = picture, events, lock, opts
        self.supports_meta_tiles = supports_meta
        self.as_buffer = as_buffer
        self.rendezvous = rendezvous
        self.cv = threading.Condition()
        self.arrived = 0
        self.timeouts = 0
        self.fault_at = fault_at or {}        # index of the upstream request -> 'uncacheable' | 'truncate'
        self.n_requests = 0
        self.faulted = {'uncacheable': [], 'truncate': [], 'error': []}

    def meet(self):
        """creators running in parallel wait for each other here (bounded)."""
        if not self.rendezvous:
            return
        par, total = self.rendezvous
        with self.cv:
            i = self.arrived
            self.arrived += 1
            target = min((i // par + 1) * par, total)
            self.cv.notify_all()
            deadline = time.time() + 0.4
            while self.arrived < target:
                left = deadline - time.time()
                if left <= 0:
                    self.timeouts += 1
                    break
                self.cv.wait(left)

    def answer(self, bbox, size):
        """log the request, decide the fault, render.  Returns (PIL image or bytes buffer, cacheable)."""
        from io import BytesIO
        with self.lock:
            self.events.append(('req', tkey(), bbox, size))
            fault = self.fault_at.get(self.n_requests)
            self.n_requests += 1
            if fault:
                self.faulted[fault].append(bbox)
        if fault == 'error':
            # a transient upstream failure (HTTP error, timeout) without on_error handler
            from mapproxy.source import SourceError
            raise SourceError('upstream failure (injected)')
        if fault == 'uncacheable':
            # what an on_error handler with cache: false answers: a blank image that must not be stored
            from PIL import Image
            blank = Image.new('RGBA' if self.picture.transparent else 'RGB', size,
                              (255, 255, 255, 0) if self.picture.transparent else (255, 255, 255))
            return blank, False
        img = self.picture.render(bbox, size)
        if fault == 'truncate' or self.as_buffer:
            b = BytesIO()
            if 'transparency' in img.info:
                img.save(b, 'PNG', transparency=img.info['transparency'])
            else:
                img.save(b, 'PNG')
            data = b.getvalue()
            if fault == 'truncate':
                # the connection ends in the middle of the (first) IDAT chunk: the image data is incomplete
                at = data.index(b'IDAT')
                length = int.from_bytes(data[at - 4:at], 'big')
                data = data[:at + 4 + length // 2]
            return BytesIO(data), True
        return img, True

    def get_map(self, query):
        from mapproxy.image import ImageSource
        if self.coverage is not None and not self.coverage.intersects(query.bbox, query.srs):
            from mapproxy.layer import BlankImage
            raise BlankImage()       # what WMSSource / TiledSource do outside their coverage
        self.meet()
        bbox, size = tuple(query.bbox), tuple(query.size)
        img, cacheable = self.answer(bbox, size)
        return ImageSource(img, size=size, image_opts=self.opts, cacheable=cacheable)

    # ---- the same upstream behind a real WMSSource / WMSClient: this object is the HTTP client
    def open(self, url, data=None, **kw):
        from io import BytesIO
        from urllib.parse import urlparse, parse_qs
        q = dict((k.lower(), v[0]) for k, v in parse_qs(urlparse(url).query).items())
        bbox = tuple(float(x) for x in q['bbox'].split(','))
        size = (int(q['width']), int(q['height']))
        img, _ = self.answer(bbox, size)
        if not hasattr(img, 'getvalue'):
            b = BytesIO()
            img.save(b, 'PNG')
            img = b

        class Response(BytesIO):
            headers = {'Content-type': 'image/png'}
            code = 200
        return Response(img.getvalue())

    def wms_source(self):
        """a real WMSSource whose WMSClient fills in a request template; the creators meet after the last parameter
        of _query_req was set, before the URL is built (schedule control at the template's parameter object)."""
        from mapproxy.client.wms import WMSClient
        from mapproxy.request.wms import WMS111MapRequest, WMSMapRequestParams
        from mapproxy.source.wms import WMSSource
        upstream = self

        class MeetingParams(WMSMapRequestParams):
            def _set_format(self, format):
                WMSMapRequestParams.format.fset(self, format)
                upstream.meet()
            format = property(WMSMapRequestParams.format.fget, _set_format)

        class MeetingRequest(WMS111MapRequest):
            request_params = MeetingParams

        req = MeetingRequest(url='http://upstream.invalid/service?', param={'layers': 'a'})
        return WMSSource(WMSClient(req, http_client=self), image_opts=self.opts)


class RecordingCache:
    coverage = None
    supports_dimensions = False

    encode = False
    shared_opts = None

    def __init__(self, events, lock):
        self.events, self.lock = events, lock
        self.stored = {}

    def is_cached(self, tile, dimensions=None):
        if tile.coord is None:
            return True
        with self.lock:
            return tile.coord in self.stored

    def load_tile(self, tile, with_metadata=False, dimensions=None):
        if tile.coord is None or tile.source is not None:
            return True
        with self.lock:
            src = self.stored.get(tile.coord)
        if src is None:
            return False
        from mapproxy.image import ImageSource
        tile.source = ImageSource(src[0].copy(), size=src[0].size, image_opts=src[1])
        return True

    def load_tiles(self, tiles, with_metadata=False, dimensions=None):
        ok = True
        for t in tiles:
            ok = self.load_tile(t) and ok
        return ok

    def load_tile_metadata(self, tile, dimensions=None):
        pass

    def _put(self, tiles):
        rec = []
        for t in tiles:
            if self.encode:
                # what a real cache backend writes: the bytes of tile.source.as_buffer(); kept decoded to RGBA
                from io import BytesIO
                from PIL import Image
                data = t.source.as_buffer(seekable=True).read()
                img = Image.open(BytesIO(data))
                fmt, mode = img.format, img.mode
                img = img.convert('RGBA')
                img.info['stored_format'] = fmt
                img.info['stored_mode'] = mode
            else:
                img = t.source.as_image().copy()
            rec.append((tuple(t.coord), img))
        with self.lock:
            self.events.append(('store', tkey(), rec))
            for coord, img in rec:
                self.stored[coord] = (img, None)

    def store_tile(self, tile, dimensions=None):
        self._put([tile])
        return True

    def store_tiles(self, tiles, dimensions=None):
        self._put(list(tiles))
        return True

    def remove_tile(self, tile, dimensions=None):
        pass


def run_manager(gc, picture, cfg, coords, cache=None, rendezvous=None, fault_at=None):
    """Run a real TileManager.  cfg: meta_size, meta_buffer, minimize, bulk, concurrent, as_buffer.
    Returns (steps, result sources, error) where steps = [(requests, [(coord, image)])] in canonical order."""
    from mapproxy.cache.tile import TileManager
    from mapproxy.cache.dummy import DummyLocker
    from mapproxy.image.opts import ImageOptions
    if picture.transparent:
        opts = ImageOptions(transparent=True, format='image/png', mode='RGBA')
    else:
        opts = ImageOptions(transparent=False, format='image/png', mode='RGB')
    events, lock = [], threading.Lock()
    bulk = cfg['bulk']
    src_opts = opts
    variant = cfg.get('cache_opts')
    if variant:
        # lossless encoders (colors=0: no quantisation), the source delivers alpha / tRNS, the cache options vary
        src_opts = ImageOptions(transparent=True, format='image/png', colors=0)
        if cache is not None and cache.shared_opts is not None:
            opts = cache.shared_opts          # one TileManager configuration lives as long as its cache
        elif variant == 'png-opaque':
            opts = ImageOptions(transparent=False, format='image/png', colors=0)
        elif variant == 'png-transparent':
            opts = ImageOptions(transparent=True, format='image/png', colors=0)
        elif variant in ('png-base', 'jpeg-base'):
            # nothing about the encoding is fixed by the image options (colors None, no encoding options): what the
            # encoder does is decided by the base configuration (globals.image.paletted / jpeg_quality) that is in
            # force where the tile is encoded
            src_opts = ImageOptions(transparent=False, format='image/png')
            opts = ImageOptions(transparent=False, format='image/png' if variant == 'png-base' else 'image/jpeg')
        else:
            opts = ImageOptions(transparent=True, format='mixed', colors=0)
    if cfg.get('clip') and not cfg.get('cache_opts'):
        # a source with alpha and a clipping coverage in front of an opaque cache
        src_opts = ImageOptions(transparent=True, format='image/png', mode='RGBA')
        opts = ImageOptions(transparent=False, format='image/png', mode='RGB')
    up = Upstream(picture, events, lock, src_opts, supports_meta=not bulk, as_buffer=cfg.get('as_buffer', False),
                  rendezvous=rendezvous, fault_at=fault_at)
    if cfg.get('clip'):
        from mapproxy.util.coverage import BBOXCoverage
        from mapproxy.srs import SRS
        up.coverage = BBOXCoverage(tuple(float(v) for v in cfg['clip']), SRS(3857), clip=True)
    src = up.wms_source() if (cfg.get('source') == 'wms' and not bulk and not cfg.get('clip')) else up
    run_manager.last = {'upstream': up, 'events': events}
    if cache is None:
        cache = RecordingCache(events, lock)
    else:
        cache.events, cache.lock = events, lock
    if variant:
        cache.encode = True
        cache.shared_opts = opts
        up.as_buffer = not variant.endswith('-base')
    pre_cached = set(cache.stored)
    try:
        tm = TileManager(gc.grid, cache, [src], 'png', DummyLocker(), image_opts=opts,
                         meta_size=cfg['meta_size'], meta_buffer=cfg['meta_buffer'],
                         minimize_meta_requests=cfg['minimize'], bulk_meta_tiles=bulk,
                         concurrent_tile_creators=cfg['concurrent'])
        run_manager.last['has_meta'] = tm.meta_grid is not None
        result = tm.load_tile_coords([tuple(c) if c is not None else None for c in coords])
        served = [(t.coord, None if t.source is None else t.source.as_image().copy()) for t in result]
        has_meta = tm.meta_grid is not None
    except Exception as e:  # noqa
        return None, None, None, '%s: %s' % (type(e).__name__, e)
    # group into steps
    steps = []
    sequential = bulk or cfg['concurrent'] <= 1
    pending = {}
    for ev in events:
        key = 0 if sequential else ev[1]
        if ev[0] == 'req':
            pending.setdefault(key, []).append((ev[2], ev[3]))
        else:
            steps.append((pending.pop(key, []), ev[2]))
    leftovers = [r for k in sorted(pending) for r in pending[k]]
    if leftovers:
        steps.append((leftovers, []))
    # canonical order for runs with threads: steps by the first requested tile they store, bulk requests in the
    # order of the stored tiles
    if bulk:
        canon = []
        for reqs, rec in steps:
            order = {}
            for i, (coord, _) in enumerate(rec):
                order.setdefault(tuple(gc.grid.tile_bbox(coord)), i)
            canon.append((sorted(reqs, key=lambda r: (order.get(r[0], 10 ** 6), r)), rec))
        steps = canon
    if not sequential:
        pos = {}
        for i, c in enumerate(coords):
            if c is not None and tuple(c) not in pre_cached:
                pos.setdefault(tuple(c), i)

        def first(step):
            idx = [pos[c] for c, _ in step[1] if c in pos]
            return min(idx) if idx else 10 ** 6
        steps.sort(key=first)
    return steps, served, has_meta, None


def run_layered_manager(gc, pictures, coverages, cfg, coords):
    """A real TileManager over several sources (bottom first), each with its own picture and optional clipping coverage
    (BBOXCoverage, clip=True); transparent cache.  Returns ({coord: stored image}, [(coord, served image)], has_meta, error)."""
    from mapproxy.cache.tile import TileManager
    from mapproxy.cache.dummy import DummyLocker
    from mapproxy.image.opts import ImageOptions
    from mapproxy.util.coverage import BBOXCoverage
    from mapproxy.srs import SRS
    opts = ImageOptions(transparent=True, format='image/png', mode='RGBA')
    events, lock = [], threading.Lock()
    sources = []
    for pic, cov in zip(pictures, coverages):
        up = Upstream(pic, events, lock, ImageOptions(transparent=True, format='image/png', mode='RGBA'))
        if cov is not None:
            up.coverage = BBOXCoverage(tuple(float(v) for v in cov), SRS(3857), clip=True)
        sources.append(up)
    cache = RecordingCache(events, lock)
    try:
        tm = TileManager(gc.grid, cache, sources, 'png', DummyLocker(), image_opts=opts,
                         meta_size=cfg['meta_size'], meta_buffer=cfg['meta_buffer'],
                         minimize_meta_requests=cfg.get('minimize', False), bulk_meta_tiles=False, concurrent_tile_creators=1)
        result = tm.load_tile_coords([tuple(c) for c in coords])
        served = [(t.coord, None if t.source is None else t.source.as_image().copy()) for t in result]
        has_meta = tm.meta_grid is not None
    except Exception as e:  # noqa
        return None, None, None, '%s: %s' % (type(e).__name__, e)
    return dict((c, v[0]) for c, v in cache.stored.items()), served, has_meta, None


def gated_grid(spec):
    """The same grid built through a TileGrid subclass whose tile_bbox() passes a gate first (schedule control:
    tile_bbox is the only call MetaGrid.meta_tile makes outside its own class)."""
    from mapproxy.grid import TileGrid
    from mapproxy.srs import SRS

    class GatedTileGrid(TileGrid):
        gate = None

        def tile_bbox(self, tile_coord, limit=False):
            g = self.gate
            if g is not None:
                g()
            return TileGrid.tile_bbox(self, tile_coord, limit)

    return GatedTileGrid(SRS(3857), bbox=tuple(float(v) for v in spec['bbox']), tile_size=tuple(spec['tile_size']),
                         res=[float(r) for r in spec['res']], origin=spec['origin'])


def run_two_requests(gc, picture, cfg, pre, coords1, coords2, post):
    """ONE TileManager (one MetaGrid, one cache) used by two request threads.  Schedule: request 0 (pre) completes;
    request 1 is held at its first grid.tile_bbox call (inside MetaGrid.meta_tile, after it has looked for its tiles
    in the cache) until request 2 has been answered completely; then request 1 continues; finally `post` (a list
    of (removed tiles, requested tiles)) runs sequentially.  Returns a list of per-request observations
    (coords, steps, served, cached when looking, cached under the lock) or an error string."""
    from mapproxy.cache.tile import TileManager
    from mapproxy.cache.dummy import DummyLocker
    from mapproxy.image.opts import ImageOptions
    if picture.transparent:
        opts = ImageOptions(transparent=True, format='image/png', mode='RGBA')
    else:
        opts = ImageOptions(transparent=False, format='image/png', mode='RGB')
    events, lock = [], threading.Lock()
    src = Upstream(picture, events, lock, opts, supports_meta=True, as_buffer=cfg.get('as_buffer', False))
    cache = RecordingCache(events, lock)
    grid = gated_grid(gc.spec)
    out = []
    try:
        tm = TileManager(grid, cache, [src], 'png', DummyLocker(), image_opts=opts,
                         meta_size=cfg['meta_size'], meta_buffer=cfg['meta_buffer'],
                         minimize_meta_requests=cfg['minimize'], bulk_meta_tiles=False, concurrent_tile_creators=1)
        has_meta = tm.meta_grid is not None

        def request(coords, res):
            try:
                result = tm.load_tile_coords([tuple(c) for c in coords])
                res['served'] = [(t.coord, None if t.source is None else t.source.as_image().copy()) for t in result]
            except Exception as e:  # noqa
                res['error'] = '%s: %s' % (type(e).__name__, e)
            res['tid'] = tkey()

        def steps_of(tid, lo, hi=None):
            steps, pend = [], []
            for ev in events[lo:hi]:
                if ev[1] != tid:
                    continue
                if ev[0] == 'req':
                    pend.append((ev[2], ev[3]))
                else:
                    steps.append((pend, ev[2]))
                    pend = []
            if pend:
                steps.append((pend, []))
            return steps

        # request 0
        r0 = {}
        before = sorted(cache.stored)
        request(pre, r0)
        if 'error' in r0:
            return r0['error']
        out.append((pre, steps_of(r0['tid'], 0), r0['served'], before, before))
        mark = len(events)
        cached_a = sorted(cache.stored)
        # requests 1 and 2
        inside, released = threading.Event(), threading.Event()
        r1, r2 = {}, {}
        t1 = threading.Thread(target=request, args=(coords1, r1), daemon=True, name='c04-request1')
        state = {'held': False}

        def gate():
            if threading.current_thread() is t1 and not state['held']:
                state['held'] = True
                inside.set()
                released.wait(3)
        grid.gate = gate
        t1.start()
        deadline = time.time() + 2
        while not inside.is_set() and t1.is_alive() and time.time() < deadline:
            inside.wait(0.005)
        t2 = threading.Thread(target=request, args=(coords2, r2), daemon=True, name='c04-request2')
        t2.start()
        t2.join(3)
        cached_b = sorted(cache.stored)
        released.set()
        t1.join(3)
        grid.gate = None
        if t1.is_alive() or t2.is_alive():
            return 'request thread did not finish'
        for r in (r1, r2):
            if 'error' in r:
                return r['error']
        out.append((coords2, steps_of(r2['tid'], mark), r2['served'], cached_a, cached_a))
        out.append((coords1, steps_of(r1['tid'], mark), r1['served'], cached_a, cached_b if state['held'] else cached_a))
        # sequential tail
        for removed, coords in post:
            for c in removed:
                cache.stored.pop(tuple(c), None)
            mark = len(events)
            before = sorted(cache.stored)
            r = {}
            request(coords, r)
            if 'error' in r:
                return r['error']
            out.append((coords, steps_of(r['tid'], mark), r['served'], before, before))
    except Exception as e:  # noqa
        return '%s: %s' % (type(e).__name__, e)
    return has_meta, out


# ----------------------------------------------------------------------------- oracle

def centred(d):
    d %= PIC_MOD
    return d - PIC_MOD if d > PIC_MOD // 2 else d


def block_of(gc, cfg, coords, level, coord, has_meta):
    """Independent re-derivation of the tile block (x range, y range) that is fetched together with `coord`."""
    if not has_meta:
        return (coord[0], coord[0]), (coord[1], coord[1])
    valid = [c for c in coords if c is not None]
    if cfg['minimize'] and len(valid) > 1:
        return ((min(c[0] for c in valid), max(c[0] for c in valid)), (min(c[1] for c in valid), max(c[1] for c in valid)))
    nx, ny = gc.grid_size(level)
    sx, sy = min(cfg['meta_size'][0], nx), min(cfg['meta_size'][1], ny)
    x0, y0 = coord[0] // sx * sx, coord[1] // sy * sy
    return (x0, x0 + sx - 1), (y0, y0 + sy - 1)


def check_content(ctx, gc, picture, cfg, uncached, level, coord, img, has_meta, buf, m, reference, rep, what='stored'):
    """one tile image against the same tile fetched alone (bit-exact when no buffer is cut off, <= 1 px otherwise;
    no background more than one pixel inside the extent)."""
    r = gc.res[level]
    gx0, gy0, gx1, gy1 = gc.bbox
    ref = reference(coord)
    got = picture.decode(img)
    if ref is None:
        return
    tw, th = gc.tw, gc.th
    if img.size != (tw, th):
        ctx.fail('tile-size', 'stored tile %r has size %r' % (coord, img.size), rep)
        return
    (bx0, bx1), (by0, by1) = block_of(gc, cfg, uncached, level, coord, has_meta)
    lo = gc.tile_rect(bx0, by0, level)
    hi = gc.tile_rect(bx1, by1, level)
    box = (min(lo[0], hi[0]) - buf * r, min(lo[1], hi[1]) - buf * r, max(lo[2], hi[2]) + buf * r, max(lo[3], hi[3]) + buf * r)
    untruncated = buf == 0 or (box[0] >= gx0 and box[1] >= gy0 and box[2] <= gx1 and box[3] <= gy1)
    rect = gc.tile_rect(coord[0], coord[1], level)
    worst = None
    for k in range(th):
        for j in range(tw):
            a, b = got[k][j], ref[k][j]
            if picture.is_bg(a):
                if untruncated:
                    worst = ('background', j, k)
                    break
                # pixel rectangle more than one pixel inside the extent?
                px0, px1 = rect[0] + j * r, rect[0] + (j + 1) * r
                py1, py0 = rect[3] - k * r, rect[3] - (k + 1) * r
                if px0 >= gx0 + r and px1 <= gx1 - r and py0 >= gy0 + r and py1 <= gy1 - r:
                    worst = ('background-inside', j, k)
                    break
                continue
            bad = picture.mismatch(a, b, 0 if untruncated else m)
            if bad:
                worst = ('shift', j, k, bad, m)
                break
        if worst:
            break
    if worst:
        kind = worst[0]
        if kind == 'background':
            ctx.fail('background-in-untruncated-tile', 'tile %r pixel %r is background although no buffer is cut off' % (coord, worst[1:]), dict(rep, tile=coord))
        elif kind == 'background-inside':
            ctx.fail('background-inside-extent', 'tile %r pixel %r more than one pixel inside the extent is background' % (coord, worst[1:]), dict(rep, tile=coord))
        elif untruncated:
            ctx.fail('tile-differs-from-tile-fetched-alone', 'tile %r pixel (%d,%d) %s (tile fetched alone; %d cells per pixel), no buffer cut off' % ((coord,) + worst[1:]), dict(rep, tile=coord))
        else:
            ctx.fail('tile-off-by-more-than-one-pixel', 'tile %r pixel (%d,%d) %s (tile fetched alone; %d cells per pixel)' % ((coord,) + worst[1:]), dict(rep, tile=coord))
    ctx.count('tiles:' + ('untruncated' if untruncated else 'truncated'))


def oracle(ctx, gc, picture, cfg, coords, level, steps, served, has_meta, reference, rep, cached=(), locked=()):
    """cached: coordinates the cache held when the request started (histories); only the others are created."""
    q = picture.q
    r = gc.res[level]
    m = -((-int(r * gc.S)) // q)                # cells per pixel, rounded up (|floor a - floor b| <= ceil |a - b|)
    nx, ny = gc.grid_size(level)
    valid = [tuple(c) for c in coords if c is not None]
    uncached = [c for c in valid if c not in cached]
    stored_at = {}
    buf = cfg['meta_buffer'] if (has_meta and not cfg['bulk']) else 0
    dup = False
    for si, (reqs, rec) in enumerate(steps):
        for coord, img in rec:
            if coord in stored_at:
                dup = True
            stored_at.setdefault(coord, (si, img))
    if dup:
        ctx.fail('tile-stored-twice', 'a tile is stored by two upstream requests', rep)
    # every requested tile is produced
    missing = [c for c in uncached if c not in stored_at and c not in locked]
    served_missing = [c for c, img in served if c is not None and img is None]
    if missing or served_missing:
        sig = 'requested-tile-not-produced'
        ctx.fail(sig, 'requested tiles %r are not produced (stored: %r)' % (missing or served_missing, sorted(stored_at)), rep)
    # request accounting
    for si, (reqs, rec) in enumerate(steps):
        coords_here = [c for c, _ in rec]
        if not rec:
            ctx.fail('request-without-store', 'upstream request(s) %r not followed by a store call' % (reqs,), rep)
            continue
        if has_meta and cfg['bulk']:
            if len(reqs) != len(rec):
                ctx.fail('bulk-request-count', '%d requests for %d tiles stored in bulk' % (len(reqs), len(rec)), rep)
        elif len(reqs) != 1:
            ctx.fail('requests-per-meta-tile', '%d upstream requests before one store call of %r' % (len(reqs), coords_here), rep)
        # every valid tile of the block is in this store call, nothing else
        (bx0, bx1), (by0, by1) = block_of(gc, cfg, uncached, level, coords_here[0], has_meta)
        want = sorted((x, y, level) for x in range(bx0, bx1 + 1) for y in range(by0, by1 + 1) if 0 <= x < nx and 0 <= y < ny)
        if sorted(coords_here) != want:
            ctx.fail('store-not-whole-meta-tile', 'store call holds %r, the meta tile consists of %r' % (sorted(coords_here), want), rep)
    # content
    for coord, (si, img) in sorted(stored_at.items()):
        check_content(ctx, gc, picture, cfg, uncached, level, coord, img, has_meta, buf, m, reference, rep)
    # what is served equals what is stored
    for c, img in served:
        if c is not None and img is not None and c in stored_at:
            if img.tobytes() != stored_at[c][1].tobytes():
                ctx.fail('served-differs-from-stored', 'tile %r served differs from the stored image' % (c,), dict(rep, tile=c))


# ----------------------------------------------------------------------------- case generation

def pick_tiles(rng, gc, level, how):
    nx, ny = gc.grid_size(level)

    def bx():
        return rng.choice([0, nx - 1, max(nx - 2, 0), rng.randrange(nx)])

    def by():
        return rng.choice([0, ny - 1, max(ny - 2, 0), rng.randrange(ny)])
    if how == 'one':
        return [(bx(), by(), level)]
    if how == 'block':
        x0, y0 = bx(), by()
        x1, y1 = min(nx - 1, x0 + rng.randrange(0, 4)), min(ny - 1, y0 + rng.randrange(0, 3))
        ys = range(y0, y1 + 1) if gc.ul else range(y1, y0 - 1, -1)
        return [(x, y, level) for y in ys for x in range(x0, x1 + 1)]
    out = []
    x0, y0 = bx(), by()
    for _ in range(rng.randrange(2, 6)):
        c = (min(nx - 1, max(0, x0 + rng.randrange(-3, 4))), min(ny - 1, max(0, y0 + rng.randrange(-2, 3))), level)
        if c not in out:
            out.append(c)
    return out


def gen_cfg(rng, gc):
    tw, th = gc.tw, gc.th
    ms = [rng.choice([1, 2, 2, 3, 4]), rng.choice([1, 2, 2, 3, 4])]
    buf = rng.choice([0, 0, 1, 3, 8, 8, 20, 20, min(tw, th) - 1, max(tw, th) * rng.choice([1, 2]) + rng.choice([0, 5])])
    mode = rng.choice(['meta', 'meta', 'meta', 'minimize', 'minimize', 'bulk', 'single'])
    cfg = {'meta_size': ms, 'meta_buffer': buf, 'minimize': mode == 'minimize', 'bulk': mode == 'bulk',
           'concurrent': rng.choice([1, 1, 2, 4]), 'as_buffer': rng.random() < 0.15}
    if mode == 'single':
        cfg['meta_size'] = [1, 1]
        cfg['meta_buffer'] = 0
    if mode == 'bulk' and ms == [1, 1]:
        cfg['meta_size'] = [2, 1]
    cfg['source'] = 'wms' if (mode != 'bulk' and rng.random() < 0.35) else 'mock'
    return cfg


CORPUS = os.path.join(VERIF, 'corpus', 'C04')


def load_corpus():
    out = []
    if os.path.isdir(CORPUS):
        for fn in sorted(os.listdir(CORPUS)):
            if fn.endswith('.json'):
                out.append(json.load(open(os.path.join(CORPUS, fn))))
    return out


# fixed probes (h): 32x32 tiles of an 'rgb' picture with one cell per pixel = 1024 colours per tile (more than a palette
# holds); level 2 is 8x4 tiles, level 1 4x2
BASE_CONFIG_GRID = {'tile_size': [32, 32], 'res': [40, 20, 10], 'bbox': [0, 0, 2560, 1280], 'origin': 'll'}


# fixed probes (u): 8x8 tiles, level 0 is 8x4 tiles of 80 ground units; a cache over two sources (run_layers).  The
# meta tiles reach from inside a coverage across its border to tiles the coverage does not touch (there the source is
# blank when the tile is fetched alone).
LAYERS_GRID = {'tile_size': [8, 8], 'res': [10], 'bbox': [0, 0, 640, 320], 'origin': 'll'}


def _ly(coverages, tiles, meta_size=(2, 2), minimize=False):
    return {'level': 0, 'layers': {'config': {'meta_size': list(meta_size), 'meta_buffer': 0, 'minimize': minimize, 'coverages': coverages},
                                   'tiles': [list(t) for t in tiles]}}


LAYERS_PROBES = [
    # base map limited to the west (border in the middle of tile column 4), overlay everywhere
    _ly([[0.0, 0.0, 360.0, 320.0], None], [(4, 2, 0)]),
    _ly([[0.0, 0.0, 360.0, 320.0], None], [(2, 0, 0), (5, 1, 0)], meta_size=(4, 2)),
    # overlay limited to a box, base map everywhere
    _ly([None, [100.0, 50.0, 290.0, 200.0]], [(2, 1, 0)], meta_size=(3, 3)),
    # both limited, the coverages overlap in part
    _ly([[0.0, 0.0, 360.0, 170.0], [200.0, 100.0, 640.0, 320.0]], [(3, 1, 0), (4, 2, 0)], meta_size=(2, 2), minimize=True),
]


def _bc(cache_opts, glob, tiles, level=2, meta_size=(2, 2), concurrent=2, minimize=False):
    return {'level': level, 'base_config': {
        'config': {'meta_size': list(meta_size) if meta_size else None, 'meta_buffer': 0 if meta_size else None, 'minimize': minimize,
                   'bulk': False, 'concurrent': concurrent, 'as_buffer': False, 'source': 'mock', 'cache_opts': cache_opts},
        'tiles': [list(t) for t in tiles], 'globals_image': glob}}


BASE_CONFIG_PROBES = [
    # two meta tiles in one request -> two concurrent creators
    _bc('png-base', {'paletted': False}, [(1, 1, 2), (2, 1, 2)]),
    # four meta tiles, three creators
    _bc('png-base', {'paletted': False}, [(1, 1, 2), (2, 1, 2), (1, 2, 2), (2, 2, 2)], concurrent=3),
    # single tiles (no meta tiling) created concurrently
    _bc('png-base', {'paletted': False}, [(0, 0, 2), (1, 0, 2), (7, 3, 2)], meta_size=None),
    # one meta tile: created in the request thread
    _bc('png-base', {'paletted': False}, [(2, 1, 2), (3, 1, 2)]),
    # the default (paletted: true) and a JPEG cache with a configured quality
    _bc('png-base', {'paletted': True}, [(1, 1, 2), (2, 1, 2)]),
    _bc('jpeg-base', {'jpeg_quality': 35}, [(1, 1, 2), (2, 1, 2)]),
    _bc('jpeg-base', {'jpeg_quality': 35}, [(0, 0, 1), (1, 0, 1), (3, 1, 1)], level=1, meta_size=None, concurrent=4),
]


# ----------------------------------------------------------------------------- the run

def run(ctx):
    rng = ctx.rng
    from mapproxy.grid import MetaGrid

    grids = []
    defs = []
    T = {name: ([], []) for name in ('misc', 'meta_tile', 'minimal', 'plan', 'pixel', 'colour', 'faults', 'clip', 'enc', 'palette')}

    def add(name, term, desc):
        T[name][0].append(term)
        T[name][1].append(desc)

    def new_grid(spec=None):
        gc = make_grid(rng, len(grids) + 1, spec)
        grids.append(gc)
        defs.append(gc.definition())
        return gc

    ref_cache = {}

    def e2e(gc, cfg, coords, level, tag, kind='cells', cache=None, history=None, observed=None, cached_override=None, locked=None):
        """one request through a real TileManager; cache: a RecordingCache that already holds tiles (histories)."""
        if kind == 'cells':
            q = int(min(gc.res) * gc.S) // 10
        else:
            q = int(gc.res[level] * gc.S)        # one cell per pixel: the <= 1 px rule is a 3x3 neighbourhood
        picture = Picture(gc, q, kind)
        cached = sorted(c for c in (cache.stored if cache is not None else {}) if c[2] == level)
        if cached_override is not None:
            cached = sorted(c for c in cached_override if c[2] == level)
        locked_l = cached if locked is None else sorted(c for c in locked if c[2] == level)
        rep = {'grid': gc.spec, 'config': cfg, 'level': level, 'tiles': [list(c) if c is not None else None for c in coords],
               'picture': kind}
        if history is not None:
            rep['history'] = history
            rep['cached_before'] = cached
        # creators that run in parallel meet inside the source before it reads its query (schedule control)
        rendezvous = None
        if cfg['concurrent'] > 1 and not cfg['bulk']:
            unc0 = []
            for c in coords:
                if c is not None and tuple(c) not in set(cached) and tuple(c) not in unc0:
                    unc0.append(tuple(c))
            meta_expected = bool(cfg['meta_buffer']) or cfg['meta_size'] not in (None, [1, 1])
            if not meta_expected:
                n_req = len(unc0)
            elif cfg['minimize'] and len(unc0) > 1:
                n_req = 1
            else:
                n_req = len({block_of(gc, cfg, unc0, level, c, True) for c in unc0})
            if n_req >= 2:
                rendezvous = (min(cfg['concurrent'], n_req), n_req)
                ctx.count('e2e:creators_meet_in_source')
        if observed is not None:
            steps, served, has_meta, err = observed
        else:
            steps, served, has_meta, err = run_manager(gc, picture, cfg, coords, cache=cache, rendezvous=rendezvous)
        mode = 'single' if (steps is not None and not has_meta) else 'minimize' if cfg['minimize'] else 'bulk' if cfg['bulk'] else 'meta'
        ctx.count('e2e:' + mode)
        ctx.count('e2e:picture=' + kind)
        ctx.count('e2e:source=' + ('real WMSSource/WMSClient' if (cfg.get('source') == 'wms' and not cfg['bulk']) else 'mock source'))
        ctx.count('e2e:cache=' + ('empty' if not cached else 'holds_tiles'))
        ctx.count('e2e:concurrent=%d' % cfg['concurrent'])
        ctx.count('e2e:buffer=' + ('0' if not cfg['meta_buffer'] else '<tile' if cfg['meta_buffer'] < min(gc.tw, gc.th) else '>=tile'))
        nontrivial = bool(cfg['meta_buffer']) or cfg['meta_size'] not in ([1, 1], None)
        ctx.case(('e2e', json.dumps(rep, sort_keys=True)), nontrivial,
                 dict(rep, upstream_requests=[r for s in steps for r in s[0]][:4], stored=[[c for c, _ in s[1]] for s in steps][:4]) if steps is not None else dict(rep, error=err))
        if err is not None:
            ctx.fail('tile-manager-raises', 'TileManager raised %s' % err, rep)
            return

        def reference(coord):
            key = (gc.name, coord, q)
            if key not in ref_cache:
                scfg = {'meta_size': None, 'meta_buffer': None, 'minimize': False, 'bulk': False, 'concurrent': 1}
                st, sv, hm, er = run_manager(gc, Picture(gc, q, 'cells'), scfg, [coord])
                if er is not None or hm or len(st) != 1 or len(st[0][1]) != 1:
                    ctx.fail('single-tile-fetch-fails', 'fetching %r alone failed: %r' % (coord, er), rep)
                    ref_cache[key] = None
                else:
                    ref_cache[key] = decode(st[0][1][0][1])
            return ref_cache[key]

        if kind != 'cells':
            # the tile fetched alone through the same kind of cache shows exactly the picture (all four bands)
            for coord in [tuple(c) for c in coords if c is not None][:2]:
                key = (gc.name, coord, q, kind)
                if key not in ref_cache:
                    ref_cache[key] = True
                    scfg = {'meta_size': None, 'meta_buffer': None, 'minimize': False, 'bulk': False, 'concurrent': 1}
                    st, sv, hm, er = run_manager(gc, picture, scfg, [coord])
                    cells = reference(coord)
                    if er is None and cells is not None and st and st[0][1]:
                        got = picture.decode(st[0][1][0][1])
                        if any(picture.mismatch(got[k][j], cells[k][j], 0) for k in range(gc.th) for j in range(gc.tw)):
                            ctx.fail('single-tile-colour', 'tile %r fetched alone does not show the upstream picture' % (coord,), rep)

        oracle(ctx, gc, picture, cfg, coords, level, steps, served, has_meta, reference, rep, cached=set(cached), locked=set(locked_l))
        # correspondence: plan
        valid = [tuple(c) for c in coords if c is not None]
        uncached = [c for c in valid if c not in set(cached)]
        obs_plan = llit(steps, lambda s: '(%s, %s)' % (llit(s[0], lambda rq: '(%s, %s)' % (gc.zbbox(rq[0]), z2(rq[1]))),
                                                       llit([c for c, _ in s[1]], coord_lit)))
        ms = cfg['meta_size'] or [1, 1]
        mbuf = 0 if (cfg['bulk'] or not has_meta) else (cfg['meta_buffer'] or 0)
        mgl = mg_lit(gc, ms, mbuf)
        add('plan', '(%s, %s, %s, %s, %s, %s, %s, Some %s)' % (mgl, blit(has_meta), blit(cfg['minimize']), blit(cfg['bulk'] and has_meta),
                                                              llit(cached, coord_lit), llit(locked_l, coord_lit), llit(valid, coord_lit), obs_plan),
            dict(rep, observed_steps=[{'requests': s[0], 'stored': [c for c, _ in s[1]]} for s in steps]))
        # correspondence: sampled pixels of stored tiles
        if not has_meta or cfg['bulk']:
            how = 'HowSingle'
        elif cfg['minimize'] and len(uncached) > 1:
            how = '(HowMinimal %s)' % llit(uncached, coord_lit)
        else:
            how = 'HowMeta'
        for reqs, rec in steps:
            for coord, img in rec:
                got = picture.decode(img)
                pts = {(0, 0), (gc.tw - 1, 0), (0, gc.th - 1), (gc.tw - 1, gc.th - 1)}
                for _ in range(ctx.n(2, 4)):
                    pts.add((rng.randrange(gc.tw), rng.randrange(gc.th)))
                for (j, k) in sorted(pts):
                    if j >= img.size[0] or k >= img.size[1]:
                        continue
                    v = got[k][j]
                    if kind == 'cells':
                        add('pixel', '(%s, %d, %s, %s, %d, %d, Some %s)' % (mgl, q, how, coord_lit(coord), j, k, olit(v, z2)),
                            dict(rep, tile=coord, pixel=(j, k), value=v))
                    else:
                        add('colour', '(%s, %d, %s, %s, %s, %d, %d, Some (%d, %d, %d, %d))' % (
                            (mgl, q, how, blit(picture.transparent), coord_lit(coord), j, k) + tuple(v)),
                            dict(rep, tile=coord, pixel=(j, k), rgba=v))

    def run_concurrent(gc, level, kind, spec=None):
        """two request threads on one TileManager with a forced interleaving (see run_two_requests)."""
        if spec is None:
            cfg = gen_cfg(rng, gc)
            cfg['bulk'] = False
            cfg['concurrent'] = 1
            if cfg['meta_size'] == [1, 1] and not cfg['meta_buffer']:
                cfg['meta_size'] = [2, 2]
            pre = pick_tiles(rng, gc, level, 'one')
            coords1 = pick_tiles(rng, gc, level, rng.choice(['one', 'block']))
            same = rng.random() < 0.6
            if same:
                # another (or the same) tile of the first meta tile of request 1
                (bx0, bx1), (by0, by1) = block_of(gc, dict(cfg, minimize=False), coords1, level, coords1[0], True)
                nx, ny = gc.grid_size(level)
                cand = [(x, y, level) for x in range(bx0, bx1 + 1) for y in range(by0, by1 + 1) if 0 <= x < nx and 0 <= y < ny]
                coords2 = [rng.choice(cand)]
            else:
                coords2 = pick_tiles(rng, gc, level, 'one')
            spec = {'config': cfg, 'pre': pre, 'request1': coords1, 'request2': coords2}
        cfg = spec['config']
        pre, coords1, coords2 = [[tuple(c) for c in spec[k]] for k in ('pre', 'request1', 'request2')]
        q = int(min(gc.res) * gc.S) // 10 if kind == 'cells' else int(gc.res[level] * gc.S)
        picture = Picture(gc, q, kind)
        # afterwards: remove the tile request 2 asked for and ask for it again
        post = [([coords2[0]], [coords2[0]])]
        res = run_two_requests(gc, picture, cfg, pre, coords1, coords2, post)
        sched = {'schedule': 'request1 held inside MetaGrid.meta_tile (first grid.tile_bbox call) while request2 runs',
                 'pre': pre, 'request1': coords1, 'request2': coords2, 'then': 'remove %r, request it again' % (coords2[0],)}
        ctx.count('concurrent_requests')
        if isinstance(res, str):
            ctx.fail('tile-manager-raises', 'two concurrent requests: %s' % res,
                     {'grid': gc.spec, 'config': cfg, 'level': level, 'concurrent_requests': sched})
            return
        has_meta, obs = res
        names = ['request0', 'request2', 'request1', 'request3']
        for name, (coords, steps, served, cached_a, cached_b) in zip(names, obs):
            e2e(gc, cfg, coords, level, 'concurrent', kind=kind, history=dict(sched, this=name),
                observed=(steps, served, has_meta, None), cached_override=cached_a, locked=cached_b)

    def run_clip(gc, level, spec=None):
        """a source with alpha and a clipping coverage (clip: true) in front of an opaque cache: a tile cut out of a
        meta tile that crosses the coverage border equals the same tile fetched alone (merge_images clips and draws
        on the background on both ways)."""
        r = gc.res[level]
        nx, ny = gc.grid_size(level)
        if spec is None:
            xa = rng.randrange(nx)
            ya = rng.randrange(ny)
            xb, yb = min(nx - 1, xa + rng.randrange(0, 3)), min(ny - 1, ya + rng.randrange(0, 2))
            lo, hi = gc.tile_rect(xa, ya, level), gc.tile_rect(xb, yb, level)
            d = [rng.choice([0, 0, 1, 2, -1]) for _ in range(4)]
            cov = [min(lo[0], hi[0]) + d[0] * r, min(lo[1], hi[1]) + d[1] * r, max(lo[2], hi[2]) - d[2] * r, max(lo[3], hi[3]) - d[3] * r]
            # the property speaks about the grid extent: keep the coverage inside it
            cov = [max(cov[0], gc.bbox[0]), max(cov[1], gc.bbox[1]), min(cov[2], gc.bbox[2]), min(cov[3], gc.bbox[3])]
            if cov[2] - cov[0] < 3 * r or cov[3] - cov[1] < 3 * r:
                return
            cfg = {'meta_size': rng.choice([[2, 2], [3, 2], [2, 1], [1, 2], [4, 4]]), 'meta_buffer': rng.choice([0, 0, 0, 2, 5]),
                   'minimize': rng.random() < 0.3, 'bulk': False, 'concurrent': 1, 'as_buffer': rng.random() < 0.2, 'source': 'mock',
                   'clip': [float(v) for v in cov]}
            coords = []
            for y in range(ya, yb + 1):
                for x in range(xa, xb + 1):
                    t = gc.tile_rect(x, y, level)
                    if t[0] < cov[2] and cov[0] < t[2] and t[1] < cov[3] and cov[1] < t[3]:
                        coords.append((x, y, level))
            if not coords:
                return
            rng.shuffle(coords)
            coords = coords[:rng.randrange(1, len(coords) + 1)]
            spec = {'config': cfg, 'tiles': coords}
        cfg = spec['config']
        coords = [tuple(c) for c in spec['tiles']]
        cov = [frac(v) for v in cfg['clip']]
        if not gc.can_scale(*cfg['clip']) or cov[0] >= cov[2] or cov[1] >= cov[3]:
            return
        q = int(gc.res[level] * gc.S)
        picture = Picture(gc, q, 'rgba')
        rep = {'grid': gc.spec, 'config': cfg, 'level': level, 'tiles': [list(c) for c in coords],
               'picture': 'rgba source with clip coverage, opaque cache'}
        steps, served, has_meta, err = run_manager(gc, picture, cfg, coords)
        ctx.count('clip_coverage')
        ctx.case(('clip', json.dumps(rep, sort_keys=True)), True,
                 dict(rep, stored=[[c for c, _ in s[1]] for s in steps][:4]) if (steps is not None and len(ctx.samples) < 6) else None)
        if err is not None:
            ctx.fail('tile-manager-raises', 'TileManager raised %s' % err, rep)
            return
        valid = []
        for c in coords:
            if c not in valid:
                valid.append(c)
        for c, img in served:
            if c is not None and img is None:
                ctx.fail('requested-tile-not-produced', 'tile %r (intersects the coverage) is answered without image' % (c,), rep)
        buf = cfg['meta_buffer'] if has_meta else 0
        gx0, gy0, gx1, gy1 = gc.bbox
        ms = cfg['meta_size'] or [1, 1]
        mgl = mg_lit(gc, ms, buf)
        how = '(HowMinimal %s)' % llit(valid, coord_lit) if (cfg['minimize'] and len(valid) > 1) else 'HowMeta'
        for reqs, rec in steps:
            for coord, img in rec:
                rect = gc.tile_rect(coord[0], coord[1], level)
                if not (rect[0] < cov[2] and cov[0] < rect[2] and rect[1] < cov[3] and cov[1] < rect[3]):
                    continue        # outside the coverage: fetched alone there is no tile at all
                # the same tile fetched alone through the same source and cache options
                key = (gc.name, coord, 'clip', tuple(cfg['clip']))
                if key not in ref_cache:
                    scfg = {'meta_size': None, 'meta_buffer': None, 'minimize': False, 'bulk': False, 'concurrent': 1, 'clip': cfg['clip']}
                    st, sv, hm, er = run_manager(gc, picture, scfg, [coord])
                    ref_cache[key] = st[0][1][0][1] if (er is None and st and st[0][1]) else None
                ref = ref_cache[key]
                (bx0, bx1), (by0, by1) = block_of(gc, cfg, valid, level, coord, has_meta)
                lo, hi = gc.tile_rect(bx0, by0, level), gc.tile_rect(bx1, by1, level)
                box = (min(lo[0], hi[0]) - buf * r, min(lo[1], hi[1]) - buf * r, max(lo[2], hi[2]) + buf * r, max(lo[3], hi[3]) + buf * r)
                untruncated = buf == 0 or (box[0] >= gx0 and box[1] >= gy0 and box[2] <= gx1 and box[3] <= gy1)
                if ref is None:
                    ctx.fail('single-tile-fetch-fails', 'tile %r intersects the coverage but fetched alone it is not produced' % (coord,), rep)
                elif untruncated:
                    ctx.count('clip:compared_with_tile_fetched_alone')
                    if img.mode != ref.mode or img.size != ref.size or img.tobytes() != ref.tobytes():
                        a, b = picture.decode(img), picture.decode(ref)
                        where = [(j, k) for k in range(min(len(a), len(b))) for j in range(min(len(a[0]), len(b[0]))) if a[k][j] != b[k][j]][:1]
                        ctx.fail('tile-differs-from-tile-fetched-alone',
                                 'tile %r cut out of a meta tile (mode %s) differs from the tile fetched alone (mode %s), first at %r: %r / %r; '
                                 'source with clip coverage, no buffer cut off' % (
                                     coord, img.mode, ref.mode, where, where and a[where[0][1]][where[0][0]], where and b[where[0][1]][where[0][0]]),
                                 dict(rep, tile=coord))
                else:
                    ctx.count('clip:not_compared_buffer_cut_off')
                # correspondence: pixels at least two pixels away from the coverage border
                got = picture.decode(img)
                for _ in range(ctx.n(4, 6)):
                    j, k = rng.randrange(gc.tw), rng.randrange(gc.th)
                    px0, px1 = rect[0] + j * r, rect[0] + (j + 1) * r
                    py1, py0 = rect[3] - k * r, rect[3] - (k + 1) * r
                    inside = px0 >= cov[0] + 2 * r and px1 <= cov[2] - 2 * r and py0 >= cov[1] + 2 * r and py1 <= cov[3] - 2 * r
                    outside = px1 <= cov[0] - 2 * r or px0 >= cov[2] + 2 * r or py1 <= cov[1] - 2 * r or py0 >= cov[3] + 2 * r
                    if not (inside or outside) or j >= img.size[0] or k >= img.size[1]:
                        continue
                    add('clip', '(%s, %d, %s, %s, %s, %d, %d, Some (%d, %d, %d, %d))' % (
                        (mgl, q, how, blit(inside), coord_lit(coord), j, k) + tuple(got[k][j])),
                        dict(rep, tile=coord, pixel=(j, k), inside_coverage=inside, rgba=got[k][j]))

    def run_layers(gc, level, spec):
        """a transparent cache over two sources: an opaque base map below (picture kind rgba1) and an overlay with fully
        transparent cells on top (kind holes), each with an optional clipping coverage.  Every tile of the meta tile -
        inside, across and outside the coverages - is the same image as the tile fetched alone (where a source whose
        coverage the tile does not touch is blank and drops out of the merge), and both show, two pixels or more away
        from a coverage border, overlay over base map over transparent background."""
        cfg = spec['config']
        coords = [tuple(c) for c in spec['tiles']]
        covs = [([frac(v) for v in c] if c else None) for c in cfg['coverages']]
        r = gc.res[level]
        q = int(r * gc.S)
        pictures = [Picture(gc, q, 'rgba1'), Picture(gc, q, 'holes')]
        rep = {'grid': gc.spec, 'config': cfg, 'level': level, 'tiles': [list(c) for c in coords],
               'picture': 'two sources: opaque base map below, overlay with transparent cells on top; transparent cache'}
        stored, served, has_meta, err = run_layered_manager(gc, pictures, cfg['coverages'], cfg, coords)
        ctx.count('layers')
        ctx.case(('layers', json.dumps(rep, sort_keys=True)), True, dict(rep, stored=sorted(stored or {})[:6]) if len(ctx.samples) < 8 else None)
        if err is not None:
            ctx.fail('tile-manager-raises', 'TileManager (two sources) raised %s' % err, rep)
            return

        def norm(img):
            # the colour of a fully transparent pixel is invisible
            return [[(px if px[3] else (0, 0, 0, 0)) for px in row] for row in pictures[0].decode(img.convert('RGBA'))]

        def expected(coord, j, k):
            """colour of pixel (j, k) of the tile, None when it is nearer than two pixels to a coverage border"""
            rect = gc.tile_rect(coord[0], coord[1], level)
            px0, px1 = rect[0] + j * r, rect[0] + (j + 1) * r
            py1, py0 = rect[3] - k * r, rect[3] - (k + 1) * r
            xs, ys = pictures[0].cells((float(px0), float(py0), float(px1), float(py1)), (1, 1))
            out = (0, 0, 0, 0)
            for i, cov in enumerate(covs):
                if cov is not None:
                    inside = px0 >= cov[0] + 2 * r and px1 <= cov[2] - 2 * r and py0 >= cov[1] + 2 * r and py1 <= cov[3] - 2 * r
                    outside = px1 <= cov[0] - 2 * r or px0 >= cov[2] + 2 * r or py1 <= cov[1] - 2 * r or py0 >= cov[3] + 2 * r
                    if not (inside or outside):
                        return None
                    if outside:
                        continue
                col = colour_of(False, xs[0], ys[0]) if i == 0 else overlay_colour(xs[0], ys[0])
                if col is not None:
                    out = col
            return out

        def check_expected(coord, rows, what):
            for k in range(len(rows)):
                for j in range(len(rows[k])):
                    exp = expected(coord, j, k)
                    if exp is not None:
                        ctx.count('layers:pixel_compared_with_expected_merge')
                        if rows[k][j] != exp:
                            ctx.fail('layer-merge-wrong',
                                     'tile %r %s: pixel (%d, %d) is %r, overlay over base map (each inside its coverage) is %r' % (
                                         coord, what, j, k, rows[k][j], exp), dict(rep, tile=coord, pixel=(j, k)))
                            return

        for c, img in served:
            if img is None:
                ctx.fail('requested-tile-not-produced', 'tile %r is answered without image (the overlay covers everything)' % (c,), rep)
            elif c in stored and norm(img) != norm(stored[c]):
                ctx.fail('served-differs-from-stored', 'tile %r: served and stored image differ' % (c,), dict(rep, tile=c))
        for coord in sorted(stored):
            rows = norm(stored[coord])
            check_expected(coord, rows, 'cut out of its meta tile' if has_meta else 'fetched alone')
            key = (gc.name, coord, 'layers', json.dumps(cfg['coverages']))
            if key not in ref_cache:
                scfg = {'meta_size': None, 'meta_buffer': None, 'coverages': cfg['coverages']}
                st, sv, hm, er = run_layered_manager(gc, pictures, cfg['coverages'], scfg, [coord])
                ref_cache[key] = st.get(coord) if er is None else None
            ref = ref_cache[key]
            if ref is None:
                ctx.fail('single-tile-fetch-fails', 'tile %r fetched alone through the two sources is not produced' % (coord,), dict(rep, tile=coord))
                continue
            ref_rows = norm(ref)
            check_expected(coord, ref_rows, 'fetched alone')
            ctx.count('layers:compared_with_tile_fetched_alone')
            if rows != ref_rows:
                where = [(j, k) for k in range(len(rows)) for j in range(len(rows[k])) if rows[k][j] != ref_rows[k][j]][:1]
                ctx.fail('tile-differs-from-tile-fetched-alone',
                         'two sources: tile %r cut out of a meta tile differs from the tile fetched alone, first at %r: %r / %r' % (
                             coord, where, where and rows[where[0][1]][where[0][0]], where and ref_rows[where[0][1]][where[0][0]]),
                         dict(rep, tile=coord))

    def run_encoded(gc, level, spec=None):
        """what a real cache backend stores (the encoded bytes of tile.source.as_buffer(), lossless options) for an
        upstream that delivers alpha (RGBA), true colour + tRNS, or opaque RGBA behind a clipping coverage, with opaque,
        transparent and `mixed` cache image options, as a history on ONE cache (its image options object lives as
        long as the cache): every stored tile equals the same tile fetched alone on a fresh cache."""
        r = gc.res[level]
        nx, ny = gc.grid_size(level)
        if spec is None:
            variant = rng.choice(['alpha-opaque-cache', 'trns', 'mixed-clip'])
            xa, ya = rng.randrange(nx), rng.randrange(ny)
            cfg = {'meta_size': rng.choice([[2, 2], [3, 2], [2, 1], [1, 2], [4, 4]]), 'meta_buffer': rng.choice([0, 0, 0, 2, 5]),
                   'minimize': rng.random() < 0.3, 'bulk': False, 'concurrent': rng.choice([1, 1, 2]), 'as_buffer': True, 'source': 'mock'}
            block = [(x, y, level) for y in range(ya, min(ny, ya + 2)) for x in range(xa, min(nx, xa + 3))]
            if variant == 'alpha-opaque-cache':
                kind, cfg['cache_opts'] = 'rgba', 'png-opaque'
                requests = [block]
            elif variant == 'trns':
                kind, cfg['cache_opts'] = 'rgbt', rng.choice(['png-opaque', 'png-transparent'])
                requests = [block]
            else:
                kind, cfg['cache_opts'] = 'rgba1', 'mixed'
                t = gc.tile_rect(xa, ya, level)
                cov = [max(t[0] - 2 * r, gc.bbox[0]), max(t[1] - 2 * r, gc.bbox[1]), min(t[2] + 2 * r, gc.bbox[2]), min(t[3] + 2 * r, gc.bbox[3])]
                if t[0] < cov[0] or t[1] < cov[1] or t[2] > cov[2] or t[3] > cov[3]:
                    return          # the tile is not inside the grid extent
                cfg['clip'] = [float(v) for v in cov]
                nb = [(x, y, level) for y in range(max(0, ya - 1), min(ny, ya + 2)) for x in range(max(0, xa - 1), min(nx, xa + 2))
                      if (x, y) != (xa, ya)]
                nb = [c for c in nb if (lambda q: q[0] < cov[2] and cov[0] < q[2] and q[1] < cov[3] and cov[1] < q[3])(gc.tile_rect(c[0], c[1], level))]
                if not nb:
                    return
                rng.shuffle(nb)
                # first the tile inside the coverage (opaque), then neighbours that cross the coverage border
                requests = [[(xa, ya, level)], nb[:rng.randrange(1, len(nb) + 1)]]
            spec = {'config': cfg, 'picture': kind, 'requests': requests}
        cfg, kind = spec['config'], spec['picture']
        requests = [[tuple(c) for c in rq] for rq in spec['requests']]
        if cfg.get('clip') and not gc.can_scale(*cfg['clip']):
            return
        cov = [frac(v) for v in cfg['clip']] if cfg.get('clip') else None
        q = int(gc.res[level] * gc.S)
        picture = Picture(gc, q, kind)
        rep = {'grid': gc.spec, 'config': cfg, 'level': level, 'requests_on_one_cache': [[list(c) for c in rq] for rq in requests],
               'picture': kind, 'compared': 'decoded bytes of tile.source.as_buffer() as a cache backend stores them'}
        ctx.count('encoded:' + kind + '/' + cfg['cache_opts'])
        cache = RecordingCache([], threading.Lock())
        gx0, gy0, gx1, gy1 = gc.bbox
        for n, coords in enumerate(requests):
            before = set(cache.stored)
            steps, served, has_meta, err = run_manager(gc, picture, cfg, coords, cache=cache)
            ctx.case(('encoded', json.dumps(rep, sort_keys=True), n), True, dict(rep, request=n) if len(ctx.samples) < 6 else None)
            if err is not None:
                ctx.fail('tile-manager-raises', 'TileManager raised %s' % err, dict(rep, request=n))
                return
            unc = []
            for c in coords:
                if c not in before and c not in unc:
                    unc.append(c)
            buf = cfg['meta_buffer'] if has_meta else 0
            for reqs, rec in steps:
                for coord, img in rec:
                    rect = gc.tile_rect(coord[0], coord[1], level)
                    if cov is not None and not (rect[0] < cov[2] and cov[0] < rect[2] and rect[1] < cov[3] and cov[1] < rect[3]):
                        continue
                    (bx0, bx1), (by0, by1) = block_of(gc, cfg, unc, level, coord, has_meta)
                    lo, hi = gc.tile_rect(bx0, by0, level), gc.tile_rect(bx1, by1, level)
                    box = (min(lo[0], hi[0]) - buf * r, min(lo[1], hi[1]) - buf * r, max(lo[2], hi[2]) + buf * r, max(lo[3], hi[3]) + buf * r)
                    if not (buf == 0 or (box[0] >= gx0 and box[1] >= gy0 and box[2] <= gx1 and box[3] <= gy1)):
                        ctx.count('encoded:not_compared_buffer_cut_off')
                        continue
                    key = (gc.name, coord, 'encoded', kind, cfg['cache_opts'], tuple(cfg.get('clip') or ()))
                    if key not in ref_cache:
                        scfg = {'meta_size': None, 'meta_buffer': None, 'minimize': False, 'bulk': False, 'concurrent': 1,
                                'cache_opts': cfg['cache_opts'], 'clip': cfg.get('clip')}
                        st, sv, hm, er = run_manager(gc, picture, scfg, [coord])
                        ref_cache[key] = st[0][1][0][1] if (er is None and st and st[0][1]) else None
                    ref = ref_cache[key]
                    if ref is None:
                        ctx.fail('single-tile-fetch-fails', 'tile %r fetched alone is not produced' % (coord,), dict(rep, request=n))
                        continue
                    ctx.count('encoded:compared_with_tile_fetched_alone')
                    has_alpha = any(px[3] < 255 for row in picture.decode(img) for px in row)
                    add('enc', '(%s, %s, %s)' % (blit(cfg['cache_opts'] == 'mixed'), blit(has_alpha),
                                                 'EncJPEG' if img.info.get('stored_format') == 'JPEG' else 'EncPNG'),
                        dict(rep, request=n, tile=coord, stored_format=img.info.get('stored_format'), has_alpha=has_alpha))
                    add('palette', '(Some 0, true, %s, %s, %s, %s)' % (blit(cfg['cache_opts'] != 'mixed'), blit(cfg['cache_opts'] == 'mixed'),
                                                                       blit(has_alpha), blit(img.info.get('stored_mode') == 'P')),
                        dict(rep, request=n, tile=coord, stored_mode=img.info.get('stored_mode')))
                    fa, fb = img.info.get('stored_format'), ref.info.get('stored_format')
                    if fa != fb or img.size != ref.size or img.tobytes() != ref.tobytes():
                        a, b = picture.decode(img), picture.decode(ref)
                        where = [(j, k) for k in range(min(len(a), len(b))) for j in range(min(len(a[0]), len(b[0]))) if a[k][j] != b[k][j]][:1]
                        ctx.fail('tile-differs-from-tile-fetched-alone',
                                 'request %d: tile %r as stored (%s) differs from the same tile fetched alone on a fresh cache (%s), first at %r: %r / %r; '
                                 'no buffer cut off' % (n, coord, fa, fb, where, where and a[where[0][1]][where[0][0]], where and b[where[0][1]][where[0][0]]),
                                 dict(rep, request=n, tile=coord))

    def run_base_config(gc, level, spec):
        """(h) a base configuration (globals) that differs from the defaults in what decides the encoding of a stored
        tile (image.paletted: false -> true colour PNG instead of 255 colours; image.jpeg_quality), in force in the
        request thread as in MapProxyApp (local_base_config); the image options of cache and source leave the encoding
        open (colors None).  One request whose tiles need several creators (meta tiles, or single tiles) handled by
        concurrent_tile_creators > 1: every stored tile, as a real backend writes it (tile.source.as_buffer()), is the
        same image as the same tile fetched alone under the same base configuration (format, PNG mode, every pixel);
        with paletted: false the PNG is lossless, so it also equals the upstream picture pixel by pixel.
        Deterministic: the specs are fixed (BASE_CONFIG_PROBES / corpus)."""
        from copy import deepcopy
        from mapproxy.config import local_base_config
        from mapproxy.config.config import load_default_config, finish_base_config
        cfg = spec['config']
        coords = [tuple(c) for c in spec['tiles']]
        glob = spec['globals_image']
        picture = Picture(gc, int(gc.res[level] * gc.S), 'rgb')
        rep = {'grid': gc.spec, 'config': cfg, 'level': level, 'tiles': [list(c) for c in coords], 'picture': 'rgb',
               'globals': {'image': glob}, 'compared': 'decoded bytes of tile.source.as_buffer() as a cache backend stores them'}
        ctx.count('base_config:' + cfg['cache_opts'] + '/' + ','.join('%s=%s' % kv for kv in sorted(glob.items())))
        ctx.case(('base_config', json.dumps(rep, sort_keys=True)), True, rep if len(ctx.samples) < 6 else None)
        tmp = ctx.tmpdir('c04-base-config')
        try:
            conf = deepcopy(load_default_config())
            conf.conf_base_dir = tmp
            finish_base_config(conf)
            for k, v in glob.items():
                conf.image[k] = v
        except Exception as e:  # noqa
            ctx.fail('tile-manager-raises', 'base configuration cannot be built: %s: %s' % (type(e).__name__, e), rep)
            return
        with local_base_config(conf):
            steps, served, has_meta, err = run_manager(gc, picture, cfg, coords, cache=RecordingCache([], threading.Lock()))
            if err is not None:
                ctx.fail('tile-manager-raises', 'TileManager raised %s' % err, rep)
                return
            n_creators = len([1 for reqs, rec in steps if rec])
            ctx.count('base_config:creators_in_request=%d' % n_creators)
            stored = {}
            for reqs, rec in steps:
                for coord, img in rec:
                    if coord in stored:
                        ctx.fail('tile-stored-twice', 'tile %r is stored twice by one request' % (coord,), rep)
                    stored[coord] = img
            for coord in coords:
                if coord not in stored:
                    ctx.fail('requested-tile-not-stored', 'requested tile %r is not stored' % (coord,), rep)
            for coord in sorted(stored):
                img = stored[coord]
                scfg = {'meta_size': None, 'meta_buffer': None, 'minimize': False, 'bulk': False, 'concurrent': 1,
                        'cache_opts': cfg['cache_opts']}
                st, sv, hm, er = run_manager(gc, picture, scfg, [coord])
                ref = st[0][1][0][1] if (er is None and st and st[0][1]) else None
                if ref is None:
                    ctx.fail('single-tile-fetch-fails', 'tile %r fetched alone is not produced' % (coord,), dict(rep, tile=coord))
                    continue
                ctx.count('base_config:compared_with_tile_fetched_alone')
                # correspondence: palette or true colour, as the base configuration of the REQUEST decides
                add('palette', '(None, %s, %s, false, false, %s)' % (blit(bool(conf.image.paletted)), blit(cfg['cache_opts'] == 'png-base'),
                                                                     blit(img.info.get('stored_mode') == 'P')),
                    dict(rep, tile=coord, stored_mode=img.info.get('stored_mode')))
                fa, fb = (img.info.get('stored_format'), img.info.get('stored_mode')), (ref.info.get('stored_format'), ref.info.get('stored_mode'))
                if fa != fb or img.size != ref.size or img.tobytes() != ref.tobytes():
                    a, b = picture.decode(img), picture.decode(ref)
                    diff = [(j, k) for k in range(min(len(a), len(b))) for j in range(min(len(a[0]), len(b[0]))) if a[k][j] != b[k][j]]
                    w = diff[:1]
                    ctx.fail('tile-differs-from-tile-fetched-alone',
                             'base configuration image: %r, %d creators (concurrent_tile_creators %d): tile %r as stored (%s/%s) differs from the '
                             'same tile fetched alone under the same base configuration (%s/%s) at %d pixels, first at %r: %r / %r; no buffer cut off'
                             % (glob, n_creators, cfg['concurrent'], coord, fa[0], fa[1], fb[0], fb[1], len(diff), w,
                                w and a[w[0][1]][w[0][0]], w and b[w[0][1]][w[0][0]]),
                             dict(rep, tile=coord))
                    continue
                if cfg['cache_opts'] == 'png-base' and glob.get('paletted') is False:
                    # lossless: the stored tile is the upstream picture
                    want = picture.decode(picture.render(gc.grid.tile_bbox(coord), gc.grid.tile_size))
                    a = picture.decode(img)
                    diff = [(j, k) for k in range(len(a)) for j in range(len(a[0])) if a[k][j] != want[k][j]]
                    if diff:
                        j, k = diff[0]
                        ctx.fail('stored-tile-differs-from-picture',
                                 'base configuration image: %r: tile %r as stored (%s/%s) differs from the upstream picture at %d pixels, first at '
                                 '%r: %r / %r' % (glob, coord, fa[0], fa[1], len(diff), (j, k), a[k][j], want[k][j]), dict(rep, tile=coord))

    def run_faults(gc, level, kind, spec=None):
        """an upstream fault during one request (a response that must not be cached / a response that ends in the
        middle of the image data), then the same request again without fault, on one cache."""
        if spec is None:
            cfg = gen_cfg(rng, gc)
            cfg['concurrent'] = 1
            cfg['source'] = 'mock'
            fault = rng.choice(['uncacheable', 'uncacheable', 'truncate', 'error', 'error'])
            if fault == 'truncate':
                cfg['bulk'] = False
                if cfg['meta_size'] == [1, 1] and not cfg['meta_buffer']:
                    cfg['meta_size'] = [2, 2]
            coords = pick_tiles(rng, gc, level, rng.choice(['block', 'block', 'random', 'one']))
            spec = {'config': cfg, 'tiles': coords, 'fault_at': {str(rng.choice([0, 0, 0, 1, 1, 2])): fault}}
        cfg = spec['config']
        coords = [tuple(c) for c in spec['tiles']]
        fault_at = dict((int(k), v) for k, v in spec['fault_at'].items())
        q = int(min(gc.res) * gc.S) // 10 if kind == 'cells' else int(gc.res[level] * gc.S)
        picture = Picture(gc, q, kind)
        rep = {'grid': gc.spec, 'config': cfg, 'level': level, 'tiles': [list(c) for c in coords], 'picture': kind,
               'upstream_fault_at_request_number': spec['fault_at']}
        cache = RecordingCache([], threading.Lock())
        steps, served, has_meta, err = run_manager(gc, picture, cfg, coords, cache=cache, fault_at=fault_at)
        last = run_manager.last
        has_meta = last.get('has_meta', False)
        up, events = last['upstream'], last['events']
        requests = [(ev[2], ev[3]) for ev in events if ev[0] == 'req']
        records = [rec for ev in events if ev[0] == 'store' for rec in ev[2]]
        bad, cut, errs = up.faulted['uncacheable'], up.faulted['truncate'], up.faulted['error']
        ctx.count('faults:' + ('uncacheable' if bad else 'truncated' if cut else 'upstream_error' if errs else 'none_hit'))
        ctx.case(('faults', json.dumps(rep, sort_keys=True)), True,
                 dict(rep, requests=requests[:4], stored=[c for c, _ in records][:8], error=err) if len(ctx.samples) < 6 else None)
        if err is not None and not cut and not errs:
            ctx.fail('tile-manager-raises', 'TileManager raised %s' % err, rep)
            return
        if err is None:
            # a request that does not fail answers every requested tile with an image (whatever the upstream did)
            lost = [c for c, img in (served or []) if c is not None and img is None]
            if lost:
                ctx.fail('requested-tile-not-produced', 'tiles %r are answered without image by a request that did not fail '
                         '(upstream fault: %r)' % (lost, spec['fault_at']), rep)

        def reference(coord):
            key = (gc.name, coord, q)
            if key not in ref_cache:
                scfg = {'meta_size': None, 'meta_buffer': None, 'minimize': False, 'bulk': False, 'concurrent': 1}
                st, sv, hm, er = run_manager(gc, Picture(gc, q, 'cells'), scfg, [coord])
                ref_cache[key] = None if (er is not None or not st or not st[0][1]) else decode(st[0][1][0][1])
            return ref_cache[key]

        valid = []
        for c in coords:
            if c not in valid:
                valid.append(c)
        r = gc.res[level]
        m = -((-int(r * gc.S)) // q)
        buf = cfg['meta_buffer'] if (has_meta and not cfg['bulk']) else 0
        # whatever the fault: what is in the cache afterwards shows the picture (a substitute image that must not be
        # cached or the rows of a cut-off image that arrived are not the picture)
        for coord, img in records:
            check_content(ctx, gc, picture, cfg, valid, level, coord, img, has_meta, buf, m, reference,
                          dict(rep, after='request with the upstream fault'))
        ms = cfg['meta_size'] or [1, 1]
        mgl = mg_lit(gc, ms, 0 if (cfg['bulk'] or not has_meta) else (cfg['meta_buffer'] or 0))
        blist = lambda l: llit(l, gc.zbbox)   # noqa
        if any(sum(1 for rq in requests if rq[0] == b) > 1 for b in bad + cut + errs):
            # the model names a faulted response by its bbox: not comparable when two requests have the same bbox
            ctx.count('faults:not_compared_same_bbox_twice')
        else:
            add('faults', '(%s, %s, %s, %s, %s, %s, %s, %s, Some (%s, %s, %s))' % (
                mgl, blit(has_meta), blit(cfg['minimize']), blit(cfg['bulk'] and has_meta), blist(bad), blist(cut), blist(errs),
                llit(valid, coord_lit), llit(requests, lambda rq: '(%s, %s)' % (gc.zbbox(rq[0]), z2(rq[1]))),
                llit([c for c, _ in records], coord_lit), blit(err is not None)),
                dict(rep, requests=requests, stored=[c for c, _ in records], error=err))
        # the same request again, the fault is over: every tile is served and shows the picture
        stored1 = set(c for c, _ in records)
        steps2, served2, hm2, err2 = run_manager(gc, picture, cfg, coords, cache=cache)
        if err2 is not None:
            ctx.fail('tile-manager-raises', 'TileManager raised %s on the request after the fault' % err2, rep)
            return
        unc2 = [c for c in valid if c not in stored1]
        rep2 = dict(rep, after='the same request again without fault')
        for c, img in served2:
            if c is None:
                continue
            if img is None:
                ctx.fail('requested-tile-not-produced', 'tile %r is not served after the fault is over' % (c,), rep2)
            else:
                check_content(ctx, gc, picture, cfg, valid if c in stored1 else unc2, level, c, img, has_meta, buf, m, reference, rep2)

    def run_history(gc, level, kind):
        """several requests (configuration may change in between) and removals of single tiles on ONE cache:
        partially cached meta tiles, with and without their main tile."""
        cache = RecordingCache([], threading.Lock())
        hist = []
        base = pick_tiles(rng, gc, level, 'block')
        for step in range(rng.randrange(3, 6)):
            stored_here = sorted(c for c in cache.stored if c[2] == level)
            if stored_here and rng.random() < 0.45:
                k = rng.randrange(1, max(2, len(stored_here) // 2 + 1))
                victims = rng.sample(stored_here, min(k, len(stored_here)))
                for c in victims:
                    del cache.stored[c]
                hist.append({'remove': victims})
                ctx.count('history:remove')
                continue
            cfg = gen_cfg(rng, gc)
            cfg['concurrent'] = rng.choice([1, 1, 2])
            how = rng.choice(['same', 'same', 'near', 'one'])
            if how == 'same':
                coords = list(base)
            elif how == 'near':
                coords = pick_tiles(rng, gc, level, 'block')
            else:
                coords = [rng.choice(base)]
            e2e(gc, cfg, coords, level, 'history', kind=kind, cache=cache, history=list(hist))
            hist.append({'request': [list(c) for c in coords], 'config': cfg})
            ctx.count('history:request')

    # ---- corpus first
    for item in load_corpus():
        gc = new_grid(item['grid'])
        if 'encoded' in item:
            run_encoded(gc, item['level'], spec=item['encoded'])
        elif 'base_config' in item:
            run_base_config(gc, item['level'], item['base_config'])
        elif 'clip' in item:
            run_clip(gc, item['level'], spec=item['clip'])
        elif 'layers' in item:
            run_layers(gc, item['level'], item['layers'])
        elif 'faults' in item:
            run_faults(gc, item['level'], item.get('picture', 'cells'), spec=item['faults'])
        elif 'concurrent_requests' in item:
            run_concurrent(gc, item['level'], item.get('picture', 'cells'), spec=item['concurrent_requests'])
        elif 'history' in item:
            cache = RecordingCache([], threading.Lock())
            done = []
            for op in item['history']:
                if 'remove' in op:
                    for c in op['remove']:
                        cache.stored.pop(tuple(c), None)
                else:
                    e2e(gc, op['config'], [tuple(c) for c in op['request']], item['level'], 'corpus',
                        kind=item.get('picture', 'cells'), cache=cache, history=list(done))
                done.append(op)
        else:
            e2e(gc, item['config'], [tuple(c) if c is not None else None for c in item['tiles']], item['level'], 'corpus',
                kind=item.get('picture', 'cells'))

    # ---- fixed probes: base configuration x concurrent creators (independent of the seed)
    bc_grid = new_grid(BASE_CONFIG_GRID)
    for item in BASE_CONFIG_PROBES:
        run_base_config(bc_grid, item['level'], item['base_config'])

    # ---- fixed probes: a cache over two sources with clipping coverages (independent of the seed)
    ly_grid = new_grid(LAYERS_GRID)
    for item in LAYERS_PROBES:
        run_layers(ly_grid, item['level'], item['layers'])

    n_grids = ctx.n(14, 70)
    for _ in range(n_grids):
        gc = new_grid()
        g = gc.grid
        nlev = len(gc.res)
        ctx.count('origin=' + ('ul' if gc.ul else 'll'))
        # ---- MetaGrid API
        for _ in range(ctx.n(3, 5)):
            ms = (rng.choice([1, 2, 2, 3, 4, 7]), rng.choice([1, 2, 2, 3, 4]))
            buf = rng.choice([0, 1, 3, 8, 20, 20, gc.tw, 3 * gc.tw + 1])
            mgi = MetaGrid(g, ms, buf)
            mgl = mg_lit(gc, ms, buf)
            for level in range(nlev):
                nx, ny = gc.grid_size(level)
                ctx.count('level_vs_meta:' + ('smaller' if (nx < ms[0] or ny < ms[1]) else 'not_multiple' if (nx % ms[0] or ny % ms[1]) else 'multiple'))
                for _ in range(ctx.n(3, 6)):
                    x = rng.choice([0, nx - 1, nx - 2, rng.randrange(0, nx), nx, -1, rng.randrange(-3, nx + 3)])
                    y = rng.choice([0, ny - 1, ny - 2, rng.randrange(0, ny), ny, -1, rng.randrange(-3, ny + 3)])
                    desc = {'grid': gc.spec, 'meta_size': ms, 'meta_buffer': buf, 'tile': (x, y, level)}
                    s1, mt_ = call(mgi.main_tile, (x, y, level))
                    s2, msz = call(mgi._meta_size, level)
                    s3, tl = call(mgi.tile_list, (x, y, level))
                    ctx.case(('api', gc.name, ms, buf, x, y, level), True,
                             dict(desc, main_tile=mt_, meta_size_at_level=msz) if len(ctx.samples) < 2 else None)
                    if s1 == 'ok' and s2 == 'ok' and s3 == 'ok':
                        add('misc', '(%s, %s, %s, %s, %s)' % (mgl, coord_lit((x, y, level)), coord_lit(mt_), z2(msz),
                                                              llit(tl, lambda c: olit(c, coord_lit))),
                            dict(desc, main_tile=mt_, meta_size_at_level=msz, tile_list=tl))
                        # oracle: the main tile's block contains the tile
                        if not (mt_[0] <= x < mt_[0] + msz[0] and mt_[1] <= y < mt_[1] + msz[1] and mt_[0] % msz[0] == 0 and mt_[1] % msz[1] == 0):
                            ctx.fail('main-tile', 'main_tile(%r) = %r with meta size %r' % ((x, y, level), mt_, msz), desc)
                    else:
                        ctx.fail('metagrid-raises', 'MetaGrid raised %r' % ([mt_, msz, tl],), desc)
                    s4, mt = call(mgi.meta_tile, (x, y, level))
                    if s4 == 'ok':
                        add('meta_tile', '(%s, %s, %s)' % (mgl, coord_lit((x, y, level)), metatile_lit(gc, mt)),
                            dict(desc, bbox=mt.bbox, size=mt.size, pattern=mt.tile_patterns, grid_size=mt.grid_size))
                        pattern_oracle(ctx, gc, ms, buf, level, mt, desc)
                    else:
                        ctx.fail('metagrid-raises', 'meta_tile raised %r' % (mt,), desc)
                # minimal meta tiles
                for _ in range(ctx.n(2, 4)):
                    tiles = pick_tiles(rng, gc, level, rng.choice(['one', 'block', 'random']))
                    if rng.random() < 0.1:
                        tiles.append((rng.randrange(-2, 1), rng.randrange(-2, nlev), level))
                    desc = {'grid': gc.spec, 'meta_size': ms, 'meta_buffer': buf, 'tiles': tiles}
                    s5, mm = call(mgi.minimal_meta_tile, list(tiles))
                    ctx.case(('minimal', gc.name, ms, buf, tuple(tiles)), True)
                    add('minimal', '(%s, %s, %s)' % (mgl, llit(tiles, coord_lit), 'Some ' + metatile_lit(gc, mm) if s5 == 'ok' else 'None'),
                        dict(desc, result=(mm.bbox, mm.size, mm.tile_patterns, mm.grid_size) if s5 == 'ok' else mm))
                    if s5 == 'ok':
                        got = [t for t, _ in mm.tile_patterns if t is not None]
                        if all(min(t[:2]) >= 0 for t in tiles) and not set(tiles) <= set(got):
                            ctx.fail('minimal-meta-misses-tile', 'minimal meta tile %r does not contain all of %r' % (got, tiles), desc)
        # ---- end to end
        # levels on which the extent is at least one pixel in both directions (assumption of the property check: on a
        # level whose whole extent is thinner than a pixel a truncated meta request has size 0)
        e2e_levels = [l for l in range(nlev) if gc.bbox[2] - gc.bbox[0] >= gc.res[l] and gc.bbox[3] - gc.bbox[1] >= gc.res[l]]
        ctx.count('e2e_levels_skipped_extent_below_one_pixel', nlev - len(e2e_levels))
        for _ in range(ctx.n(9, 30) if e2e_levels else 0):
            level = rng.choice(e2e_levels)
            cfg = gen_cfg(rng, gc)
            coords = pick_tiles(rng, gc, level, rng.choice(['one', 'block', 'block', 'random']))
            if rng.random() < 0.1:
                coords.insert(rng.randrange(len(coords) + 1), None)
            e2e(gc, cfg, coords, level, 'random', kind=rng.choice(['cells', 'cells', 'rgba', 'rgba', 'rgb']))
        for _ in range(ctx.n(2, 6) if e2e_levels else 0):
            run_history(gc, rng.choice(e2e_levels), rng.choice(['cells', 'cells', 'rgba', 'rgb']))
        for _ in range(ctx.n(2, 5) if e2e_levels else 0):
            run_concurrent(gc, rng.choice(e2e_levels), rng.choice(['cells', 'cells', 'rgba']))
        for _ in range(ctx.n(3, 8) if e2e_levels else 0):
            run_clip(gc, rng.choice(e2e_levels))
        for _ in range(ctx.n(3, 8) if e2e_levels else 0):
            run_encoded(gc, rng.choice(e2e_levels))
        for _ in range(ctx.n(3, 8) if e2e_levels else 0):
            run_faults(gc, rng.choice(e2e_levels), rng.choice(['cells', 'cells', 'rgba', 'rgb']))

    dtext = '\n'.join(defs)
    I = 'Grid MetaGrid'
    ctx.corr_check('metagrid_misc', I, 'mgrid * coord * coord * (Z * Z) * list (option coord)', T['misc'][0],
                   "fun c => let '(m, (x, y, z), mt, ms, tl) := c in coord_eqb (main_tile m x y z) mt && "
                   "Z2_eqb (meta_size m z) ms && ocoords_eqb (tile_list m x y z) tl",
                   lambda i: T['misc'][1][i], defs=dtext)
    ctx.corr_check('meta_tile', I, 'mgrid * coord * metatile', T['meta_tile'][0],
                   "fun c => let '(m, (x, y, z), obs) := c in metatile_eqb (meta_tile m x y z) obs",
                   lambda i: T['meta_tile'][1][i], defs=dtext, shard=250)
    ctx.corr_check('minimal_meta_tile', I, 'mgrid * list coord * option metatile', T['minimal'][0],
                   "fun c => let '(m, tiles, obs) := c in ometatile_eqb (minimal_meta_tile m tiles) obs",
                   lambda i: T['minimal'][1][i], defs=dtext, shard=250)
    ctx.corr_check('create_plan', I, 'mgrid * bool * bool * bool * list coord * list coord * list coord * option (list step)', T['plan'][0],
                   "fun c => let '(m, has_meta, minimize, bulk, cached, locked, tiles, obs) := c in "
                   "plan_eqb (plan_with_caches m has_meta minimize bulk cached locked tiles) obs",
                   lambda i: T['plan'][1][i], defs=dtext, shard=200)
    ctx.corr_check('stored_pixel', I, 'mgrid * Z * how * coord * Z * Z * option (option (Z * Z))', T['pixel'][0],
                   "fun c => let '(m, q, h, t, j, k, obs) := c in oopix_eqb (model_pixel m q h t j k) obs",
                   lambda i: T['pixel'][1][i], defs=dtext, shard=400)
    ctx.corr_check('upstream_faults', I, 'mgrid * bool * bool * bool * list bbox * list bbox * list bbox * list coord * option (list request * list coord * bool)',
                   T['faults'][0],
                   "fun c => let '(m, has_meta, minimize, bulk, bad, cut, errs, tiles, obs) := c in "
                   "outcome_eqb (request_with_faults m has_meta minimize bulk [] bad cut errs tiles) obs",
                   lambda i: T['faults'][1][i], defs=dtext, shard=200)
    ctx.corr_check('clip_coverage_colour', I, 'mgrid * Z * how * bool * coord * Z * Z * option rgba', T['clip'][0],
                   "fun c => let '(m, q, h, inside, t, j, k, obs) := c in orgba_eqb (model_clip_colour m q h inside t j k) obs",
                   lambda i: T['clip'][1][i], defs=dtext, shard=400)
    ctx.corr_check('stored_encoding', I, 'bool * bool * encoding', T['enc'][0],
                   "fun c => let '(mixed, has_alpha, obs) := c in encoding_eqb (stored_encoding mixed has_alpha) obs",
                   lambda i: T['enc'][1][i], defs=dtext, shard=400)
    ctx.corr_check('stored_palette', I, 'option Z * bool * bool * bool * bool * bool', T['palette'][0],
                   "fun c => let '(colors, paletted, png, mixed, has_alpha, obs) := c in "
                   "Bool.eqb (stored_with_palette colors paletted png mixed has_alpha) obs",
                   lambda i: T['palette'][1][i], defs=dtext, shard=400)
    ctx.corr_check('stored_colour', I, 'mgrid * Z * how * bool * coord * Z * Z * option rgba', T['colour'][0],
                   "fun c => let '(m, q, h, tr, t, j, k, obs) := c in orgba_eqb (model_colour m q h tr t j k) obs",
                   lambda i: T['colour'][1][i], defs=dtext, shard=400)


def pattern_oracle(ctx, gc, ms, buf, level, mt, desc):
    """MetaGrid.meta_tile: the pattern lists exactly the valid tiles of the block once each; crop offsets are the
    exact pixel distances from the meta tile's upper left corner when nothing is cut off, within one pixel otherwise."""
    r = gc.res[level]
    nx, ny = gc.grid_size(level)
    some = [t for t, _ in mt.tile_patterns if t is not None]
    if len(set(some)) != len(some):
        ctx.fail('pattern-duplicate', 'meta tile pattern lists a tile twice', dict(desc, pattern=mt.tile_patterns))
    if not some:
        return
    sx, sy = min(ms[0], nx), min(ms[1], ny)
    x0, y0 = some[0][0] // sx * sx, some[0][1] // sy * sy
    want = sorted((x, y, level) for x in range(x0, x0 + sx) for y in range(y0, y0 + sy) if 0 <= x < nx and 0 <= y < ny)
    if sorted(some) != want:
        ctx.fail('pattern-not-the-valid-tiles', 'pattern tiles %r, valid tiles of the block %r' % (sorted(some), want), desc)
    bb = [frac(v) for v in mt.bbox]
    for t, crop in mt.tile_patterns:
        if t is None:
            continue
        rect = gc.tile_rect(t[0], t[1], level)
        ex = (rect[0] - bb[0]) / r
        ey = (bb[3] - rect[3]) / r
        if abs(crop[0] - ex) > 1 or abs(crop[1] - ey) > 1:
            ctx.fail('crop-offset-off-by-more-than-one-pixel', 'tile %r: crop %r, exact offset (%s, %s)' % (t, crop, float(ex), float(ey)), desc)

