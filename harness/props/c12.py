"""C12  Cleanup removes exactly the expired tiles it was asked to remove.

Model: coq/theories/Cleanup.v, lemmas: Cleanup_proofs.v, theorems: coq/props/P_C12.v.
Tie: correspondence - real caches (file layouts tc/mp/tms/reverse_tms/quadkey/arcgis with and without dimension
directories, mbtiles with/without timestamps, sqlite, geopackage, geopackage per level, compact v1/v2) are filled
through the cache API with tiles of prescribed modification times plus files/directories that are not tiles; the
real mapproxy.seed.cleanup.cleanup([CleanupTask]) runs (real worker processes); what is left is read back through
a fresh cache object and the directory listing and compared with Cleanup.cleanup_task evaluated inside Coq.  The
meta tiles the real TileWalker processed are recorded and checked in Coq against "selected level and meta tile
intersects the coverage" (the hypothesis the tile-walk theorems carry).
Oracle: the property statement evaluated in Python on the same before/after contents, independent of the model.
"""
import contextlib
import io
import json
import time
import multiprocessing
import os
import shutil
import signal

from common import blit, llit, zlit

ID = 'C12'
TECHNIQUE = ('Coq proof over an executable model of the three cleanup strategies + correspondence check of the model '
             'against real caches cleaned by the real cleanup()')
LEVEL_TEXT = ('Theorems for all cache contents (lists of tiles with arbitrary integer modification times, files and '
              'directories that are not tiles), all level selections, remove_before / remove_all, all backends of the model and '
              'all coverages (abstract predicate on meta tiles): what each strategy leaves equals the specification; tied to '
              'mapproxy/seed/cleanup.py, util/fs.py and the backends by running the real cleanup on real caches.')
LEVEL_NOTE = ('Streams: single tasks (all backends, bbox and polygon coverages, linked single-colour tiles, a file that another '
              'process removes during the directory walk, sqlite backends under the time zones EST5 / XXX-2 / XXX-5:30), several '
              'tasks per cleanup() call, directory cleanup with a real ProgressStore interrupted at a level boundary and continued, '
              'levels ranges and remove_all/remove_before of the real configuration loader; whole cleanup entries of a seed.yaml '
              '(2-3 caches of mixed backends in one entry, cleaned with a real progress store as mapproxy-seed --progress-file '
              'does: every cache of the entry is held to the specification; remove_before as a time delta of several units, '
              'tiles aged between the largest unit and the sum of the units); tasks built by the loader from '
              'mapproxy.yaml + seed.yaml (bbox, polygon and empty coverages) cleaned end to end; directories with a time of their '
              'own (a newer tile in an older directory); one schedule in which the worker needs longer for its first batch than '
              'the 5 s the walker waits for a queue slot (the retry loop of TileWorkerPool.process is not part of the model: the '
              'model removes the stale tiles of every processed meta tile).  '
              'Trusted: Coq kernel, the hand-written model Cleanup.v, the harness.  The pyramid descent of TileWalker._walk is '
              'not modelled here (C11): the tile-walk theorems carry the hypothesis that the walk processes exactly the meta '
              'tiles of the selected levels that intersect the coverage; that hypothesis is checked by Coq on every walk the '
              'real TileWalker performed in the correspondence run.  Time is modelled in integer ticks (4 per second in the '
              'harness); SQLite datetime() and time.mktime are exercised with TZ=UTC only.  Symlinked single-colour tiles, '
              'dry_run, progress stores and grids with origin ul are outside the model.  cleanup_tasks models the loop over '
              'tasks; the several-tasks stream runs 2-4 tasks on one tile manager in one cleanup() call (all backends, mixed '
              'strategies, the same level removed twice) and reports any exception of cleanup() as a property failure.')
DESIGN_REF = 'DESIGN.md section 5, C12'
GEN = ['Gen_seed_id.v']     # through Seed_proofs.v (C11's TileWalker model, used by seed_walk_outside_coverage_kept_partial)
RULE = ('case = (backend, layout, grid, meta size, contents with mtimes, task levels / remove time / remove_all / coverage); '
        'non-trivial = at least one tile removed and one tile kept, or a tile within one second of the remove time; '
        'distinct by full tuple')
TRUSTED = ['model Cleanup.v hand-written from seed/cleanup.py, util/fs.py, cache/{path,file,mbtiles,geopackage,compact,tile}.py, '
           'seed/config.py; tie = differential run of the real cleanup() vs model',
           'os.utime / UPDATE last_modified used to prescribe modification times; survival read through a fresh cache object '
           'and os.path.lexists']
ASSUMPTIONS = ['TileWalker processes exactly the meta tiles of the selected levels whose bbox intersects the coverage (C11; '
               'checked per case in Coq on the recorded walk)',
               'tiles of the contents lie inside the grid; quadkey layout only with grids of 2^z tiles per axis (F4)',
               'localtime = UTC for the SQLite datetime comparison; file system keeps sub-second mtimes',
               'coverages are axis-parallel boxes inside the grid bbox that overlap a meta tile either not at all or by at least half a tile '
               '(no slivers below the 1/10 pixel inset of get_affected_level_tiles)']
EXPLANATION = ('remaining = spec_remaining proved per strategy for all contents/tasks; F15 (dimension directories) is refuted '
               'on the model and reproduced on the implementation as known finding')

WATCHDOG = 180             # seconds one cleanup() may take (a normal case takes 0.1 s)


class CleanupHang(Exception):
    pass


Q = 4                      # ticks per second
BASE = 1600000000          # seconds; model times are relative to BASE

CORPUS = os.path.join(os.path.dirname(os.path.dirname(os.path.dirname(os.path.abspath(__file__)))), 'corpus', 'C12')

# ------------------------------------------------------------------------------------------------ grids

GRIDS = {
    # name: (bbox, tile size, resolutions)
    'g3': ((0, 0, 1024, 1024), 256, [4, 2, 1]),            # 1,2,4 tiles per axis
    'g4w': ((0, 0, 2048, 1024), 256, [4, 2, 1, 0.5]),      # (2,1) (4,2) (8,4) (16,8)
    'odd': ((0, 0, 768, 768), 64, [4, 2, 1]),              # 3,6,12 tiles per axis (meta tiles overhang)
    'deep': ((0, 0, 262144, 262144), 256, [2.0 ** (10 - i) for i in range(12)]),   # 2^l tiles per axis, 12 levels
}


def grid_info(name):
    bbox, ts, ress = GRIDS[name]
    spans = [int(ts * r) for r in ress]
    sizes = []
    for s in spans:
        nx = max(-(-(bbox[2] - bbox[0]) // s), 1)
        ny = max(-(-(bbox[3] - bbox[1]) // s), 1)
        sizes.append((nx, ny))
    return bbox, ts, ress, spans, sizes


def make_grid(name):
    from mapproxy.grid import tile_grid
    bbox, ts, ress = GRIDS[name]
    return tile_grid(srs=3857, bbox=list(bbox), res=list(ress), tile_size=(ts, ts), origin='ll')


BACKENDS = ['file:tc', 'file:mp', 'file:tms', 'file:reverse_tms', 'file:quadkey', 'file:arcgis',
            'mbtiles:ts', 'mbtiles:nots', 'sqlite', 'gpkg', 'gpkglevel', 'compact1', 'compact2']
DIM_LAYOUTS = ('file:tc', 'file:mp', 'file:tms', 'file:reverse_tms')


def supports_timestamp(b):
    """The class attribute seed/config.py consults, read from the implementation under test."""
    if b.startswith('file:'):
        from mapproxy.cache.file import FileCache as c
    elif b == 'mbtiles:ts':
        return True            # instance attribute set from with_timestamps
    elif b == 'mbtiles:nots':
        from mapproxy.cache.mbtiles import MBTilesCache as c
    elif b == 'sqlite':
        from mapproxy.cache.mbtiles import MBTilesLevelCache as c
    elif b == 'gpkg':
        from mapproxy.cache.geopackage import GeopackageCache as c
    elif b == 'gpkglevel':
        from mapproxy.cache.geopackage import GeopackageLevelCache as c
    elif b == 'compact1':
        from mapproxy.cache.compact import CompactCacheV1 as c
    else:
        from mapproxy.cache.compact import CompactCacheV2 as c
    return bool(c.supports_timestamp)


def stores_timestamp(b):
    return b.startswith('file:') or b in ('mbtiles:ts', 'sqlite')


def strategy_of(b, complete):
    if not complete:
        return 'walk'
    if b in ('file:tc', 'file:mp', 'file:tms', 'file:arcgis'):
        return 'dir'
    if b.startswith('file:'):
        return 'walk'
    return 'cache'


def backend_lit(b):
    return {'file:tc': '(BFile LTc)', 'file:mp': '(BFile LMp)', 'file:tms': '(BFile LTms)',
            'file:reverse_tms': '(BFile LRevTms)', 'file:quadkey': '(BFile LQuadkey)', 'file:arcgis': '(BFile LArcgis)',
            'mbtiles:ts': '(BMbtiles true)', 'mbtiles:nots': '(BMbtiles false)', 'sqlite': 'BSqlite', 'gpkg': 'BGpkg',
            'gpkglevel': 'BGpkgLevel', 'compact1': 'BCompact', 'compact2': 'BCompact'}[b]


def dname_str(d):
    k, v = d
    return {'pad': '%02d' % v, 'plain': str(v), 'arc': 'L%02d' % v, 'other': 'other_%d' % v}[k]


def dname_lit(d):
    k, v = d
    return '(%s %s)' % ({'pad': 'DPad', 'plain': 'DPlain', 'arc': 'DArc', 'other': 'DOther'}[k], zlit(v))


def tile_top(b, l):
    if b in ('file:tc', 'file:mp'):
        return ('pad', l)
    if b == 'file:tms':
        return ('plain', l)
    if b in ('file:arcgis', 'compact1', 'compact2'):
        return ('arc', l)
    return None


DIMS = {0: None, 1: {'time': 'a'}, 2: {'time': 'b', 'dim_run': '7'}}
DIM_DIR = {0: '', 1: 'time-a', 2: os.path.join('time-b', 'dim_run-7')}

PNG = None


def png_bytes():
    global PNG
    if PNG is None:
        from PIL import Image
        buf = io.BytesIO()
        img = Image.new('RGB', (4, 4), (10, 200, 30))
        img.putpixel((1, 1), (200, 10, 30))        # two colours: never stored as a single-colour link
        img.save(buf, 'png')
        PNG = buf.getvalue()
    return PNG


COLOURS = [(255, 0, 0), (0, 255, 0), (0, 0, 255)]


def task_boxes(t):
    """coverage of a task as list of boxes (one: BBOXCoverage, several: polygon = their union)."""
    return [list(c) for c in t['covs']] if t.get('covs') else [list(t['cov'])]


def make_coverage(t, srs):
    from mapproxy.util.coverage import BBOXCoverage, GeomCoverage
    boxes = task_boxes(t)
    if len(boxes) == 1:
        return BBOXCoverage(boxes[0], srs)
    import shapely.geometry
    import shapely.ops
    return GeomCoverage(shapely.ops.unary_union([shapely.geometry.box(*c) for c in boxes]), srs)


# ------------------------------------------------------------------------------------------------ real caches

def make_cache(b, cache_dir, grid, link=False):
    if b.startswith('file:'):
        from mapproxy.cache.file import FileCache
        return FileCache(cache_dir, 'png', directory_layout=b.split(':')[1], link_single_color_images=link)
    if b.startswith('mbtiles'):
        from mapproxy.cache.mbtiles import MBTilesCache
        return MBTilesCache(os.path.join(cache_dir, 'c.mbtiles'), with_timestamps=(b == 'mbtiles:ts'))
    if b == 'sqlite':
        from mapproxy.cache.mbtiles import MBTilesLevelCache
        return MBTilesLevelCache(cache_dir)
    if b == 'gpkg':
        from mapproxy.cache.geopackage import GeopackageCache
        return GeopackageCache(os.path.join(cache_dir, 'c.gpkg'), grid, 'tiles_tbl')
    if b == 'gpkglevel':
        from mapproxy.cache.geopackage import GeopackageLevelCache
        return GeopackageLevelCache(cache_dir, grid, 'tiles_tbl')
    if b == 'compact1':
        from mapproxy.cache.compact import CompactCacheV1
        return CompactCacheV1(cache_dir)
    if b == 'compact2':
        from mapproxy.cache.compact import CompactCacheV2
        return CompactCacheV2(cache_dir)
    raise ValueError(b)


def entry_path(cache_dir, e):
    k = e['kind']
    if k == 'indir':
        name = ('emptydir_%d' if e['isdir'] else 'foreign_%d.txt') % e['n']
        return os.path.join(cache_dir, DIM_DIR[e['dim']], dname_str(tuple(e['d'])), name)
    if k == 'beside':
        return os.path.join(cache_dir, '%d.mbtile-x%d' % (e['l'], e['n']))
    if k == 'outside':
        return os.path.join(cache_dir, 'outside_%d.txt' % e['n'])
    if k == 'colour':
        return os.path.join(cache_dir, 'single_color_tiles', '%02x%02x%02x.png' % COLOURS[e['k']])
    raise ValueError(k)


def set_mtime(path, t_rel):
    ns = (BASE * Q + t_rel) * (1000000000 // Q)
    os.utime(path, ns=(ns, ns), follow_symlinks=False)


def sql_set_time(dbfile, table, coord, t_rel):
    import sqlite3
    db = sqlite3.connect(dbfile)
    try:
        cur = db.execute("UPDATE [%s] SET last_modified = datetime(?, 'unixepoch', 'localtime') "
                         "WHERE tile_column = ? AND tile_row = ? AND zoom_level = ?" % table,
                         (BASE + t_rel // Q, coord[0], coord[1], coord[2]))
        assert cur.rowcount == 1, (dbfile, coord)
        db.commit()
    finally:
        db.close()


def fill(case, cache_dir, grid):
    """Create the cache contents of the case through the cache API.  Returns list of paths (or None) per entry."""
    from mapproxy.cache.tile import Tile
    from mapproxy.image import ImageSource
    b = case['backend']
    os.makedirs(cache_dir, exist_ok=True)
    link = any(e.get('link') is not None for e in case['entries'])
    cache = make_cache(b, cache_dir, grid, link)
    paths = []
    for e in case['entries']:
        if e['kind'] != 'tile':
            paths.append(None)
            continue
        coord = (e['x'], e['y'], e['l'])
        t = Tile(coord)
        if e.get('link') is not None:
            from PIL import Image
            from mapproxy.image.opts import ImageOptions
            t.source = ImageSource(Image.new('RGB', (4, 4), COLOURS[e['link']]), image_opts=ImageOptions(format='image/png'))
        else:
            t.source = ImageSource(io.BytesIO(png_bytes()))
        dims = DIMS[e['dim']]
        if not cache.store_tile(t, dimensions=dims) and not b.startswith('file:'):
            raise RuntimeError('store_tile failed for %r on %s' % (coord, b))
        if b.startswith('file:'):
            loc = cache.tile_location(Tile(coord), dimensions=dims)
            if (e.get('link') is not None) != os.path.islink(loc):
                raise RuntimeError('expected %s to be a %s' % (loc, 'link' if e.get('link') is not None else 'file'))
            set_mtime(loc, e['t'])
            paths.append(loc)
        else:
            paths.append(None)
    if hasattr(cache, 'cleanup'):
        cache.cleanup()
    # prescribed times of sqlite rows
    for e in case['entries']:
        if e['kind'] == 'tile' and b in ('mbtiles:ts', 'sqlite'):
            dbfile = os.path.join(cache_dir, 'c.mbtiles' if b == 'mbtiles:ts' else '%d.mbtile' % e['l'])
            sql_set_time(dbfile, 'tiles', (e['x'], e['y'], e['l']), e['t'])
    # things that are not tiles
    for i, e in enumerate(case['entries']):
        if e['kind'] == 'tile':
            continue
        p = entry_path(cache_dir, e)
        if e['kind'] == 'colour':
            set_mtime(p, e['t'])      # the shared file the links point to (written by store_tile)
        elif e.get('isdir'):
            os.makedirs(p)
        else:
            os.makedirs(os.path.dirname(p), exist_ok=True)
            with open(p, 'w') as f:
                f.write('not a tile')
            set_mtime(p, e['t'])
        paths[i] = p
    if case.get('dir_t') is not None:
        # the directories get a time of their own (a tile can be newer than its directory: touched, restored with its
        # time, rewritten in place); what is removed must depend on the time of each file only
        for dirpath, dirnames, filenames in os.walk(cache_dir, topdown=False):
            set_mtime(dirpath, case['dir_t'])
    return paths


def float_time(t_rel):
    return BASE + t_rel / float(Q)      # exact: quarter seconds


def loader_tasks(case, root, cache_dir, link):
    """Write mapproxy.yaml + seed.yaml for the case and let the real configuration loader build the cleanup tasks
    (complete_extent, coverage, levels, remove time and the tile manager are then the loader's)."""
    import yaml
    from mapproxy.seed.config import load_seed_tasks_conf
    from mapproxy.config.loader import load_configuration
    b = case['backend']
    bbox, ts, ress = GRIDS[case['grid']]
    if b.startswith('file:'):
        cc = {'type': 'file', 'directory': cache_dir, 'directory_layout': b.split(':')[1]}
    elif b == 'sqlite':
        cc = {'type': 'sqlite', 'directory': os.path.dirname(cache_dir)}      # the loader appends the grid name
    elif b == 'gpkglevel':
        cc = {'type': 'geopackage', 'directory': os.path.dirname(cache_dir), 'levels': True, 'table_name': 'tiles_tbl'}
    elif b == 'compact2':
        cc = {'type': 'compact', 'version': 2, 'directory': cache_dir}
    else:
        raise ValueError('no loader configuration for ' + b)
    mp = {'services': {'tms': {}},
          'grids': {'gg': {'srs': 'EPSG:3857', 'bbox': list(bbox), 'res': list(ress), 'origin': 'll', 'tile_size': [ts, ts]}},
          'caches': {'c': {'grids': ['gg'], 'sources': [], 'cache': cc, 'meta_size': list(case['meta']), 'format': 'image/png'}},
          'layers': [{'name': 'c', 'title': 'c', 'sources': ['c']}],
          'globals': {'cache': {'base_dir': os.path.join(root, 'base'), 'lock_dir': os.path.join(root, 'locks'),
                                'tile_lock_dir': os.path.join(root, 'tlocks')}}}
    if link:
        mp['caches']['c']['link_single_color_images'] = True
    t = case['task']
    cl = {'caches': ['c'], 'grids': ['gg'], 'levels': list(t['levels'])}
    if t['all']:
        cl['remove_all'] = True
    else:
        stamp = os.path.join(root, 'stamp')
        with open(stamp, 'w') as f:
            f.write('x')
        set_mtime(stamp, t['T'])
        cl['remove_before'] = {'mtime': stamp}
    seed = {'cleanups': {'cl': cl}}
    if not t['complete']:
        boxes = task_boxes(t)
        if len(boxes) == 1:
            seed['coverages'] = {'cov': {'bbox': boxes[0], 'srs': 'EPSG:3857'}}
        else:
            import shapely.geometry
            import shapely.ops
            wkt = os.path.join(root, 'coverage.txt')
            with open(wkt, 'w') as f:
                f.write(shapely.ops.unary_union([shapely.geometry.box(*c) for c in boxes]).wkt + '\n')
            seed['coverages'] = {'cov': {'datasource': wkt, 'srs': 'EPSG:3857'}}
        cl['coverages'] = ['cov']
    if t.get('skip'):
        # a named coverage that is empty at run time (a GeoJSON file without features): the task must be skipped,
        # whether it is the only coverage of the task or one of several
        empty = os.path.join(root, 'empty.geojson')
        with open(empty, 'w') as f:
            f.write('{"type": "FeatureCollection", "features": []}')
        seed.setdefault('coverages', {})['nothing'] = {'datasource': empty, 'srs': 'EPSG:3857'}
        cl['coverages'] = (cl.get('coverages', []) + ['nothing']) if t['skip'] == 'mixed' else ['nothing']
        if t['skip'] == 'mixed' and 'cov' not in seed['coverages']:
            seed['coverages']['cov'] = {'bbox': list(t['cov']), 'srs': 'EPSG:3857'}
            cl['coverages'] = ['cov', 'nothing']
    mpf, sf = os.path.join(root, 'mapproxy.yaml'), os.path.join(root, 'seed.yaml')
    with open(mpf, 'w') as f:
        yaml.safe_dump(mp, f)
    with open(sf, 'w') as f:
        yaml.safe_dump(seed, f)
    conf = load_seed_tasks_conf(sf, load_configuration(mpf, seed=True))
    tasks = conf.cleanups()
    if len(tasks) != 1:
        raise RuntimeError('loader built %d tasks' % len(tasks))
    if os.path.realpath(getattr(tasks[0].tile_manager.cache, 'cache_dir', cache_dir)) != os.path.realpath(cache_dir):
        raise RuntimeError('loader uses cache directory %r' % tasks[0].tile_manager.cache.cache_dir)
    return tasks


UNIT_TICKS = {'weeks': 604800 * Q, 'days': 86400 * Q, 'hours': 3600 * Q, 'minutes': 60 * Q, 'seconds': Q}


def delta_ticks(delta):
    return sum(UNIT_TICKS[k] * v for k, v in delta.items())


def entry_cases():
    """Deterministic cases for run_entry: one cleanup entry of seed.yaml, loaded and run the way mapproxy-seed does.
    (a) the entry lists several caches and the run has a progress store (--progress-file): every cache of the entry
        has to be cleaned (the progress of one cache must not be taken for the progress of the next);
    (b) remove_before given as a time delta of several units: the remove time is now minus the SUM of the units; tiles
        whose age lies between the largest unit alone and the sum are newer than the remove time and have to stay."""
    out = []
    tiles = [(0, 0, 0), (1, 1, 0), (1, 0, 1), (2, 0, 0), (2, 1, 2), (2, 3, 3), (2, 2, 1)]
    ents = [{'kind': 'tile', 'dim': 0, 'l': l, 'x': x, 'y': y, 't': 120} for l, x, y in tiles] + \
           [{'kind': 'tile', 'dim': 0, 'l': 2, 'x': 3, 'y': 0, 't': 200}, {'kind': 'tile', 'dim': 0, 'l': 1, 'x': 0, 'y': 0, 't': 200}]
    for bs, names in ((['file:tc', 'file:tc'], ['ca', 'cb']), (['file:tc', 'file:tc'], ['cb', 'ca']),
                      (['file:tms', 'file:mp', 'file:arcgis'], ['cz', 'cy', 'cx']),
                      (['sqlite', 'file:quadkey'], ['ca', 'cb']), (['file:quadkey', 'sqlite', 'file:tc'], ['cc', 'cb', 'ca']),
                      (['compact2', 'gpkglevel'], ['ca', 'cb'])):
        for complete in (False, True):
            ts = all(supports_timestamp(b) for b in bs)
            out.append({'backends': bs, 'names': names, 'grid': 'g3', 'meta': [2, 2], 'progress': True, 'guarded': True,
                        'task': {'levels': [1, 2], 'T': 160, 'all': not ts, 'complete': complete,
                                 'cov': [0, 0, 1024, 1024] if complete else [0, 0, 500, 1024]},
                        'entries': [dict(e) for e in ents]})
    for delta in ({'days': 1, 'hours': 12}, {'weeks': 1, 'days': 2, 'minutes': 30}, {'hours': 2, 'minutes': 30, 'seconds': 15},
                  {'days': 2}):      # margins of a quarter of an hour and more: the loader reads the clock later than the harness
        full = delta_ticks(delta)
        dts = sorted(set([-3600 * Q, full - 60 * Q] + [(full - UNIT_TICKS[k] * v) // 2 for k, v in delta.items() if len(delta) > 1]))
        for bs, complete in ((['file:tc'], True), (['file:tc', 'sqlite'], False), (['sqlite'], True)):
            es = []
            for i, dt in enumerate(dts):
                es.append({'kind': 'tile', 'dim': 0, 'l': 2, 'x': i % 4, 'y': i // 4, 'dt': dt})
                if i < 4:
                    es.append({'kind': 'tile', 'dim': 0, 'l': 1, 'x': i % 2, 'y': i // 2, 'dt': -3600 * Q})
            es.append({'kind': 'tile', 'dim': 0, 'l': 0, 'x': 0, 'y': 0, 'dt': -3600 * Q})
            out.append({'backends': bs, 'names': ['c%d' % i for i in range(len(bs))], 'grid': 'g3', 'meta': [2, 2],
                        'progress': False, 'guarded': True,
                        'task': {'levels': [2], 'delta': delta, 'all': False, 'complete': complete, 'cov': [0, 0, 1024, 1024]},
                        'entries': es})
    return out


def run_entry(ctx, spec):
    """One cleanup entry of a seed.yaml with the caches spec['backends'] (every cache gets the same contents), loaded by
    the real configuration loader and cleaned by the real cleanup() - with a real ProgressStore when spec['progress'].
    Returns [(case, obs)] per cache in the order of the loader's tasks (case: single-cache case with concrete times)."""
    import yaml
    from mapproxy.seed.config import load_seed_tasks_conf
    from mapproxy.config.loader import load_configuration
    from mapproxy.seed import cleanup as cleanup_mod
    from mapproxy.seed.util import ProgressStore, ProgressLog
    import mapproxy.grid as grid_mod
    root = ctx.tmpdir('c12entry')
    grid = make_grid(spec['grid'])
    bbox, ts, ress = GRIDS[spec['grid']]
    t = dict(spec['task'])
    entries = [dict(e) for e in spec['entries']]
    if t.get('delta'):
        t['T'] = int(round((time.time() - BASE) * Q)) - delta_ticks(t['delta'])
        for e in entries:
            e['t'] = t['T'] + e.pop('dt')
    caches, dirs_of, paths_of = {}, {}, {}
    for b, name in zip(spec['backends'], spec['names']):
        cache_dir = os.path.join(root, name)
        if b.startswith('file:'):
            cc = {'type': 'file', 'directory': cache_dir, 'directory_layout': b.split(':')[1]}
        elif b == 'sqlite':
            cc = {'type': 'sqlite', 'directory': cache_dir}
            cache_dir = os.path.join(cache_dir, 'gg')          # the loader appends the grid name
        elif b == 'gpkglevel':
            cc = {'type': 'geopackage', 'directory': cache_dir, 'levels': True, 'table_name': 'tiles_tbl'}
            cache_dir = os.path.join(cache_dir, 'gg')
        elif b == 'compact2':
            cc = {'type': 'compact', 'version': 2, 'directory': cache_dir}
        else:
            raise ValueError('no loader configuration for ' + b)
        caches[name] = {'grids': ['gg'], 'sources': [], 'cache': cc, 'meta_size': list(spec['meta']), 'format': 'image/png'}
        dirs_of[name] = cache_dir
        paths_of[name] = fill(dict(spec, backend=b, entries=entries), cache_dir, grid)
    mp = {'services': {'tms': {}},
          'grids': {'gg': {'srs': 'EPSG:3857', 'bbox': list(bbox), 'res': list(ress), 'origin': 'll', 'tile_size': [ts, ts]}},
          'caches': caches,
          'layers': [{'name': n, 'title': n, 'sources': [n]} for n in spec['names']],
          'globals': {'cache': {'base_dir': os.path.join(root, 'base'), 'lock_dir': os.path.join(root, 'locks'),
                                'tile_lock_dir': os.path.join(root, 'tlocks')}}}
    cl = {'caches': list(spec['names']), 'grids': ['gg'], 'levels': list(t['levels'])}
    if t['all']:
        cl['remove_all'] = True
    elif t.get('delta'):
        cl['remove_before'] = dict(t['delta'])
    else:
        stamp = os.path.join(root, 'stamp')
        with open(stamp, 'w') as f:
            f.write('x')
        set_mtime(stamp, t['T'])
        cl['remove_before'] = {'mtime': stamp}
    seed = {'cleanups': {'cl': cl}}
    if not t['complete']:
        seed['coverages'] = {'cov': {'bbox': list(t['cov']), 'srs': 'EPSG:3857'}}
        cl['coverages'] = ['cov']
    mpf, sf = os.path.join(root, 'mapproxy.yaml'), os.path.join(root, 'seed.yaml')
    with open(mpf, 'w') as f:
        yaml.safe_dump(mp, f)
    with open(sf, 'w') as f:
        yaml.safe_dump(seed, f)
    tasks = load_seed_tasks_conf(sf, load_configuration(mpf, seed=True)).cleanups()
    order = [task.md['cache_name'] for task in tasks]
    if sorted(order) != sorted(spec['names']):
        raise RuntimeError('loader built tasks for %r' % (order,))
    walks = []
    orig = grid_mod.MetaGrid.tile_list
    orig_walker = cleanup_mod.tilewalker_cleanup

    def recording_tile_list(self, main_tile):
        walks[-1][1].append(tuple(main_tile))
        return orig(self, main_tile)

    def recording_walker(task, *a, **kw):
        walks.append((task.md['cache_name'], []))
        return orig_walker(task, *a, **kw)

    def on_alarm(signum, frame):
        raise CleanupHang('cleanup() did not return within %d s' % WATCHDOG)

    raised = None
    grid_mod.MetaGrid.tile_list = recording_tile_list
    cleanup_mod.tilewalker_cleanup = recording_walker
    old_handler = signal.signal(signal.SIGALRM, on_alarm)
    signal.alarm(WATCHDOG)
    try:
        with contextlib.redirect_stdout(io.StringIO()):
            logger = None
            if spec['progress']:
                store = ProgressStore(os.path.join(root, 'progress'), continue_seed=False)
                logger = ProgressLog(out=io.StringIO(), silent=True, verbose=False, progress_store=store)
            cleanup_mod.cleanup(tasks, concurrency=1, verbose=False, progress_logger=logger)
    except CleanupHang:
        for p in multiprocessing.active_children():
            p.terminate()
        raise
    except Exception as ex:   # an observation, not a harness crash
        raised = type(ex).__name__ + ': ' + str(ex)[:200]
    finally:
        signal.alarm(0)
        signal.signal(signal.SIGALRM, old_handler)
        grid_mod.MetaGrid.tile_list = orig
        cleanup_mod.tilewalker_cleanup = orig_walker
    for task in tasks:
        task.tile_manager.cleanup()
    out = []
    for name in order:
        b = spec['backends'][spec['names'].index(name)]
        case = {'backend': b, 'grid': spec['grid'], 'meta': spec['meta'], 'guarded': True, 'task': t, 'entries': entries,
                'cleanup_entry': {'caches': list(zip(spec['names'], spec['backends'])), 'task_order': order, 'this': name,
                                  'progress_store': spec['progress']}}
        dirs, survived = observe(case, b, dirs_of[name], grid, False, paths_of[name])
        walked = [w for n, w in walks if n == name]
        out.append((case, {'survived': survived, 'dirs': dirs, 'walked': walked[0] if walked else [], 'walks': walked,
                           'raised': raised}))
    shutil.rmtree(root, ignore_errors=True)
    return out


def observe(case, b, cache_dir, grid, link, paths):
    """What is left of the entries of the case in the cache of backend b: (level directories, survived per entry)."""
    from mapproxy.cache.tile import Tile
    # directories first (fresh cache objects of the per-level backends create files)
    _, _, _, spans, _ = grid_info(case['grid'])
    dirs = []
    for l in range(len(spans)):
        d = tile_top(b, l)
        dirs.append(bool(d is not None and os.path.isdir(os.path.join(cache_dir, dname_str(d)))))
    fresh = make_cache(b, cache_dir, grid, link)
    survived = []
    for e, p in zip(case['entries'], paths):
        if e['kind'] == 'tile':
            there = bool(fresh.is_cached(Tile((e['x'], e['y'], e['l'])), dimensions=DIMS[e['dim']]))
            if e.get('link') is not None:
                there = os.path.lexists(p)     # the link itself; is_cached follows it
            if p is not None and there != os.path.lexists(p):
                raise RuntimeError('cache API and directory listing disagree on %s' % p)
            survived.append(there)
        else:
            survived.append(os.path.lexists(p))
    if hasattr(fresh, 'cleanup'):
        fresh.cleanup()
    return dirs, survived


def run_impl(ctx, case, interrupt_at=None):
    """Fill a real cache, run the real cleanup, observe.  Returns dict(survived, dirs, walked, raised).
    interrupt_at=k: run with a progress store, the first run dies (KeyboardInterrupt) when it starts to clean the
    k-th level directory, a second run continues from the progress file (mapproxy-seed --continue)."""
    from mapproxy.cache.base import TileLocker
    from mapproxy.cache.tile import Tile, TileManager
    from mapproxy.seed.seeder import CleanupTask
    from mapproxy.seed import cleanup as cleanup_mod
    from mapproxy.util.coverage import BBOXCoverage
    import mapproxy.grid as grid_mod

    if case.get('tz') and not case.get('_tz_set'):
        # part of the sqlite streams runs in another process time zone (stores and cleanup both use 'localtime')
        old_tz = os.environ.get('TZ')
        os.environ['TZ'] = case['tz']
        time.tzset()
        try:
            return run_impl(ctx, dict(case, _tz_set=True), interrupt_at)
        finally:
            if old_tz is None:
                os.environ.pop('TZ', None)
            else:
                os.environ['TZ'] = old_tz
            time.tzset()
    b = case['backend']
    root = ctx.tmpdir('c12')
    cache_dir = os.path.join(root, 'cache')
    if case.get('via_loader') and b in ('sqlite', 'gpkglevel'):
        cache_dir = os.path.join(root, 'cache', 'gg')
    grid = make_grid(case['grid'])
    paths = fill(case, cache_dir, grid)
    link = any(e.get('link') is not None for e in case['entries'])
    cache = make_cache(b, cache_dir, grid, link)
    vanish = set(p for e, p in zip(case['entries'], paths) if e.get('vanish'))
    if case.get('slow_first_batch'):
        # schedule: the worker needs longer for its first batch than the 5 s the walker waits for a free queue slot
        # (slow storage); the marker file makes it the first batch only, also across the fork of the worker
        marker = os.path.join(root, 'first-batch-done')
        fast_remove = cache.remove_tile

        def slow_remove(tile, *a, **kw):
            if not os.path.exists(marker):
                open(marker, 'w').close()
                time.sleep(case['slow_first_batch'])
            return fast_remove(tile, *a, **kw)

        cache.remove_tile = slow_remove
    tm = TileManager(grid, cache, [], 'png', locker=TileLocker(os.path.join(root, 'locks'), 10, 'c12'),
                     meta_size=tuple(case['meta']))
    tasks = []
    if case.get('via_loader'):
        tasks = loader_tasks(case, root, cache_dir, link)
    for t in ([] if case.get('via_loader') else case.get('tasks') or [case['task']]):
        cov = make_coverage(t, grid.srs)
        tasks.append(CleanupTask({'name': 'c12', 'cache_name': 'c', 'grid_name': 'g'}, tm, list(t['levels']),
                                 float_time(t['T']), t['all'], cov, complete_extent=t['complete']))
    walks = []            # one list of processed meta tiles per tilewalker_cleanup call
    orig = grid_mod.MetaGrid.tile_list
    orig_walker = cleanup_mod.tilewalker_cleanup

    def recording_tile_list(self, main_tile):
        walks[-1].append(tuple(main_tile))
        return orig(self, main_tile)

    def recording_walker(task, *a, **kw):
        walks.append([])
        return orig_walker(task, *a, **kw)

    raised = None
    grid_mod.MetaGrid.tile_list = recording_tile_list
    cleanup_mod.tilewalker_cleanup = recording_walker
    real_lstat = os.lstat

    def vanishing_lstat(path, *a, **kw):
        # another process removes the file between the directory listing and the lstat
        if path in vanish:
            vanish.discard(path)
            os.unlink(path)
        return real_lstat(path, *a, **kw)

    if vanish:
        os.lstat = vanishing_lstat
    real_cleanup_directory = cleanup_mod.cleanup_directory
    calls = [0]

    def interrupted_cleanup_directory(*a, **kw):
        calls[0] += 1
        if calls[0] - 1 == interrupt_at:
            raise KeyboardInterrupt()
        return real_cleanup_directory(*a, **kw)

    def run_cleanup():
        if interrupt_at is None:
            cleanup_mod.cleanup(tasks, concurrency=case.get('concurrency', 1), verbose=False)
            return
        from mapproxy.seed.util import ProgressStore, ProgressLog
        pfile = os.path.join(root, 'progress')
        cleanup_mod.cleanup_directory = interrupted_cleanup_directory
        try:
            store = ProgressStore(pfile, continue_seed=False)
            cleanup_mod.cleanup(tasks, concurrency=1, verbose=False,
                                progress_logger=ProgressLog(out=io.StringIO(), silent=True, verbose=False, progress_store=store))
            raise RuntimeError('first run was not interrupted')
        except KeyboardInterrupt:
            pass
        finally:
            cleanup_mod.cleanup_directory = real_cleanup_directory
        store = ProgressStore(pfile, continue_seed=True)
        cleanup_mod.cleanup(tasks, concurrency=1, verbose=False,
                            progress_logger=ProgressLog(out=io.StringIO(), silent=True, verbose=False, progress_store=store))

    def on_alarm(signum, frame):
        raise CleanupHang('cleanup() did not return within %d s' % WATCHDOG)

    old_handler = signal.signal(signal.SIGALRM, on_alarm)
    signal.alarm(WATCHDOG)
    try:
        with contextlib.redirect_stdout(io.StringIO()):
            run_cleanup()
    except CleanupHang:
        for p in multiprocessing.active_children():
            p.terminate()
        raise
    except Exception as ex:   # an observation, not a harness crash
        raised = type(ex).__name__ + ': ' + str(ex)[:200]
    finally:
        signal.alarm(0)
        signal.signal(signal.SIGALRM, old_handler)
        os.lstat = real_lstat
        grid_mod.MetaGrid.tile_list = orig
        cleanup_mod.tilewalker_cleanup = orig_walker
    if hasattr(cache, 'cleanup'):
        cache.cleanup()
    dirs, survived = observe(case, b, cache_dir, grid, link, paths)
    shutil.rmtree(root, ignore_errors=True)
    return {'survived': survived, 'dirs': dirs, 'walked': walks[0] if walks else [], 'walks': walks, 'raised': raised}


# ------------------------------------------------------------------------------------------------ oracle

def meta_main(case, x, y, l):
    _, _, _, _, sizes = grid_info(case['grid'])
    mx = min(case['meta'][0], sizes[l][0])
    my = min(case['meta'][1], sizes[l][1])
    return (x // mx) * mx, (y // my) * my, mx, my


def meta_intersects(case, x, y, l, task=None):
    bbox, _, _, spans, _ = grid_info(case['grid'])
    x0, y0, mx, my = meta_main(case, x, y, l)
    s = spans[l]
    mb = (bbox[0] + x0 * s, bbox[1] + y0 * s, bbox[0] + (x0 + mx) * s, bbox[1] + (y0 + my) * s)
    return any(mb[0] < c[2] and mb[2] > c[0] and mb[1] < c[3] and mb[3] > c[1] for c in task_boxes(task or case['task']))


def spec_removes(case, t, e):
    """Does the property statement want tile entry e removed by task t (at the boundary the task's strategy states)."""
    b = case['backend']
    strat = strategy_of(b, t['complete'])
    if e['l'] not in t['levels'] or not meta_intersects(case, e['x'], e['y'], e['l'], t):
        return False
    if t['all'] or not stores_timestamp(b):
        return True
    sec = e['t'] // Q
    return {'dir': e['t'] < t['T'], 'cache': sec < t['T'] // Q, 'walk': sec * Q <= t['T']}[strat]


def oracle_several(ctx, case, obs):
    """Several tasks in one cleanup() call: a tile goes iff the statement wants it removed by one of the tasks."""
    rep = {'case': case, 'observed': obs}
    b = case['backend']
    for e, alive in zip(case['entries'], obs['survived']):
        if e['kind'] != 'tile':
            continue
        wanted = [i for i, t in enumerate(case['tasks']) if spec_removes(case, t, e)]
        if not alive and not wanted:
            ctx.fail('removed-too-much,several-tasks', 'tile that no task of the run selects (level, age at that task\'s remove time, '
                     'coverage) was removed: %r; tasks %r' % (e, case['tasks']), rep)
            return
        if alive and wanted:
            ts = [case['tasks'][i] for i in wanted]
            if not any(t['all'] or supports_timestamp(b) for t in ts):
                continue          # only tasks the configuration loader would refuse
            if e['dim'] != 0:
                ctx.fail('F15-dimension-tiles-survive,strategy=%s' % strategy_of(b, ts[0]['complete']),
                         'tile stored below a dimension directory survives: %r' % (e,), rep)
            else:
                ctx.fail('old-tile-survives,several-tasks', 'tile that task %d of the run has to remove survives: %r; tasks %r' % (
                    wanted[0], e, case['tasks']), rep)
                return


def oracle(ctx, case, obs):
    """The property statement on before/after, independent of the Coq model."""
    b, t = case['backend'], case['task']
    strat = strategy_of(b, t['complete'])
    rep = {'case': case, 'observed': obs}
    if obs['raised']:
        ctx.fail('cleanup-raised,backend=%s' % b.split(':')[0], 'cleanup() raised %s' % obs['raised'], rep)
        return
    T = t['T']
    if t.get('skip'):
        for e, alive in zip(case['entries'], obs['survived']):
            if not alive:
                ctx.fail('removed-too-much,strategy=skip', 'a cleanup task whose coverage is empty (nothing to clean) removed %r '
                         '(levels %r, remove_all %s)' % (e, t['levels'], t['all']), rep)
                return
        return
    for e, alive in zip(case['entries'], obs['survived']):
        if e['kind'] != 'tile':
            inside_selected = False
            if e['kind'] == 'indir' and e['dim'] == 0:
                name = dname_str(tuple(e['d']))
                inside_selected = any(name in ('%02d' % l, 'L%02d' % l, str(l)) for l in t['levels'])
            if e['kind'] == 'beside' and e['l'] in t['levels']:
                inside_selected = True
            if not alive and not inside_selected:
                ctx.fail('non-tile-removed,strategy=%s' % strat,
                         'something that is not a tile and lies outside the level directories was removed: %r' % (e,), rep)
                return
            continue
        selected = e['l'] in t['levels']
        covered = meta_intersects(case, e['x'], e['y'], e['l'])
        te = e['t']
        if not stores_timestamp(b):
            olders = {True}                  # load_tile_metadata reports -1: older than any remove time (documented)
        else:
            # "older" at the boundary the strategy states: file time strictly before T / whole second of the row
            # before the whole second of T / whole second of the tile not after T
            sec = te // Q
            olders = {{'dir': te < T, 'cache': sec < T // Q, 'walk': sec * Q <= T}[strat]}
        if t['all']:
            olders = {True}
        if not alive:
            what = None
            if not selected:
                what = 'tile of a level that was not selected was removed'
            elif not covered:
                what = 'tile whose meta tile lies outside the coverage was removed'
            elif olders == {False}:
                what = 'tile newer than the remove time was removed'
            if what:
                ctx.fail('removed-too-much,strategy=%s' % strat, '%s: %r (remove time %s, levels %r)' % (what, e, T, t['levels']), rep)
                return
        else:
            if selected and covered and olders == {True} and case.get('guarded', True):
                if e['dim'] != 0:
                    sig = 'F15-dimension-tiles-survive,strategy=%s' % strat
                    what = 'tile stored below a dimension directory survives'
                else:
                    sig = 'old-tile-survives,strategy=%s' % strat
                    what = 'tile of a selected level, older than the remove time, meta tile intersecting the coverage, survives'
                ctx.fail(sig, '%s: %r (remove time %s, remove_all %s, levels %r, coverage %r)' % (
                    what, e, T, t['all'], t['levels'], t['cov']), rep)
                # keep looking: several classes can occur in one case
    return


# ------------------------------------------------------------------------------------------------ Gallina

def place_lit(e):
    k = e['kind']
    if k == 'tile':
        return '(PTile %s %s %s %s)' % (zlit(e['dim']), zlit(e['l']), zlit(e['x']), zlit(e['y']))
    if k == 'indir':
        return '(PInDir %s %s)' % (zlit(e['dim']), dname_lit(tuple(e['d'])))
    if k == 'beside':
        return '(PBeside %s)' % zlit(e['l'])
    if k == 'colour':
        return '(PInDir 0 (DOther %d))' % (900 + e['k'])
    return 'POutside'


def entry_lit(e):
    from common import olit
    return '(mkEntry %s %s %s %s)' % (place_lit(e), zlit(e['t']), blit(bool(e.get('isdir'))), olit(e.get('target')))


def boxes_lit(t):
    return llit(task_boxes(t), lambda c: '(%s, %s, %s, %s)' % tuple(zlit(v) for v in c))


def case_lit(case, obs):
    bbox, _, _, spans, sizes = grid_info(case['grid'])
    t = case['task']
    pyr = '(mkPyr %s %s %s %s (%s, %s))' % (zlit(bbox[0]), zlit(bbox[1]), llit(spans),
                                          llit(sizes, lambda s: '(%d, %d)' % s), zlit(case['meta'][0]), zlit(case['meta'][1]))
    task = '(mkTask %s %s %s %s %s)' % (llit(t['levels']), zlit(t['T']), blit(t['all']), blit(t['complete']),
                                        {None: 'false', 'only': '(conf_skip [true])', 'mixed': '(conf_skip [false; true])'}[t.get('skip')])
    cov = boxes_lit(t)
    walked = llit(obs['walked'], lambda c: '(%s, %s, %s)' % (zlit(c[0]), zlit(c[1]), zlit(c[2])))
    surv = obs['survived'] if not obs['raised'] else [not s for s in obs['survived']] + [True]   # cannot match
    return '(%s, %s, %s, %s, %s, %s, %s, %s)' % (backend_lit(case['backend']), pyr, task, cov, walked,
                                                 llit(case['entries'], entry_lit), llit(surv, blit), llit(obs['dirs'], blit))


def multi_lit(case, obs):
    bbox, _, _, spans, sizes = grid_info(case['grid'])
    pyr = '(mkPyr %s %s %s %s (%s, %s))' % (zlit(bbox[0]), zlit(bbox[1]), llit(spans),
                                          llit(sizes, lambda s: '(%d, %d)' % s), zlit(case['meta'][0]), zlit(case['meta'][1]))
    walks = list(obs['walks'])
    ts = []
    for t in case['tasks']:
        w = walks.pop(0) if (strategy_of(case['backend'], t['complete']) == 'walk' and walks) else []
        ts.append('(mkTask %s %s %s %s false, %s, %s)' % (
            llit(t['levels']), zlit(t['T']), blit(t['all']), blit(t['complete']), boxes_lit(t),
            llit(w, lambda c: '(%s, %s, %s)' % (zlit(c[0]), zlit(c[1]), zlit(c[2])))))
    surv = obs['survived'] if not obs['raised'] else [not x for x in obs['survived']] + [True]
    return '(%s, %s, [%s], %s, %s)' % (backend_lit(case['backend']), pyr, '; '.join(ts),
                                       llit(case['entries'], entry_lit), llit(surv, blit))


# ------------------------------------------------------------------------------------------------ generators

DELTAS = [-40, -9, -8, -5, -4, -3, -2, -1, 0, 0, 1, 2, 3, 4, 5, 8, 9, 40]


def gen_case(rng, backend=None, grid=None, force=None):
    force = force or {}
    b = backend or rng.choice(BACKENDS)
    if grid is None:
        grid = rng.choice(['g3', 'g3', 'g4w', 'odd', 'deep'])
    if b == 'file:quadkey':
        grid = 'g3' if grid != 'deep' else 'deep'     # 2^z tiles per axis only (F4)
    bbox, ts, ress, spans, sizes = grid_info(grid)
    nlev = len(spans)
    meta = force.get('meta') or rng.choice([(1, 1), (2, 2), (2, 2), (2, 1), (4, 4), (3, 2)])
    complete = force.get('complete')
    if complete is None:
        complete = rng.random() < 0.55
    strat = strategy_of(b, complete)
    walk = strat == 'walk'
    # levels the walk may touch stay small
    maxwalk = 4 if grid == 'deep' else nlev - 1
    lev_pool = list(range(nlev)) if not walk else list(range(maxwalk + 1))
    k = rng.choice([1, 1, 2, 2, 3, len(lev_pool)])
    levels = sorted(rng.sample(lev_pool, min(k, len(lev_pool))))
    if grid == 'deep' and not walk and rng.random() < 0.7:
        levels = sorted(set(levels) | set(rng.sample([9, 10, 11], rng.choice([1, 2]))))
    phase = rng.randrange(Q)
    T = 40 * Q + phase
    deltas = DELTAS
    tz = None
    if b in ('sqlite', 'mbtiles:ts') and rng.random() < 0.5:
        # another process time zone; tiles a few hours around the remove time
        tz = rng.choice(['EST5', 'XXX-2', 'XXX-5:30'])
        T = 30 * 3600 * Q + phase
        deltas = [h * 3600 * Q + d for h in (-7, -6, -5, -3, -2, -1, 0, 1, 2, 3, 5, 6, 7) for d in (-4, 0, 4)]
    remove_all = rng.random() < 0.2
    guarded = True
    if not supports_timestamp(b):
        if rng.random() < 0.15 and not remove_all:
            guarded = False           # direct CleanupTask the configuration loader would refuse
        else:
            remove_all = True
    if 'all' in force:
        remove_all = force['all']
        if remove_all:
            guarded = True
    # coverage
    fin = spans[min(nlev - 1, maxwalk if walk else nlev - 1)]
    half = max(fin // 2, 1)
    if complete:
        cov = list(bbox)
    else:
        if grid == 'deep':
            ox = rng.randrange(0, 6) * spans[4]
            oy = rng.randrange(0, 6) * spans[4]
            w = rng.randrange(1, 8) * half
            h = rng.randrange(1, 8) * half
            cov = [ox + rng.randrange(0, 3) * half, oy + rng.randrange(0, 3) * half, 0, 0]
            cov[2], cov[3] = cov[0] + w, cov[1] + h
        else:
            nx = (bbox[2] - bbox[0]) // half
            ny = (bbox[3] - bbox[1]) // half
            xs = sorted(rng.sample(range(-2, nx + 3), 2))
            ys = sorted(rng.sample(range(-2, ny + 3), 2))
            if rng.random() < 0.2:
                xs = [-2, nx + 2]
            cov = [bbox[0] + xs[0] * half, bbox[1] + ys[0] * half, bbox[0] + xs[1] * half, bbox[1] + ys[1] * half]
    covs = None
    if not complete and grid != 'deep' and (force.get('border_polygon') or rng.random() < 0.35):
        # polygon coverage: union of two boxes whose edges lie in the middle of the finest tiles (never on an edge)
        nx = (bbox[2] - bbox[0]) // half
        ny = (bbox[3] - bbox[1]) // half
        covs = []
        for _ in range(2):
            xs = sorted(rng.sample(range(1, nx, 2), 2)) if nx >= 4 else [1, nx - 1]
            ys = sorted(rng.sample(range(1, ny, 2), 2)) if ny >= 4 else [1, ny - 1]
            covs.append([bbox[0] + xs[0] * half, bbox[1] + ys[0] * half, bbox[0] + xs[1] * half, bbox[1] + ys[1] * half])
        if force.get('border_polygon') or rng.random() < 0.3:
            # an L along the south and west borders: not a rectangle, but its bounding box is the bbox of the grid
            xm = rng.randrange(1, nx, 2) if nx >= 2 else 1
            ym = rng.randrange(1, ny, 2) if ny >= 2 else 1
            covs = [[bbox[0], bbox[1], bbox[2], bbox[1] + ym * half], [bbox[0], bbox[1], bbox[0] + xm * half, bbox[3]]]
        cov = [min(c[0] for c in covs), min(c[1] for c in covs), max(c[2] for c in covs), max(c[3] for c in covs)]
    if not complete:
        # keep the coverage inside the grid: where a meta tile overhangs the grid (grid size not a multiple of the
        # meta size) the walk reaches it through its ancestors only, so "intersects" is meant inside the grid
        cov = [max(cov[0], bbox[0]), max(cov[1], bbox[1]), min(cov[2], bbox[2]), min(cov[3], bbox[3])]
        if cov[0] >= cov[2] or cov[1] >= cov[3]:
            cov = [bbox[0], bbox[1], bbox[0] + 3 * half, bbox[1] + 2 * half]
    # tiles
    entries = []
    seen = set()
    tile_levels = list(range(nlev)) if grid != 'deep' else sorted(set(list(range(0, 5)) + [9, 10, 11]))
    dim_ok = b in DIM_LAYOUTS and rng.random() < 0.3
    for l in tile_levels:
        nx, ny = sizes[l]
        want = rng.choice([0, 1, 2, 3, 5]) if grid == 'deep' and l > 4 else rng.choice([0, 1, 2, 4, 6])
        for _ in range(want):
            if grid == 'deep' and l > 4:
                x, y = rng.randrange(min(nx, 40)), rng.randrange(min(ny, 40))
            elif not complete and rng.random() < 0.6:
                # near the coverage
                s = spans[l]
                x = min(max((rng.randrange(cov[0] - s, cov[2] + s) - bbox[0]) // s, 0), nx - 1)
                y = min(max((rng.randrange(cov[1] - s, cov[3] + s) - bbox[1]) // s, 0), ny - 1)
            else:
                x, y = rng.randrange(nx), rng.randrange(ny)
            dim = rng.choice([0, 0, 1, 2]) if dim_ok else 0
            if (dim, l, x, y) in seen:
                continue
            seen.add((dim, l, x, y))
            t = T + rng.choice(deltas)
            if b in ('mbtiles:ts', 'sqlite'):
                t = (t // Q) * Q            # rows carry whole seconds
            entries.append({'kind': 'tile', 'dim': dim, 'l': l, 'x': x, 'y': y, 't': t})
    # single-colour tiles stored as symbolic links to a shared file whose time lies on either side of T
    if b.startswith('file:') and rng.random() < 0.35:
        ctimes = [T + rng.choice([-40, -8, -1, 0, 1, 8, 40]) for _ in COLOURS]
        used = set()
        for e in entries:
            if rng.random() < 0.6:
                e['link'] = rng.randrange(len(COLOURS))
                e['target'] = ctimes[e['link']]
                used.add(e['link'])
        for k in sorted(used):
            entries.append({'kind': 'colour', 'k': k, 't': ctimes[k]})
    # a file that another process removes while the directory is being cleaned, with neighbours in its directory
    if strat == 'dir' and not remove_all and rng.random() < 0.3:
        l = rng.choice([l for l in tile_levels if min(sizes[l]) >= 3])
        nx, ny = sizes[l]
        if b == 'file:arcgis':
            y0 = rng.randrange(min(ny, 40))
            group = [(x, y0) for x in rng.sample(range(min(nx, 40)), min(4, nx))]
        else:
            x0 = rng.randrange(min(nx, 40))
            group = [(x0, y) for y in rng.sample(range(min(ny, 40)), min(4, ny))]
        entries = [e for e in entries if not (e['kind'] == 'tile' and e['dim'] == 0 and e['l'] == l and (e['x'], e['y']) in group)]
        for i, (x, y) in enumerate(group):
            entries.append({'kind': 'tile', 'dim': 0, 'l': l, 'x': x, 'y': y, 't': T - rng.choice([1, 5, 40]), 'vanish': i == 0})
    # not tiles
    n = 0
    for _ in range(rng.choice([0, 1, 2, 3])):
        n += 1
        entries.append({'kind': 'outside', 'n': n, 't': T + rng.choice(DELTAS)})
    if b.startswith('file:') or b.startswith('compact'):
        for _ in range(rng.choice([0, 1, 2, 3])):
            n += 1
            l = rng.choice(tile_levels)
            kind = rng.choice(['pad', 'plain', 'arc', 'other'])
            if b.startswith('compact') and kind in ('pad', 'plain'):
                kind = 'arc'
            if b == 'file:reverse_tms' and kind == 'plain':
                kind = 'pad'
            dim = rng.choice([0, 0, 1]) if dim_ok else 0
            isdir = rng.random() < 0.3
            entries.append({'kind': 'indir', 'dim': dim, 'd': [kind, l], 'n': n, 'isdir': isdir,
                            't': T + rng.choice(DELTAS)})
    if b == 'sqlite':
        for _ in range(rng.choice([0, 1, 2])):
            n += 1
            entries.append({'kind': 'beside', 'l': rng.choice(tile_levels), 'n': n, 't': T + rng.choice(DELTAS)})
    used = set(e['link'] for e in entries if e.get('link') is not None)
    entries = [e for e in entries if e['kind'] != 'colour' or e['k'] in used]
    rng.shuffle(entries)
    task = {'levels': levels, 'T': T, 'all': remove_all, 'complete': complete, 'cov': cov}
    if covs:
        task['covs'] = covs
    case = {'backend': b, 'grid': grid, 'meta': list(meta), 'guarded': guarded, 'task': task,
            'entries': entries, 'concurrency': rng.choice([1, 1, 2])}
    if tz:
        case['tz'] = tz
    if b.startswith('file:') and rng.random() < 0.6:
        case['dir_t'] = T + rng.choice([-400, -40, -8, 8])
    return case


def finding_cases():
    """Witnesses of the known findings (the content of corpus/C12, kept here to regenerate it)."""
    T = 40 * Q
    out = []
    # F15: dimension directory skipped by the directory strategy and by the tile walk
    for b, complete in (('file:tc', True), ('file:mp', False)):
        out.append({'backend': b, 'grid': 'g3', 'meta': [2, 2], 'guarded': True,
                    'task': {'levels': [1], 'T': T + 400, 'all': False, 'complete': complete, 'cov': [0, 0, 1024, 1024]},
                    'entries': [{'kind': 'tile', 'dim': 1, 'l': 1, 'x': 0, 'y': 1, 't': T - 40},
                                {'kind': 'tile', 'dim': 0, 'l': 1, 'x': 0, 'y': 1, 't': T - 40},
                                {'kind': 'tile', 'dim': 0, 'l': 2, 'x': 3, 'y': 1, 't': T - 40}], 'concurrency': 1})
    # tms layout: level directory name "%02d" vs tile directory str(z)
    out.append({'backend': 'file:tms', 'grid': 'deep', 'meta': [2, 2], 'guarded': True,
                'task': {'levels': [1, 10], 'T': T, 'all': False, 'complete': True, 'cov': [0, 0, 262144, 262144]},
                'entries': [{'kind': 'tile', 'dim': 0, 'l': 1, 'x': 1, 'y': 0, 't': T - 40},
                            {'kind': 'tile', 'dim': 0, 'l': 10, 'x': 5, 'y': 7, 't': T - 40},
                            {'kind': 'tile', 'dim': 0, 'l': 10, 'x': 5, 'y': 8, 't': T + 4},
                            {'kind': 'indir', 'dim': 0, 'd': ['pad', 1], 'n': 1, 'isdir': False, 't': T - 40}],
                'concurrency': 1})
    # per-level geopackage: remove_before accepted by the configuration, nothing removed / everything removed
    for complete in (True, False):
        out.append({'backend': 'gpkglevel', 'grid': 'g3', 'meta': [1, 1], 'guarded': supports_timestamp('gpkglevel'),
                    'task': {'levels': [0, 2], 'T': T, 'all': False, 'complete': complete, 'cov': [0, 0, 1024, 1024]},
                    'entries': [{'kind': 'tile', 'dim': 0, 'l': 2, 'x': 1, 'y': 1, 't': T - 40},
                                {'kind': 'tile', 'dim': 0, 'l': 1, 'x': 1, 'y': 1, 't': T - 40}], 'concurrency': 1})
    return out


def fixed_cases(quick=True):
    """Boundary cases, always run (after the corpus)."""
    T = 40 * Q
    out = []
    # the one-second boundary on every timestamped strategy
    for b, complete in (('file:tc', True), ('file:tc', False), ('sqlite', True), ('sqlite', False), ('mbtiles:ts', True)):
        for phase in (0, 2):
            ents = []
            for i, d in enumerate([-4, -1, 0, 1, 2, 3, 4, 5]):
                t = T + phase + d
                if not b.startswith('file:'):
                    t = (t // Q) * Q
                ents.append({'kind': 'tile', 'dim': 0, 'l': 2, 'x': i % 4, 'y': i // 4, 't': t})
            out.append({'backend': b, 'grid': 'g3', 'meta': [2, 2], 'guarded': True,
                        'task': {'levels': [2], 'T': T + phase, 'all': False, 'complete': complete, 'cov': [0, 0, 1024, 1024]},
                        'entries': ents, 'concurrency': 1})
    # polygon coverage: a contained meta tile followed by a sibling that is only partly covered (levels below it
    # must still be filtered by the coverage)
    A, B = [192, 192, 576, 576], [64, 832, 192, 960]
    for levels in ([3], [2, 3]):
        out.append({'backend': 'file:tc', 'grid': 'g4w', 'meta': [1, 1], 'guarded': True, 'concurrency': 1,
                    'task': {'levels': levels, 'T': T, 'all': False, 'complete': False, 'cov': [64, 192, 576, 960], 'covs': [A, B]},
                    'entries': [{'kind': 'tile', 'dim': 0, 'l': 3, 'x': x, 'y': y, 't': T - 40}
                                for x, y in ((0, 1), (1, 1), (0, 0), (2, 2), (3, 1), (0, 7), (1, 7), (4, 4), (5, 5))] +
                               [{'kind': 'tile', 'dim': 0, 'l': 2, 'x': x, 'y': y, 't': T - 40} for x, y in ((0, 0), (1, 1), (2, 3))]})
    # linked single-colour tiles: the age of a tile is the age of the link, not of the shared file
    for b, complete in (('file:tc', True), ('file:tms', True), ('file:tc', False)):
        out.append({'backend': b, 'grid': 'g3', 'meta': [2, 2], 'guarded': True, 'concurrency': 1,
                    'task': {'levels': [2], 'T': T, 'all': False, 'complete': complete, 'cov': [0, 0, 1024, 1024]},
                    'entries': [{'kind': 'tile', 'dim': 0, 'l': 2, 'x': 0, 'y': 0, 't': T - 40, 'link': 0, 'target': T + 40},
                                {'kind': 'tile', 'dim': 0, 'l': 2, 'x': 1, 'y': 0, 't': T + 40, 'link': 1, 'target': T - 40},
                                {'kind': 'tile', 'dim': 0, 'l': 2, 'x': 2, 'y': 0, 't': T - 40, 'link': 1, 'target': T - 40},
                                {'kind': 'tile', 'dim': 0, 'l': 2, 'x': 3, 'y': 0, 't': T - 40},
                                {'kind': 'tile', 'dim': 0, 'l': 1, 'x': 0, 'y': 0, 't': T - 40, 'link': 0, 'target': T + 40},
                                {'kind': 'colour', 'k': 0, 't': T + 40}, {'kind': 'colour', 'k': 1, 't': T - 40}]})
    # sqlite rows are written and compared in local time: other process time zones
    H = 3600 * Q
    for b in ('sqlite', 'mbtiles:ts'):
        for tz in ('EST5', 'XXX-2'):
            for complete in (True, False):
                out.append({'backend': b, 'grid': 'g3', 'meta': [2, 2], 'guarded': True, 'concurrency': 1, 'tz': tz,
                            'task': {'levels': [2], 'T': 30 * H, 'all': False, 'complete': complete, 'cov': [0, 0, 1024, 1024]},
                            'entries': [{'kind': 'tile', 'dim': 0, 'l': 2, 'x': i, 'y': 1, 't': 30 * H + d * H}
                                        for i, d in enumerate((-6, -1, 1, 3))]})
    # a slow first batch: the bounded queue between walker and worker stays full for more than 5 s (Queue.Full with
    # a living worker); every batch has to be handed over all the same
    for b in (['file:tc'] if quick else ['file:tc', 'sqlite', 'file:quadkey']):
        out.append({'backend': b, 'grid': 'g3', 'meta': [1, 1], 'guarded': True, 'concurrency': 1, 'slow_first_batch': 6.5,
                    'task': {'levels': [2], 'T': T, 'all': False, 'complete': False, 'cov': [0, 0, 1024, 768]},
                    'entries': [{'kind': 'tile', 'dim': 0, 'l': 2, 'x': x, 'y': y, 't': T - 40}
                                for x, y in ((0, 0), (1, 0), (2, 1), (3, 1), (0, 2), (2, 2))] +
                               [{'kind': 'tile', 'dim': 0, 'l': 2, 'x': 1, 'y': 3, 't': T - 40},
                                {'kind': 'tile', 'dim': 0, 'l': 2, 'x': 1, 'y': 1, 't': T + 40}]})
    # compact cache: a meta tile (3x3 does not divide 128) that straddles the border between two bundles in x and y;
    # decoys sit at the same position relative to their bundle, 128 columns / rows away
    S8 = 1024          # width of a level 8 tile of the deep grid
    for b in ('compact1', 'compact2'):
        for (mx, my) in ((126, 126), (126, 0)):
            cov = [mx * S8 + S8 // 2, my * S8 + S8 // 2, (mx + 2) * S8 + S8 // 2, (my + 2) * S8 + S8 // 2]
            inside = [(mx + dx, my + dy) for dx in (0, 1, 2) for dy in (0, 1, 2)]
            decoys = [((x + 128) % 256, y) for x, y in inside[:4]] + [(x, (y + 128) % 256) for x, y in inside[4:]] + \
                     [((x + 128) % 256, (y + 128) % 256) for x, y in inside[::2]]
            out.append({'backend': b, 'grid': 'deep', 'meta': [3, 3], 'guarded': True, 'concurrency': 1,
                        'task': {'levels': [8], 'T': T, 'all': True, 'complete': False, 'cov': cov},
                        'entries': [{'kind': 'tile', 'dim': 0, 'l': 8, 'x': x, 'y': y, 't': T - 40}
                                    for x, y in sorted(set(inside + decoys))] +
                                   [{'kind': 'tile', 'dim': 0, 'l': 7, 'x': 63, 'y': 63, 't': T - 40}]})
    # tile walk with remove_before: the batch handed to remove_tiles holds only the stale tiles of a meta tile, i.e. an
    # arbitrary subset of the block (not a rectangle, not contiguous).  Meta tiles whose expired and newer tiles are
    # interleaved: checkerboard / the two opposite corners only / every other tile of one row and of one column; a
    # second meta tile inside the coverage that is entirely newer, one outside the coverage that is entirely expired.
    blk = [(x, y) for x in range(4) for y in range(4)]
    patterns = [('checker', set(p for p in blk if (p[0] + p[1]) % 2 == 0)),
                ('corners', set([(0, 0), (3, 3)])),
                ('comb', set([(0, 1), (2, 1), (1, 0), (1, 2), (3, 3)]))]
    walk_backends = ['sqlite', 'mbtiles:ts', 'file:tc', 'file:quadkey'] + \
                    ([] if quick else ['file:mp', 'file:tms', 'file:reverse_tms', 'file:arcgis'])
    for b in walk_backends:
        for name, stale in patterns:
            for meta, grid, lvl, cov in (([4, 4], 'g4w', 3, [64, 64, 960, 448]), ([2, 2], 'g3', 2, [128, 128, 896, 896])):
                if meta == [2, 2] and name != 'checker':
                    continue
                if b == 'file:quadkey' and grid != 'g3':
                    continue
                span = 128 if grid == 'g4w' else 256
                pts = blk if meta == [4, 4] else [(x, y) for x in range(4) for y in range(4)]
                ents = [{'kind': 'tile', 'dim': 0, 'l': lvl, 'x': x, 'y': y, 't': T - 40 if (x, y) in stale else T + 40}
                        for x, y in pts]
                if meta == [4, 4]:
                    ents += [{'kind': 'tile', 'dim': 0, 'l': lvl, 'x': 4 + x, 'y': y, 't': T + 40} for x, y in ((0, 0), (3, 3), (1, 2))]
                    ents += [{'kind': 'tile', 'dim': 0, 'l': lvl, 'x': 8 + x, 'y': 4 + y, 't': T - 40} for x, y in ((0, 0), (3, 3), (1, 2))]
                ents.append({'kind': 'tile', 'dim': 0, 'l': lvl - 1, 'x': 0, 'y': 0, 't': T - 40})
                out.append({'backend': b, 'grid': grid, 'meta': meta, 'guarded': True, 'concurrency': 1,
                            'task': {'levels': [lvl], 'T': T, 'all': False, 'complete': False, 'cov': cov},
                            'entries': ents})
    # a newer tile in a directory that is older than the remove time
    for b in ('file:tc', 'file:tms'):
        out.append({'backend': b, 'grid': 'g3', 'meta': [2, 2], 'guarded': True, 'concurrency': 1, 'dir_t': T - 400,
                    'task': {'levels': [2], 'T': T, 'all': False, 'complete': True, 'cov': [0, 0, 1024, 1024]},
                    'entries': [{'kind': 'tile', 'dim': 0, 'l': 2, 'x': 1, 'y': 1, 't': T + 40},
                                {'kind': 'tile', 'dim': 0, 'l': 2, 'x': 1, 'y': 2, 't': T - 40},
                                {'kind': 'tile', 'dim': 0, 'l': 2, 'x': 2, 'y': 2, 't': T},
                                {'kind': 'tile', 'dim': 0, 'l': 1, 'x': 0, 'y': 0, 't': T - 40}]})
    return out


def load_corpus():
    out = []
    if os.path.isdir(CORPUS):
        for fn in sorted(os.listdir(CORPUS)):
            if fn.endswith('.json'):
                with open(os.path.join(CORPUS, fn)) as f:
                    d = json.load(f)
                out.extend(d['cases'] if 'cases' in d else [d['case']])
    for c in out:      # a task the configuration loader would build?
        c['guarded'] = bool(c['task']['all'] or supports_timestamp(c['backend']))
    return out


# ------------------------------------------------------------------------------------------------ configuration guard

def conf_cases(ctx):
    """seed/config.py CleanupConfiguration.cleanup_tasks: which (remove_timestamp, remove_all) each cache gets."""
    rng = ctx.rng
    cases = []
    kinds = ['file:tc', 'mbtiles:nots', 'mbtiles:ts', 'sqlite', 'gpkg', 'gpkglevel', 'compact2']
    whens = ['all', 'before', 'default']
    cases.append(('default', ['mbtiles:nots', 'sqlite']))      # witness of conf-remove-all-leaks
    cases.append(('default', ['sqlite', 'mbtiles:nots']))
    cases.append(('default', ['compact2', 'file:tc', 'gpkg']))
    for w in whens:
        for b in kinds:
            cases.append((w, [b]))
    for _ in range(ctx.n(20, 80)):
        cases.append((rng.choice(whens), [rng.choice(kinds) for _ in range(rng.choice([2, 2, 3]))]))
    return cases


def run_conf(ctx, w, backends, levels=None):
    """Build a real mapproxy + seed configuration with the caches in the given order, load the cleanup tasks."""
    import yaml
    from mapproxy.seed.config import load_seed_tasks_conf, SeedConfigurationError
    from mapproxy.config.loader import load_configuration
    root = ctx.tmpdir('c12conf')
    caches = {}
    names = []
    for i, b in enumerate(backends):
        name = 'c%02d' % i
        names.append(name)
        if b.startswith('file:'):
            cc = {'type': 'file', 'directory_layout': b.split(':')[1], 'directory': os.path.join(root, name)}
        elif b == 'mbtiles:nots':
            cc = {'type': 'mbtiles', 'filename': os.path.join(root, name + '.mbtiles')}
        elif b == 'mbtiles:ts':
            return None
        elif b == 'sqlite':
            cc = {'type': 'sqlite', 'directory': os.path.join(root, name)}
        elif b == 'gpkg':
            cc = {'type': 'geopackage', 'filename': os.path.join(root, name + '.gpkg'), 'table_name': 'tt'}
        elif b == 'gpkglevel':
            cc = {'type': 'geopackage', 'directory': os.path.join(root, name), 'levels': True, 'table_name': 'tt'}
        else:
            cc = {'type': 'compact', 'version': 2, 'directory': os.path.join(root, name)}
        caches[name] = {'grids': ['gg'], 'sources': [], 'cache': cc}
    mp = {'services': {'tms': {}},
          'grids': {'gg': {'srs': 'EPSG:3857', 'bbox': [0, 0, 1024, 1024], 'res': [4, 2, 1], 'origin': 'll'}},
          'caches': caches,
          'layers': [{'name': n, 'title': n, 'sources': [n]} for n in names],
          'globals': {'cache': {'base_dir': os.path.join(root, 'base'), 'lock_dir': os.path.join(root, 'locks'),
                                'tile_lock_dir': os.path.join(root, 'tlocks')}}}
    cl = {'caches': names, 'grids': ['gg']}
    if levels:
        cl['levels'] = dict((k, v) for k, v in levels.items() if v is not None)
    stamp = os.path.join(root, 'stamp')
    if w == 'all':
        cl['remove_all'] = True
    elif w == 'before':
        with open(stamp, 'w') as f:
            f.write('x')
        set_mtime(stamp, 77)
        cl['remove_before'] = {'mtime': stamp}
    seed = {'cleanups': {'cl': cl}}
    mpf, sf = os.path.join(root, 'mapproxy.yaml'), os.path.join(root, 'seed.yaml')
    with open(mpf, 'w') as f:
        yaml.safe_dump(mp, f)
    with open(sf, 'w') as f:
        yaml.safe_dump(seed, f)
    conf = load_configuration(mpf, seed=True)
    sconf = load_seed_tasks_conf(sf, conf)
    obs = []
    order = []
    tlevels = []
    init_time = None
    try:
        from mapproxy.seed.config import CleanupConfiguration
        cconf = CleanupConfiguration('cl', sconf.conf['cleanups']['cl'], sconf)
        init_time = cconf.init_time
        order = list(cconf.caches.keys())
        for task in cconf.cleanup_tasks():
            ts = task.remove_timestamp
            rel = 'init' if ts == init_time else int(round((ts - BASE) * Q))
            obs.append((rel, bool(task.remove_all), task.md['cache_name']))
            tlevels.append(list(task.levels))
            task.tile_manager.cleanup()
    except SeedConfigurationError:
        obs.append(None)
    shutil.rmtree(root, ignore_errors=True)
    return {'order': order, 'obs': obs, 'levels': tlevels}


# ------------------------------------------------------------------------------------------------ run

class ResumeCtx(object):
    """failures of the interrupted-and-continued stream get their own signatures"""

    def __init__(self, ctx, sig):
        self.ctx, self.sig = ctx, sig

    def fail(self, signature, what, replay):
        if not signature.startswith('F15-'):
            signature = self.sig or (signature + ',continued')
        self.ctx.fail(signature, 'after interruption and --continue: ' + what, replay)


class EntryCtx(object):
    """failures of the whole-entry stream say which cache of the entry and how the run was made"""

    def __init__(self, ctx, what):
        self.ctx, self.what = ctx, what

    def fail(self, signature, what, replay):
        self.ctx.fail(signature + ',cleanup-entry', self.what + what, replay)


def run_cases(ctx, cases, tag, budget=None):
    import time
    terms, descr = [], []
    for k, case in enumerate(cases):
        if budget is not None and time.time() - ctx.t0 > budget:
            # safety net for a heavily loaded machine: the cases are independent, the rest is skipped and said so
            ctx.notes.append('time budget reached: %d of %d generated cases run' % (k, len(cases)))
            break
        try:
            obs = run_impl(ctx, case)
        except Exception as ex:  # the harness could not even set the case up
            ctx.problem('harness', 'case could not be run on the implementation: %r' % (ex,), {'case': case})
            continue
        if any(e.get('vanish') for e in case['entries']):
            # the vanished file is nobody's business; everything else must be as if it had never been there
            keep = [i for i, e in enumerate(case['entries']) if not e.get('vanish')]
            case = dict(case, entries=[case['entries'][i] for i in keep], vanished=[e for e in case['entries'] if e.get('vanish')])
            obs = dict(obs, survived=[obs['survived'][i] for i in keep])
            ctx.count('vanishing_file=True')
        t = case['task']
        tiles = [(e, s) for e, s in zip(case['entries'], obs['survived']) if e['kind'] == 'tile']
        nontrivial = (any(s for _, s in tiles) and any(not s for _, s in tiles)) or \
            any(abs(e['t'] - t['T']) <= Q for e, _ in tiles)
        ctx.case(json.dumps(case, sort_keys=True), nontrivial,
                 {'case': case, 'survived': obs['survived'], 'walked': obs['walked'][:12]})
        strat = 'skip' if t.get('skip') else strategy_of(case['backend'], t['complete'])
        ctx.count('backend=' + case['backend'])
        ctx.count('strategy=' + strat)
        ctx.count('remove_all=%s' % t['all'])
        ctx.count('grid=' + case['grid'])
        ctx.count('dimension_tiles=%s' % any(e.get('dim') for e in case['entries']))
        ctx.count('linked_tiles=%s' % any(e.get('link') is not None for e in case['entries']))
        ctx.count('coverage=%s' % ('complete' if t['complete'] else 'polygon' if t.get('covs') else 'bbox'))
        ctx.count('tz=%s' % case.get('tz', 'UTC'))
        ctx.count('removed=%d' % min(sum(1 for s in obs['survived'] if not s), 5))
        oracle(ctx, case, obs)
        terms.append(case_lit(case, obs))
        descr.append({'case': case, 'implementation': obs})
    ctx.corr_check('cleanup_' + tag, 'Cleanup', 'corr_case', terms, 'check_case %d' % Q, lambda i: descr[i], shard=60)


def run(ctx):
    rng = ctx.rng
    # 1. corpus + fixed witnesses
    run_cases(ctx, load_corpus() + fixed_cases(ctx.quick), 'fixed')
    # 2. generated
    cases = []
    for b in BACKENDS:                       # every backend x complete extent or coverage x remove_before / remove_all
        for complete in (True, False):
            for remove_all in (False, True):
                for _ in range(ctx.n(1, 6)):
                    force = {'complete': complete}
                    if remove_all or supports_timestamp(b):
                        force['all'] = remove_all
                    cases.append(gen_case(rng, backend=b, force=force))
    for _ in range(ctx.n(120, 1500)):
        cases.append(gen_case(rng))
    # compact caches: meta tiles that straddle a bundle border (meta size not dividing 128, levels with > 128 tiles)
    for _ in range(ctx.n(2, 24)):
        L = rng.choice([8, 8, 9])
        span, n = 2 ** (18 - L), 2 ** L
        m = rng.choice([3, 5, 6, 7])
        mains = []
        for axis in range(2):
            k = rng.choice([128] if L == 8 else [128, 256, 384]) if rng.random() < 0.8 else rng.randrange(3, n - 8)
            mains.append(((k - 1) // m) * m)
        mx, my = mains
        cov = [mx * span + span // 2, my * span + span // 2, (mx + m - 1) * span + span // 2, (my + m - 1) * span + span // 2]
        inside = [(mx + dx, my + dy) for dx in range(m) for dy in range(m) if mx + dx < n and my + dy < n]
        inside = rng.sample(inside, min(len(inside), 8))
        decoys = [((x + rng.choice([128, n - 128])) % n, y) for x, y in inside[:3]] + \
                 [(x, (y + 128) % n) for x, y in inside[3:6]] + [((x + 128) % n, (y + 128) % n) for x, y in inside[5:]]
        cases.append({'backend': rng.choice(['compact1', 'compact2']), 'grid': 'deep', 'meta': [m, m], 'guarded': True,
                      'concurrency': rng.choice([1, 2]),
                      'task': {'levels': [L], 'T': 40 * Q, 'all': True, 'complete': False, 'cov': cov},
                      'entries': [{'kind': 'tile', 'dim': 0, 'l': L, 'x': x, 'y': y, 't': 120}
                                  for x, y in sorted(set(inside + decoys))]})
    run_cases(ctx, cases, 'generated', budget=ctx.n(100, 780))
    # 2b. several tasks in one cleanup() call (correspondence of the task loop; single-task oracle not applied)
    terms, descr = [], []
    multi = []
    for b in ('sqlite', 'gpkglevel', 'compact2', 'file:tc'):   # the same level removed twice / removed then cleaned again
        t1 = {'levels': [0, 2], 'T': 40 * Q, 'all': True, 'complete': True, 'cov': [0, 0, 1024, 1024]}
        t3 = dict(t1, all=not supports_timestamp(b), levels=[1, 2])
        multi.append({'backend': b, 'grid': 'g3', 'meta': [2, 2], 'guarded': True, 'concurrency': 1,
                      'tasks': [t1, dict(t1), t3, dict(t1, levels=[2])],
                      'entries': [{'kind': 'tile', 'dim': 0, 'l': 2, 'x': 1, 'y': 1, 't': 120},
                                  {'kind': 'tile', 'dim': 0, 'l': 1, 'x': 1, 'y': 0, 't': 200},
                                  {'kind': 'tile', 'dim': 0, 'l': 1, 'x': 0, 'y': 0, 't': 120},
                                  {'kind': 'tile', 'dim': 0, 'l': 0, 'x': 0, 'y': 0, 't': 120}]})
    for b in ('file:tc', 'sqlite', 'file:quadkey'):        # two tile walks over one tile manager with different remove times
        for T1, T2 in ((100, 300), (300, 100)):
            multi.append({'backend': b, 'grid': 'g3', 'meta': [1, 1], 'guarded': True, 'concurrency': 1,
                          'tasks': [{'levels': [2], 'T': T1, 'all': False, 'complete': False, 'cov': [0, 0, 512, 1024]},
                                    {'levels': [2], 'T': T2, 'all': False, 'complete': False, 'cov': [512, 0, 1024, 1024]}],
                          'entries': [{'kind': 'tile', 'dim': 0, 'l': 2, 'x': x, 'y': y, 't': 200} for x, y in ((0, 0), (1, 3), (2, 1), (3, 2))] +
                                     [{'kind': 'tile', 'dim': 0, 'l': 2, 'x': x, 'y': y, 't': 40} for x, y in ((0, 1), (3, 3))] +
                                     [{'kind': 'tile', 'dim': 0, 'l': 2, 'x': x, 'y': y, 't': 400} for x, y in ((1, 1), (2, 2))]})
    # per-level sqlite: removing level 1 / 2 entirely must leave the files of levels 10.. / 20.. alone
    for levels in ([1], [0, 1, 9]):
        multi.append({'backend': 'sqlite', 'grid': 'deep', 'meta': [2, 2], 'guarded': True, 'concurrency': 1,
                      'tasks': [{'levels': levels, 'T': 160, 'all': True, 'complete': True, 'cov': [0, 0, 262144, 262144]}],
                      'entries': [{'kind': 'tile', 'dim': 0, 'l': l, 'x': 1, 'y': 1, 't': 120} for l in (1, 9, 10, 11)] +
                                 [{'kind': 'tile', 'dim': 0, 'l': 0, 'x': 0, 'y': 0, 't': 120},
                                  {'kind': 'beside', 'l': 1, 'n': 1, 't': 120}, {'kind': 'beside', 'l': 10, 'n': 2, 't': 120}]})
    for _ in range(ctx.n(25, 250)):
        case = gen_case(rng)
        other = gen_case(rng, backend=case['backend'], grid=case['grid'], force={'meta': tuple(case['meta'])})
        case['tasks'] = [case.pop('task'), other['task']]
        if 'tz' not in case:
            # clearly different remove times for the tasks of one tile manager
            case['tasks'][1]['T'] = max(case['tasks'][0]['T'] + rng.choice([-36, -8, 8, 36]), 0)
        if rng.random() < 0.3:
            case['tasks'].append(dict(case['tasks'][0], all=not case['tasks'][0]['all'] or not supports_timestamp(case['backend'])))
        multi.append(case)
    for case in multi:
        case['entries'] = [dict((k, v) for k, v in e.items() if k != 'vanish') for e in case['entries']]
        try:
            obs = run_impl(ctx, case)
        except Exception as ex:
            ctx.problem('harness', 'multi-task case could not be run on the implementation: %r' % (ex,), {'case': case})
            continue
        ctx.case(json.dumps(case, sort_keys=True), True, None)
        ctx.count('tasks=%d' % len(case['tasks']))
        if obs['raised']:
            # cleanup() never raises in the model; the implementation case is still compared (cannot match)
            ctx.fail('cleanup-raised,backend=%s' % case['backend'].split(':')[0], 'cleanup() raised %s' % obs['raised'],
                     {'case': case, 'observed': obs})
        else:
            oracle_several(ctx, case, obs)
        terms.append(multi_lit(case, obs))
        descr.append({'case': case, 'implementation': obs})
    ctx.corr_check('cleanup_several_tasks', 'Cleanup',
                   'backend * pyramid * list (task * list bbox * list coord) * list entry * list bool', terms,
                   'check_multi %d' % Q, lambda i: descr[i], shard=60)
    # 2e. tasks built by the real configuration loader from mapproxy.yaml + seed.yaml, then cleaned
    lcases = []
    for b in ('file:tc', 'sqlite', 'file:tms', 'compact2'):
        for kind in ('complete', 'bbox', 'border'):
            c = gen_case(rng, backend=b, grid=rng.choice(['g3', 'g4w', 'odd']),
                         force={'complete': kind == 'complete', 'border_polygon': kind == 'border'})
            lcases.append(c)
    for _ in range(ctx.n(10, 150)):
        lcases.append(gen_case(rng, backend=rng.choice(['file:tc', 'file:mp', 'file:tms', 'file:quadkey', 'file:arcgis',
                                                        'sqlite', 'gpkglevel', 'compact2']),
                               grid=rng.choice(['g3', 'g4w', 'odd'])))
    for b in ('file:tc', 'sqlite', 'file:quadkey', 'compact2'):
        for mode, complete in (('only', True), ('mixed', False), ('only', False)):
            c = gen_case(rng, backend=b, grid=rng.choice(['g3', 'g4w', 'odd']), force={'complete': complete})
            c['task']['skip'] = mode
            lcases.append(c)
    for c in lcases:
        c['via_loader'] = True
        c.pop('tz', None)
        c['entries'] = [dict((k, v) for k, v in e.items() if k != 'vanish') for e in c['entries']]
        if not c['task']['all'] and not supports_timestamp(c['backend']):
            c['task']['all'] = True        # the loader refuses remove_before for these
        c['guarded'] = True
    run_cases(ctx, lcases, 'loader_tasks')
    # 2g. whole cleanup entries (several caches, progress store; remove_before as a delta of several units) - deterministic
    terms, descr = [], []
    for spec in entry_cases():
        try:
            res = run_entry(ctx, spec)
        except Exception as ex:
            ctx.problem('harness', 'cleanup entry could not be run on the implementation: %r' % (ex,), {'entry': spec})
            continue
        ctx.case(('entry', json.dumps(spec, sort_keys=True)), True, None)
        ctx.count('entry_caches=%d' % len(spec['backends']))
        ctx.count('entry_remove_before=%s' % ('delta:' + '+'.join(sorted(spec['task']['delta'])) if spec['task'].get('delta')
                                              else 'all' if spec['task']['all'] else 'mtime'))
        for k, (case, obs) in enumerate(res):
            what = 'cache %d of %d of one cleanup entry%s%s: ' % (
                k + 1, len(res), ', run with a progress store' if spec['progress'] else '',
                ', remove_before %r' % (spec['task']['delta'],) if spec['task'].get('delta') else '')
            oracle(EntryCtx(ctx, what), case, obs)
            terms.append(case_lit(case, obs))
            descr.append({'case': case, 'implementation': obs})
    ctx.corr_check('cleanup_entries', 'Cleanup', 'corr_case', terms, 'check_case %d' % Q, lambda i: descr[i], shard=60)
    # 2h. remove_before as a time delta: seed/config.py before_timestamp_from_options = now minus the sum of all units
    terms, descr = [], []
    for conf in ({'days': 1, 'hours': 12}, {'weeks': 1, 'days': 2, 'minutes': 30}, {'hours': 2, 'minutes': 30, 'seconds': 15},
                 {'minutes': 3, 'seconds': 20}, {'seconds': 90, 'minutes': 1}, {'weeks': 1, 'days': 1, 'hours': 1, 'minutes': 1, 'seconds': 1},
                 {'weeks': 2}, {'days': 7}, {'hours': 4}, {'minutes': 15}, {'seconds': 1}, {}):
        now = got = None
        try:
            from mapproxy.seed.config import before_timestamp_from_options
            for _ in range(50):          # the call and the harness have to read the clock within the same whole second
                t0 = time.time()
                r = before_timestamp_from_options(dict(conf))
                if int(t0) == int(time.time()):
                    now, got = int(t0), int(r)
                    break
        except Exception as ex:
            ctx.problem('harness', 'before_timestamp_from_options raised %r' % (ex,), {'remove_before': conf})
            continue
        if now is None:
            ctx.problem('harness', 'clock could not be read within one second around before_timestamp_from_options', {'remove_before': conf})
            continue
        ctx.case(('delta', tuple(sorted(conf.items()))), len(conf) > 1, {'remove_before': conf, 'seconds_before_now': now - got})
        ctx.count('delta_units=%d' % len(conf))
        if now - got != delta_ticks(conf) // Q:
            ctx.fail('remove-before-delta-units', 'remove_before %r gives a remove time %d s before now, expected the sum of the units = %d s '
                     '(tiles aged between the two are %s)' % (conf, now - got, delta_ticks(conf) // Q,
                                                              'removed although newer' if now - got < delta_ticks(conf) // Q else 'kept although older'),
                     {'remove_before': conf, 'seconds_before_now': now - got})
        terms.append('(%s, (%s, %s, %s, %s, %s), %s)' % (zlit(now), zlit(conf.get('weeks', 0)), zlit(conf.get('days', 0)),
                                                         zlit(conf.get('hours', 0)), zlit(conf.get('minutes', 0)),
                                                         zlit(conf.get('seconds', 0)), zlit(got)))
        descr.append({'remove_before': conf, 'now': now, 'remove_time': got})
    ctx.corr_check('remove_before_delta', 'Cleanup', 'Z * (Z * Z * Z * Z * Z) * Z', terms, 'check_delta', lambda i: descr[i])
    # 2f. names of the per-level sqlite files: which files of the directory go when one level is removed entirely
    from common import slit
    terms, descr = [], []
    for _ in range(ctx.n(12, 80)):
        from mapproxy.cache.mbtiles import MBTilesLevelCache
        d = ctx.tmpdir('c12names')
        l = rng.choice([0, 1, 1, 2, 3, 9, 10, 11, 12, 19, 20, 21, 100, 101])
        pool = sorted(set([l, l * 10, l * 10 + 1, l * 10 + 9, l // 10, l + 1, 1, 10, 11, 19, 100, 110] + [rng.randrange(0, 130) for _ in range(3)]))
        names = []
        for k in pool:
            names.append('%d.mbtile' % k)
            if rng.random() < 0.5:
                names.append('%d.mbtile-%s' % (k, rng.choice(['wal', 'shm', 'journal'])))
        names += ['%d.mbtileX' % l, 'x%d.mbtile' % l, '%d-1.mbtile' % l, '%d' % l, '%d.mbtil' % l]
        for n in names:
            with open(os.path.join(d, n), 'w') as f:
                f.write('x')
        cache = MBTilesLevelCache(d)
        fname = os.path.basename(cache._get_level(l).mbtile_file)
        try:
            cache.remove_level_tiles_before(l, remove_all=True)
            gone = [not os.path.exists(os.path.join(d, n)) for n in names]
        except Exception as ex:
            ctx.problem('harness', 'remove_level_tiles_before raised %r' % (ex,), {'level': l, 'names': names})
            continue
        shutil.rmtree(d, ignore_errors=True)
        ctx.case(('names', l, tuple(names)), True, None)
        for n, g in zip(names, gone):
            if g and not (n == '%d.mbtile' % l or n.startswith('%d.mbtile-' % l)):
                ctx.fail('removed-too-much,level-files', 'removing level %d of a per-level sqlite cache unlinked %s' % (l, n),
                         {'level': l, 'files': names, 'unlinked': [n2 for n2, g2 in zip(names, gone) if g2]})
                break
        terms.append('(%s, %s, %s, %s)' % (zlit(l), slit(fname), llit(names, slit), llit(gone, blit)))
        descr.append({'level': l, 'level_file': fname, 'files': names, 'unlinked': gone})
    ctx.corr_check('level_files', 'Cleanup', 'Z * string * list string * list bool', terms,
                   "fun c => let '(l, f, names, gone) := c in String.eqb (level_file l) f && "
                   "bools_eqb (map (unlinked_with_level l) names) gone", lambda i: descr[i])
    # 2c. directory strategy with a progress store: interrupted at a level boundary, then continued
    terms, descr = [], []
    rcases = []
    for b, grid, levels in (('file:tc', 'g3', [0, 1, 2]), ('file:mp', 'g4w', [1, 3]), ('file:arcgis', 'g3', [0, 2]),
                            ('file:tms', 'g3', [0, 1, 2]), ('file:tc', 'deep', [2, 9, 10, 11]), ('file:tms', 'deep', [3, 9, 10, 11])):
        for k in range(len(levels)):
            c = gen_case(rng, backend=b, grid=grid, force={'complete': True, 'all': False})
            c['task']['levels'] = levels
            rcases.append((c, k))
    # regression witness (repaired tms-resume-order): "10" must not sort before "2"
    rcases.append(({'backend': 'file:tms', 'grid': 'deep', 'meta': [2, 2], 'guarded': True, 'concurrency': 1,
                    'task': {'levels': [2, 10], 'T': 160, 'all': False, 'complete': True, 'cov': [0, 0, 262144, 262144]},
                    'entries': [{'kind': 'tile', 'dim': 0, 'l': 2, 'x': 1, 'y': 1, 't': 120},
                                {'kind': 'tile', 'dim': 0, 'l': 10, 'x': 5, 'y': 7, 't': 120},
                                {'kind': 'tile', 'dim': 0, 'l': 10, 'x': 5, 'y': 8, 't': 200}]}, 0))
    for _ in range(ctx.n(10, 120)):
        c = gen_case(rng, backend=rng.choice(['file:tc', 'file:mp', 'file:arcgis', 'file:tms']), force={'complete': True})
        rcases.append((c, rng.randrange(len(c['task']['levels']))))
    for case, k in rcases:
        case['entries'] = [dict((kk, v) for kk, v in e.items() if kk != 'vanish') for e in case['entries']]
        case['resume_at'] = k
        try:
            obs = run_impl(ctx, case, interrupt_at=k)
        except Exception as ex:
            ctx.problem('harness', 'resume case could not be run on the implementation: %r' % (ex,), {'case': case})
            continue
        ctx.case(json.dumps(case, sort_keys=True), True, None)
        ctx.count('resumed_after_level_index=%d' % min(k, 3))
        # a continued cleanup has to remove what an uninterrupted one removes
        oracle(ResumeCtx(ctx, None), case, obs)
        t = case['task']
        surv = obs['survived'] if not obs['raised'] else [not x for x in obs['survived']] + [True]
        terms.append('(%s, (mkTask %s %s %s true false), %d%%nat, %s, %s)' % (
            backend_lit(case['backend']), llit(t['levels']), zlit(t['T']), blit(t['all']), k,
            llit(case['entries'], entry_lit), llit(surv, blit)))
        descr.append({'case': case, 'interrupted_before_level_index': k, 'implementation': obs})
    ctx.corr_check('cleanup_resumed', 'Cleanup', 'backend * task * nat * list entry * list bool', terms,
                   'check_resume', lambda i: descr[i], shard=60)
    # 2d. levels of a cleanup task from the configuration (from/to ranges)
    terms, descr = [], []
    for frm in (None, 0, 1, 2):
        for to in (None, 0, 1, 2, 5):
            if frm is None and to is None:
                continue
            try:
                r = run_conf(ctx, 'all', ['file:tc'], levels={'from': frm, 'to': to})
            except Exception as ex:
                ctx.problem('harness', 'levels case could not be loaded: %r' % (ex,), {'from': frm, 'to': to})
                continue
            got = r['levels'][0] if r['levels'] else None
            want = list(range(frm or 0, min(2, 999 if to is None else to) + 1))
            ctx.case(('levels', frm, to), True, {'from': frm, 'to': to, 'levels': got})
            if got != want:
                ctx.fail('conf-levels-range', 'cleanup levels {from: %r, to: %r} on a grid with 3 levels selects %r, expected %r' % (
                    frm, to, got, want), {'from': frm, 'to': to, 'levels': got})
            from common import olit
            terms.append('(%s, %s, 3, %s)' % (olit(frm), olit(to), llit(got if got is not None else [-1])))
            descr.append({'from': frm, 'to': to, 'levels': got})
    ctx.corr_check('conf_levels', 'Cleanup', 'option Z * option Z * Z * list Z', terms, 'check_levels', lambda i: descr[i])
    # 3. configuration guard
    terms, descr = [], []
    for w, bs in conf_cases(ctx):
        try:
            r = run_conf(ctx, w, bs)
        except Exception as ex:
            ctx.problem('harness', 'configuration case could not be loaded: %r' % (ex,), {'when': w, 'backends': bs})
            continue
        if r is None:
            continue
        ctx.case(('conf', w, tuple(bs)), len(bs) > 1, {'when': w, 'backends': bs, 'tasks': r['obs']})
        ctx.count('conf_when=' + w)
        # order in which the loader iterates the caches
        order = [int(n[1:]) for n in r['order']] or list(range(len(bs)))
        seq = [bs[i] for i in order]
        obs = []
        for o in r['obs']:
            if o is None:
                obs.append('None')
            else:
                obs.append('(Some (%s, %s))' % (zlit(1000 if o[0] == 'init' else o[0]), blit(o[1])))
        wl = {'all': 'WAll', 'before': '(WBefore 77)', 'default': 'WDefault'}[w]
        terms.append('(1000, %s, %s, %s)' % (wl, llit(seq, backend_lit), '[' + '; '.join(obs) + ']'))
        descr.append({'when': w, 'backends_in_loader_order': seq, 'tasks': r['obs']})
        # oracle: a cache with timestamps must not be cleaned with remove_all unless configured
        for o in r['obs']:
            if o is None:
                continue
            b = bs[int(o[2][1:])]
            if o[1] and w != 'all' and supports_timestamp(b):
                ctx.fail('conf-remove-all-leaks', 'cleanup without remove_all configured cleans timestamped cache %s (%s) '
                         'with remove_all=True because an earlier cache of the same cleanup has no timestamps' % (o[2], b),
                         {'when': w, 'backends_in_loader_order': seq, 'tasks': r['obs']})
    ctx.corr_check('conf_guard', 'Cleanup', 'Z * when * list backend * list (option (Z * bool))', terms,
                   'check_conf', lambda i: descr[i])
