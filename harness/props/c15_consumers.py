"""C15, consumers of thread-pool results: the real TileCreator._create_bulk_meta_tile (mapproxy/cache/tile.py)
and LayerRenderer.render (mapproxy/service/wms.py) are driven with mock sources / layers whose outcome per
item is prescribed (ok with id, blank / None, SourceError id < 1000, RuntimeError id >= 1000) and whose
completion order is scrambled by per-item delays.  Observations are compared with PoolSync.bulk_meta /
render_raise / render_capture inside Coq; the oracle states the property directly.
"""
import threading
import time

from common import llit, olit, zlit


class Hard(Exception):
    def __init__(self, ident):
        Exception.__init__(self, 'hard %d' % ident)
        self.ident = ident


def vlit(item):
    kind, v = item
    if kind == 'ok':
        return '(Ok %s)' % zlit(v)
    if kind == 'blank':
        return '(Ok (-1))'
    return '(Exc %s)' % zlit(v)


def gen_items(rng, n, allow_fail=True):
    items = []
    for i in range(n):
        r = rng.random()
        if allow_fail and r < 0.22:
            items.append(('exc', rng.choice([100 + i, 1000 + i])))
        elif r < 0.40:
            items.append(('blank', -1))
        else:
            items.append(('ok', 10 + i))
    return items


# ---------------------------------------------------------------- _create_bulk_meta_tile

def run_bulk(items, delays, pool_size):
    """items[k] prescribes the outcome for the k-th tile of a 2x2 / 3x2 meta tile (input order of meta_tile.tiles).
    Returns (stored ids in store order, raised ident or None, returned ids)."""
    from mapproxy.cache.tile import TileManager
    from mapproxy.cache.dummy import DummyLocker
    from mapproxy.grid import tile_grid
    from mapproxy.image import ImageSource
    from mapproxy.image.opts import ImageOptions
    from mapproxy.layer import BlankImage
    from mapproxy.source import SourceError
    from PIL import Image

    n = len(items)
    grid = tile_grid(4326, bbox=[0, 0, 64, 32], res=[1, 0.5, 0.25, 0.125], tile_size=(8, 8), origin='ll')
    level = 2
    msize = (n, 1) if n <= 4 else ((n + 1) // 2, 2)

    class Src(object):
        supports_meta_tiles = False
        coverage = None
        res_range = None
        extent = None

        def get_map(self, query):
            x = int(round((query.bbox[0]) / (8 * 0.25)))
            y = int(round((query.bbox[1]) / (8 * 0.25)))
            k = order.get((x, y))
            time.sleep(delays[k])
            kind, v = items[k]
            if kind == 'blank':
                raise BlankImage()
            if kind == 'exc':
                if v >= 1000:
                    raise Hard(v)
                raise SourceError('S%d' % v)
            img = ImageSource(Image.new('RGB', (8, 8), (v, 0, 0)), image_opts=ImageOptions(format='image/png'))
            img.ident = v
            return img

    stored = []

    class Cache(object):
        supports_timestamp = False

        def is_cached(self, tile, dimensions=None):
            return False

        def load_tiles(self, tiles, with_metadata=False, dimensions=None):
            return False

        def load_tile(self, tile, with_metadata=False, dimensions=None):
            return False

        def store_tiles(self, tiles, dimensions=None):
            for t in tiles:
                stored.append(getattr(t.source, 'ident', -999))
            return True

        def store_tile(self, tile, dimensions=None):
            stored.append(getattr(tile.source, 'ident', -999))
            return True

    mgr = TileManager(grid, Cache(), [Src()], 'png', locker=DummyLocker(), image_opts=ImageOptions(format='image/png'),
                      meta_size=list(msize), meta_buffer=0, bulk_meta_tiles=True, concurrent_tile_creators=pool_size)
    meta_tile = mgr.meta_grid.meta_tile((0, 0, level))
    coords = [t for t in meta_tile.tiles if t is not None]
    if len(coords) < n:
        return None
    order = {(c[0], c[1]): k for k, c in enumerate(coords)}
    # tiles beyond n (3x2 with n=5): prescribe blank
    while len(items) < len(coords):
        items = items + [('blank', -1)]
        delays = delays + [0.0]
    raised = None
    returned = []
    try:
        tiles = mgr.creator()._create_bulk_meta_tile(meta_tile)
        returned = [getattr(t.source, 'ident', -999) for t in tiles]
    except SourceError as ex:
        raised = int(str(ex.args[0])[1:])
    except Hard as ex:
        raised = ex.ident
    return stored, raised, returned, items


# ---------------------------------------------------------------- LayerRenderer

class _Layer(object):
    coverage = None
    opacity = None

    def __init__(self, k, item, delay):
        self.k, self.item, self.delay = k, item, delay

    def combined_layer(self, other, query):
        return None

    def get_map(self, query):
        from mapproxy.source import SourceError
        time.sleep(self.delay)
        kind, v = self.item
        if kind == 'blank':
            return None
        if kind == 'exc':
            if v >= 1000:
                raise Hard(v)
            raise SourceError('S%d' % v)
        return _Img(v)


class _Img(object):
    def __init__(self, ident):
        self.ident = ident
        self.opacity = None


class _Merger(object):
    def __init__(self):
        self.added = []
        self.cacheable = True
        self.lock = threading.Lock()

    def add(self, img, coverage=None):
        self.added.append(getattr(img, 'ident', -2))


def run_render(items, delays, pool_size, raise_source_errors):
    """Returns (added ids (message image = -2), raised ident or None; RequestError 'Could not get any sources' = -1;
    in raise mode a SourceError arrives wrapped in a RequestError carrying its message)."""
    from mapproxy.service.wms import LayerRenderer
    from mapproxy.exception import RequestError
    from mapproxy.layer import MapQuery
    from mapproxy.srs import SRS
    layers = [_Layer(k, it, d) for k, (it, d) in enumerate(zip(items, delays))]
    query = MapQuery((0, 0, 10, 10), (20, 20), SRS(4326), 'png')
    merger = _Merger()
    raised = None
    try:
        LayerRenderer(layers, query, None, raise_source_errors=raise_source_errors,
                      concurrent_rendering=pool_size).render(merger)
    except RequestError as ex:
        msg = str(ex.msg if hasattr(ex, 'msg') else ex.args[0])
        if msg.startswith('Could not get any sources'):
            raised = -1
        elif msg.startswith('S'):
            raised = int(msg[1:])
        else:
            raised = -998
    except Hard as ex:
        raised = ex.ident
    return merger.added, raised


def with_timeout(fn, args, seconds=6.0):
    """Run fn(*args) in a daemon thread; returns ('ok', value) / ('raised', exc) / ('hang', None)."""
    box = {}

    def target():
        try:
            box['v'] = fn(*args)
        except BaseException as e:  # noqa
            box['e'] = e
    t = threading.Thread(target=target, daemon=True)
    t.start()
    t.join(seconds)
    if t.is_alive():
        return 'hang', None
    if 'e' in box:
        return 'raised', box['e']
    return 'ok', box['v']


# ---------------------------------------------------------------- driver

def spec_first_exc(items):
    for kind, v in items:
        if kind == 'exc':
            return v
    return None


def run(ctx):
    rng = ctx.rng
    nb = ctx.n(36, 220)
    bulk_terms, bulk_descr = [], []
    for c in range(nb):
        n = rng.choice([2, 2, 3, 4, 4, 6])
        ps = rng.choice([1, 2, 2, 3, 4, 6])
        items = gen_items(rng, n, allow_fail=(c % 3 != 0))
        delays = [rng.choice([0.0, 0.002, 0.006, 0.012]) for _ in range(n)]
        st, res = with_timeout(run_bulk, (list(items), list(delays), ps))
        if st != 'ok':
            ctx.fail('consumer=bulk_meta,' + ('hang' if st == 'hang' else 'harness-visible-exception'),
                     '_create_bulk_meta_tile did not terminate' if st == 'hang' else 'unexpected %r' % (res,),
                     {'consumer': 'TileCreator._create_bulk_meta_tile', 'concurrent_tile_creators': ps, 'tile_outcomes': items, 'delays': delays})
            continue
        if res is None:
            continue
        stored, raised, returned, items = res
        ctx.case(('bulk', ps, tuple(items), tuple(delays)), any(k != 'ok' for k, _ in items),
                 {'consumer': '_create_bulk_meta_tile', 'concurrent_tile_creators': ps, 'tiles': items,
                  'stored': stored, 'raised': raised})
        ctx.count('consumer=bulk_meta')
        rep = {'consumer': 'TileCreator._create_bulk_meta_tile', 'concurrent_tile_creators': ps, 'tile_outcomes': items,
               'delays': delays, 'stored': stored, 'raised': raised, 'returned': returned}
        fe = spec_first_exc(items)
        want = [v for k, v in items if k == 'ok']
        if fe is not None:
            if raised is None:
                ctx.fail('consumer=bulk_meta,swallowed', 'tile request %r failed but _create_bulk_meta_tile raised nothing '
                         '(stored %r)' % ([i for i in items if i[0] == 'exc'], stored), rep)
            elif raised not in [v for k, v in items if k == 'exc']:
                ctx.fail('consumer=bulk_meta,wrong-exception', 'raised %r which no tile produced' % raised, rep)
            elif stored:
                ctx.fail('consumer=bulk_meta,stored-despite-failure', 'tiles %r stored although the meta tile failed' % stored, rep)
        else:
            if raised is not None:
                ctx.fail('consumer=bulk_meta,spurious-raise', 'raised %r although no tile failed' % raised, rep)
            elif stored != want or returned != want:
                ctx.fail('consumer=bulk_meta,lost-or-reordered', 'stored %r / returned %r for tiles %r' % (stored, returned, want), rep)
        arrival = sorted(range(len(items)), key=lambda i: (delays[i], i))
        bulk_terms.append('(%d%%nat, %s, %s, (%s, %s))' % (ps, llit(items, vlit), llit(arrival, lambda a: '%d%%nat' % a),
                                                        llit(stored), olit(raised)))
        bulk_descr.append(rep)
    ctx.corr_check('bulk_meta', 'Pool PoolSync', 'nat * list val * list nat * (list Z * option Z)', bulk_terms,
                   "fun c => let '(ps, items, arr, out) := c in let r := bulk_meta ps items arr 1 in "
                   "zlist_eqb (fst r) (fst out) && oz_eqb (snd r) (snd out)", lambda i: bulk_descr[i])

    nr = ctx.n(60, 400)
    rr_terms, rr_descr, rc_terms, rc_descr = [], [], [], []
    for c in range(nr):
        n = rng.choice([1, 2, 2, 3, 4, 5])
        ps = rng.choice([1, 2, 2, 3, 5])
        items = gen_items(rng, n, allow_fail=(c % 4 != 0))
        delays = [rng.choice([0.0, 0.002, 0.006, 0.012]) for _ in range(n)]
        raise_mode = c % 2 == 0
        st, res = with_timeout(run_render, (items, delays, ps, raise_mode))
        if st != 'ok':
            ctx.fail('consumer=render_%s,%s' % ('raise' if raise_mode else 'capture', 'hang' if st == 'hang' else 'unexpected-exception'),
                     'LayerRenderer.render did not terminate' if st == 'hang' else 'LayerRenderer.render raised %r' % (res,),
                     {'consumer': 'LayerRenderer.render', 'raise_source_errors': raise_mode, 'concurrent_rendering': ps,
                      'layer_outcomes': items, 'delays': delays})
            continue
        added, raised = res
        ctx.case(('render', raise_mode, ps, tuple(items), tuple(delays)), any(k != 'ok' for k, _ in items),
                 {'consumer': 'LayerRenderer', 'raise_source_errors': raise_mode, 'concurrent_rendering': ps,
                  'layers': items, 'added': added, 'raised': raised})
        ctx.count('consumer=render_' + ('raise' if raise_mode else 'capture'))
        rep = {'consumer': 'LayerRenderer.render', 'raise_source_errors': raise_mode, 'concurrent_rendering': ps,
               'layer_outcomes': items, 'delays': delays, 'merger_received': added, 'raised': raised}
        want = [v for k, v in items if k == 'ok']
        fe = spec_first_exc(items)
        hard = next((v for k, v in items if k == 'exc' and v >= 1000), None)
        if raise_mode:
            if fe is not None and raised is None:
                ctx.fail('consumer=render_raise,swallowed', 'layer failure %r not raised' % fe, rep)
            elif fe is None and raised is not None:
                ctx.fail('consumer=render_raise,spurious-raise', 'raised %r although no layer failed' % raised, rep)
            elif fe is None and added != want:
                ctx.fail('consumer=render_raise,lost-or-reordered', 'merger received %r for layers %r' % (added, want), rep)
            elif fe is not None and raised != fe:
                ctx.fail('consumer=render_raise,wrong-exception', 'raised %r, first failing layer is %r' % (raised, fe), rep)
        else:
            if hard is not None and raised != hard:
                ctx.fail('consumer=render_capture,swallowed', 'non-source exception %r not re-raised (raised %r)' % (hard, raised), rep)
            elif hard is None and [a for a in added if a != -2] != want:
                ctx.fail('consumer=render_capture,lost-or-reordered', 'merger received %r for layers %r' % (added, want), rep)
        arrival = sorted(range(n), key=lambda i: (delays[i], i))
        term = '(%d%%nat, %s, %s, (%s, %s))' % (min(ps, n), llit(items, vlit), llit(arrival, lambda a: '%d%%nat' % a),
                                               llit(added), olit(raised))
        (rr_terms if raise_mode else rc_terms).append(term)
        (rr_descr if raise_mode else rc_descr).append(rep)
    ctx.corr_check('render_raise', 'Pool PoolSync', 'nat * list val * list nat * (list Z * option Z)', rr_terms,
                   "fun c => let '(ps, items, arr, out) := c in let r := render_raise ps items arr 1 in "
                   "zlist_eqb (fst r) (fst out) && oz_eqb (snd r) (snd out)", lambda i: rr_descr[i])
    ctx.corr_check('render_capture', 'Pool PoolSync', 'nat * list val * list nat * (list Z * option Z)', rc_terms,
                   "fun c => let '(ps, items, arr, out) := c in let r := render_capture ps items arr 1 in "
                   "oz_eqb (snd r) (snd out) && match snd out with Some _ => true | None => zlist_eqb (fst (fst r)) (fst out) end",
                   lambda i: rc_descr[i])


# ---------------------------------------------------------------- sequences of requests through the real WSGI app

APP_YAML = """
services:
  wms:
    concurrent_layer_renderer: %(conc)d
    on_source_errors: %(mode)s
    md: {title: c15}
layers:
%(layers)s
sources:
%(sources)s
globals:
  http: {client_timeout: 5}
"""


def run_app_sequences(ctx):
    """Every request must be composed of ITS OWN layer results: nothing of an earlier (possibly failed) request
    may reach a later one (the pool and its queues belong to one map_each call).  Real WSGI app, direct WMS
    layers, an upstream whose answer colour, delay and failure are chosen per layer."""
    import io
    import os
    from PIL import Image
    try:
        from webtest import TestApp
        from mapproxy.wsgiapp import make_wsgi_app
        import mapproxy.client.http as mhttp
    except Exception as e:  # noqa
        ctx.problem('harness', 'cannot import the application for the request-sequence stream: %r' % (e,))
        return
    rng = ctx.rng
    colours = {'red': (255, 0, 0), 'green': (0, 255, 0), 'blue': (0, 0, 255), 'yellow': (255, 255, 0),
               'slow': (255, 0, 255), 'broken': None}
    delays = {'red': 0.0, 'green': 0.01, 'blue': 0.03, 'yellow': 0.0, 'slow': 0.12, 'broken': 0.0}

    def png(rgb):
        b = io.BytesIO()
        Image.new('RGB', (32, 32), rgb).save(b, 'png')
        return b.getvalue()

    class Resp(io.BytesIO):
        def __init__(self, data):
            io.BytesIO.__init__(self, data)
            self.headers = {'Content-type': 'image/png'}
            self.code = 200

    def fake_open(self, url, data=None, method=None):
        import re
        import urllib.parse
        q = urllib.parse.parse_qs(urllib.parse.urlparse(url).query)
        name = (q.get('layers') or q.get('LAYERS') or ['?'])[0]
        time.sleep(delays.get(name, 0))
        if colours.get(name) is None:
            raise mhttp.HTTPClientError('upstream down', response_code=500)
        return Resp(png(colours[name]))

    layers = '\n'.join("  - {name: %s, title: %s, sources: [%s_src]}" % (n, n, n) for n in colours)
    sources = '\n'.join("  %s_src:\n    type: wms\n    req: {url: 'http://upstream.invalid/%s?', layers: %s, transparent: true}\n    supported_srs: ['EPSG:4326']\n    image: {transparent_color_tolerance: 0}"
                        % (n, n, n) for n in colours)
    old_open = mhttp.HTTPClient.open
    mhttp.HTTPClient.open = fake_open
    try:
        for conc in (1, 2, 4):
            d = ctx.tmpdir('c15app')
            path = os.path.join(d, 'mapproxy.yaml')
            with open(path, 'w') as f:
                f.write(APP_YAML % {'conc': conc, 'mode': 'raise', 'layers': layers, 'sources': sources})
            try:
                app = TestApp(make_wsgi_app(path))
            except Exception as e:  # noqa
                ctx.problem('harness', 'request-sequence app could not be built: %r' % (e,))
                return
            seqs = [[['broken', 'slow'], ['blue', 'green']], [['slow', 'broken'], ['red', 'yellow'], ['green', 'blue']],
                    [['broken', 'red'], ['yellow', 'broken']], [['broken', 'slow'], ['slow', 'broken'], ['green', 'broken'], ['red', 'blue']]]
            for _ in range(ctx.n(3, 12)):
                seqs.append([rng.sample(sorted(colours), rng.choice([2, 2, 3])) for _ in range(rng.choice([2, 3]))])
            for seq in seqs:
                obs = []
                for req_layers in seq:
                    try:
                        r = app.get('/service?service=WMS&version=1.1.1&request=GetMap&layers=%s&styles=&srs=EPSG:4326'
                                    '&bbox=0,0,10,10&width=32&height=32&format=image/png' % ','.join(req_layers),
                                    expect_errors=True)
                        if r.content_type == 'image/png':
                            px = Image.open(io.BytesIO(r.body)).convert('RGB').getpixel((16, 16))
                            obs.append(('image', px))
                        else:
                            obs.append(('error', r.status_int))
                    except Exception as e:  # noqa
                        obs.append(('raised', type(e).__name__))
                    time.sleep(0.02)
                time.sleep(0.15)   # let stragglers of the last request finish before the next sequence
                ctx.case(('appseq', conc, tuple(map(tuple, seq))), True,
                         {'stream': 'request sequence through the WSGI app', 'concurrent_layer_renderer': conc,
                          'requests': seq, 'answers': obs})
                ctx.count('app_sequence_conc=%d' % conc)
                for req_layers, o in zip(seq, obs):
                    rep = {'concurrent_layer_renderer': conc, 'request_sequence': seq, 'answers': obs}
                    if 'broken' in req_layers:
                        # on_source_errors: raise and no layer is opaque (nothing is pruned): the failure must be reported
                        if o[0] != 'error':
                            ctx.fail('appseq,failure-swallowed-or-foreign-result', 'GetMap LAYERS=%s with a failing layer '
                                     'answered %r instead of an error document' % (req_layers, o), rep)
                    else:
                        want = colours[req_layers[-1]]      # all layers are opaque: the top one shows
                        if o != ('image', want):
                            ctx.fail('appseq,foreign-or-lost-result', 'GetMap LAYERS=%s answered %r, expected the top layer %r '
                                     '(a result of another request or layer was used, or one was lost)' % (req_layers, o, want), rep)
    finally:
        mhttp.HTTPClient.open = old_open
