"""C15, consumers of thread-pool results: the real TileCreator._create_bulk_meta_tile (mapproxy/cache/tile.py)
and LayerRenderer.render (mapproxy/service/wms.py) are driven with mock sources / layers whose outcome per
item is prescribed (ok with id, blank / None, SourceError id < 1000, RuntimeError id >= 1000) and whose
completion order is scrambled by per-item delays.  Observations are compared with PoolSync.bulk_meta /
render_raise / render_capture inside Coq; the oracle states the property directly.
"""
import threading
import time

from common import llit, olit, zlit


class Hard(Exception):
    def __init__(self, ident):
        Exception.__init__(self, 'hard %d' % ident)
        self.ident = ident


def vlit(item):
    kind, v = item
    if kind == 'ok':
        return '(Ok %s)' % zlit(v)
    if kind == 'blank':
        return '(Ok (-1))'
    return '(Exc %s)' % zlit(v)


def gen_items(rng, n, allow_fail=True):
    items = []
    for i in range(n):
        r = rng.random()
        if allow_fail and r < 0.22:
            items.append(('exc', rng.choice([100 + i, 1000 + i])))
        elif r < 0.40:
            items.append(('blank', -1))
        else:
            items.append(('ok', 10 + i))
    return items


# ---------------------------------------------------------------- _create_bulk_meta_tile

def run_bulk(items, delays, pool_size):
    """items[k] prescribes the outcome for the k-th tile of a 2x2 / 3x2 meta tile (input order of meta_tile.tiles).
    Returns (stored ids in store order, raised ident or None, returned ids)."""
    from mapproxy.cache.tile import TileManager
    from mapproxy.cache.dummy import DummyLocker
    from mapproxy.grid import tile_grid
    from mapproxy.image import ImageSource
    from mapproxy.image.opts import ImageOptions
    from mapproxy.layer import BlankImage
    from mapproxy.source import SourceError
    from PIL import Image

    n = len(items)
    grid = tile_grid(4326, bbox=[0, 0, 64, 32], res=[1, 0.5, 0.25, 0.125], tile_size=(8, 8), origin='ll')
    level = 2
    msize = (n, 1) if n <= 4 else ((n + 1) // 2, 2)

    class Src(object):
        supports_meta_tiles = False
        coverage = None
        res_range = None
        extent = None

        def get_map(self, query):
            x = int(round((query.bbox[0]) / (8 * 0.25)))
            y = int(round((query.bbox[1]) / (8 * 0.25)))
            k = order.get((x, y))
            time.sleep(delays[k])
            kind, v = items[k]
            if kind == 'blank':
                raise BlankImage()
            if kind == 'exc':
                if v >= 1000:
                    raise Hard(v)
                raise SourceError('S%d' % v)
            img = ImageSource(Image.new('RGB', (8, 8), (v, 0, 0)), image_opts=ImageOptions(format='image/png'))
            img.ident = v
            return img

    stored = []

    class Cache(object):
        supports_timestamp = False

        def is_cached(self, tile, dimensions=None):
            return False

        def load_tiles(self, tiles, with_metadata=False, dimensions=None):
            return False

        def load_tile(self, tile, with_metadata=False, dimensions=None):
            return False

        def store_tiles(self, tiles, dimensions=None):
            for t in tiles:
                stored.append(getattr(t.source, 'ident', -999))
            return True

        def store_tile(self, tile, dimensions=None):
            stored.append(getattr(tile.source, 'ident', -999))
            return True

    mgr = TileManager(grid, Cache(), [Src()], 'png', locker=DummyLocker(), image_opts=ImageOptions(format='image/png'),
                      meta_size=list(msize), meta_buffer=0, bulk_meta_tiles=True, concurrent_tile_creators=pool_size)
    meta_tile = mgr.meta_grid.meta_tile((0, 0, level))
    coords = [t for t in meta_tile.tiles if t is not None]
    if len(coords) < n:
        return None
    order = {(c[0], c[1]): k for k, c in enumerate(coords)}
    # tiles beyond n (3x2 with n=5): prescribe blank
    while len(items) < len(coords):
        items = items + [('blank', -1)]
        delays = delays + [0.0]
    raised = None
    returned = []
    try:
        tiles = mgr.creator()._create_bulk_meta_tile(meta_tile)
        returned = [getattr(t.source, 'ident', -999) for t in tiles]
    except SourceError as ex:
        raised = int(str(ex.args[0])[1:])
    except Hard as ex:
        raised = ex.ident
    return stored, raised, returned, items


# ---------------------------------------------------------------- LayerRenderer

class _Layer(object):
    coverage = None
    opacity = None

    def __init__(self, k, item, delay):
        self.k, self.item, self.delay = k, item, delay

    def combined_layer(self, other, query):
        return None

    def get_map(self, query):
        from mapproxy.source import SourceError
        time.sleep(self.delay)
        kind, v = self.item
        if kind == 'blank':
            return None
        if kind == 'exc':
            if v >= 1000:
                raise Hard(v)
            raise SourceError('S%d' % v)
        return _Img(v)


class _Img(object):
    def __init__(self, ident):
        self.ident = ident
        self.opacity = None


class _Merger(object):
    """Stands for LayerMerger: same public attributes (layers, cacheable), records what was added."""
    def __init__(self):
        self.layers = []
        self.cacheable = True
        self.lock = threading.Lock()

    @property
    def added(self):
        return [getattr(img, 'ident', -2) for img, _ in self.layers]

    def add(self, img, coverage=None):
        self.layers.append((img, coverage))


def run_render(items, delays, pool_size, raise_source_errors):
    """Returns (added ids (message image = -2), raised ident or None; RequestError 'Could not get any sources' = -1;
    in raise mode a SourceError arrives wrapped in a RequestError carrying its message)."""
    from mapproxy.service.wms import LayerRenderer
    from mapproxy.exception import RequestError
    from mapproxy.layer import MapQuery
    from mapproxy.srs import SRS
    layers = [_Layer(k, it, d) for k, (it, d) in enumerate(zip(items, delays))]
    query = MapQuery((0, 0, 10, 10), (20, 20), SRS(4326), 'png')
    merger = _Merger()
    raised = None
    try:
        LayerRenderer(layers, query, None, raise_source_errors=raise_source_errors,
                      concurrent_rendering=pool_size).render(merger)
    except RequestError as ex:
        msg = str(ex.msg if hasattr(ex, 'msg') else ex.args[0])
        if msg.startswith('Could not get any sources'):
            raised = -1
        elif msg.startswith('S'):
            raised = int(msg[1:])
        else:
            raised = -998
    except Hard as ex:
        raised = ex.ident
    return merger.added, raised


def with_timeout(fn, args, seconds=6.0):
    """Run fn(*args) in a daemon thread; returns ('ok', value) / ('raised', exc) / ('hang', None)."""
    box = {}

    def target():
        try:
            box['v'] = fn(*args)
        except BaseException as e:  # noqa
            box['e'] = e
    t = threading.Thread(target=target, daemon=True)
    t.start()
    t.join(seconds)
    if t.is_alive():
        return 'hang', None
    if 'e' in box:
        return 'raised', box['e']
    return 'ok', box['v']


# ---------------------------------------------------------------- driver

def spec_first_exc(items):
    for kind, v in items:
        if kind == 'exc':
            return v
    return None


def run(ctx):
    rng = ctx.rng
    nb = ctx.n(36, 220)
    bulk_terms, bulk_descr = [], []
    for c in range(nb):
        n = rng.choice([2, 2, 3, 4, 4, 6])
        ps = rng.choice([1, 2, 2, 3, 4, 6])
        items = gen_items(rng, n, allow_fail=(c % 3 != 0))
        delays = [rng.choice([0.0, 0.002, 0.006, 0.012]) for _ in range(n)]
        st, res = with_timeout(run_bulk, (list(items), list(delays), ps))
        if st != 'ok':
            ctx.fail('consumer=bulk_meta,' + ('hang' if st == 'hang' else 'harness-visible-exception'),
                     '_create_bulk_meta_tile did not terminate' if st == 'hang' else 'unexpected %r' % (res,),
                     {'consumer': 'TileCreator._create_bulk_meta_tile', 'concurrent_tile_creators': ps, 'tile_outcomes': items, 'delays': delays})
            continue
        if res is None:
            continue
        stored, raised, returned, items = res
        ctx.case(('bulk', ps, tuple(items), tuple(delays)), any(k != 'ok' for k, _ in items),
                 {'consumer': '_create_bulk_meta_tile', 'concurrent_tile_creators': ps, 'tiles': items,
                  'stored': stored, 'raised': raised})
        ctx.count('consumer=bulk_meta')
        rep = {'consumer': 'TileCreator._create_bulk_meta_tile', 'concurrent_tile_creators': ps, 'tile_outcomes': items,
               'delays': delays, 'stored': stored, 'raised': raised, 'returned': returned}
        fe = spec_first_exc(items)
        want = [v for k, v in items if k == 'ok']
        if fe is not None:
            if raised is None:
                ctx.fail('consumer=bulk_meta,swallowed', 'tile request %r failed but _create_bulk_meta_tile raised nothing '
                         '(stored %r)' % ([i for i in items if i[0] == 'exc'], stored), rep)
            elif raised not in [v for k, v in items if k == 'exc']:
                ctx.fail('consumer=bulk_meta,wrong-exception', 'raised %r which no tile produced' % raised, rep)
            elif stored:
                ctx.fail('consumer=bulk_meta,stored-despite-failure', 'tiles %r stored although the meta tile failed' % stored, rep)
        else:
            if raised is not None:
                ctx.fail('consumer=bulk_meta,spurious-raise', 'raised %r although no tile failed' % raised, rep)
            elif stored != want or returned != want:
                ctx.fail('consumer=bulk_meta,lost-or-reordered', 'stored %r / returned %r for tiles %r' % (stored, returned, want), rep)
        arrival = sorted(range(len(items)), key=lambda i: (delays[i], i))
        bulk_terms.append('(%d%%nat, %s, %s, (%s, %s))' % (ps, llit(items, vlit), llit(arrival, lambda a: '%d%%nat' % a),
                                                        llit(stored), olit(raised)))
        bulk_descr.append(rep)
    ctx.corr_check('bulk_meta', 'Pool PoolSync', 'nat * list val * list nat * (list Z * option Z)', bulk_terms,
                   "fun c => let '(ps, items, arr, out) := c in let r := bulk_meta ps items arr 1 in "
                   "zlist_eqb (fst r) (fst out) && oz_eqb (snd r) (snd out)", lambda i: bulk_descr[i])

    nr = ctx.n(60, 400)
    rr_terms, rr_descr, rc_terms, rc_descr = [], [], [], []
    directed = []
    for ps in (1, 3):
        for its in ([('exc', 100), ('blank', -1)], [('blank', -1), ('exc', 101)], [('blank', -1), ('exc', 101), ('blank', -1)],
                    [('exc', 100), ('exc', 101)], [('ok', 10), ('exc', 101), ('blank', -1)], [('exc', 100)], [('blank', -1)]):
            directed.append((ps, its))
    for c in range(nr + len(directed)):
        if c < len(directed):
            ps, items = directed[c]
            items = list(items)
            n = len(items)
            delays = [0.004 * ((k * 2) % n) for k in range(n)]
            raise_mode = False
        else:
            n = rng.choice([1, 2, 2, 3, 4, 5])
            ps = rng.choice([1, 2, 2, 3, 5])
            items = gen_items(rng, n, allow_fail=(c % 4 != 0))
            delays = [rng.choice([0.0, 0.002, 0.006, 0.012]) for _ in range(n)]
            raise_mode = c % 2 == 0
        st, res = with_timeout(run_render, (items, delays, ps, raise_mode))
        if st != 'ok':
            ctx.fail('consumer=render_%s,%s' % ('raise' if raise_mode else 'capture', 'hang' if st == 'hang' else 'unexpected-exception'),
                     'LayerRenderer.render did not terminate' if st == 'hang' else 'LayerRenderer.render raised %r' % (res,),
                     {'consumer': 'LayerRenderer.render', 'raise_source_errors': raise_mode, 'concurrent_rendering': ps,
                      'layer_outcomes': items, 'delays': delays})
            continue
        added, raised = res
        ctx.case(('render', raise_mode, ps, tuple(items), tuple(delays)), any(k != 'ok' for k, _ in items),
                 {'consumer': 'LayerRenderer', 'raise_source_errors': raise_mode, 'concurrent_rendering': ps,
                  'layers': items, 'added': added, 'raised': raised})
        ctx.count('consumer=render_' + ('raise' if raise_mode else 'capture'))
        rep = {'consumer': 'LayerRenderer.render', 'raise_source_errors': raise_mode, 'concurrent_rendering': ps,
               'layer_outcomes': items, 'delays': delays, 'merger_received': added, 'raised': raised}
        want = [v for k, v in items if k == 'ok']
        fe = spec_first_exc(items)
        hard = next((v for k, v in items if k == 'exc' and v >= 1000), None)
        if raise_mode:
            if fe is not None and raised is None:
                ctx.fail('consumer=render_raise,swallowed', 'layer failure %r not raised' % fe, rep)
            elif fe is None and raised is not None:
                ctx.fail('consumer=render_raise,spurious-raise', 'raised %r although no layer failed' % raised, rep)
            elif fe is None and added != want:
                ctx.fail('consumer=render_raise,lost-or-reordered', 'merger received %r for layers %r' % (added, want), rep)
            elif fe is not None and raised != fe:
                ctx.fail('consumer=render_raise,wrong-exception', 'raised %r, first failing layer is %r' % (raised, fe), rep)
        else:
            if hard is not None and raised != hard:
                ctx.fail('consumer=render_capture,swallowed', 'non-source exception %r not re-raised (raised %r)' % (hard, raised), rep)
            elif hard is None and [a for a in added if a != -2] != want:
                ctx.fail('consumer=render_capture,lost-or-reordered', 'merger received %r for layers %r' % (added, want), rep)
            elif hard is None and fe is not None and raised is None and added[-1:] != [-2]:
                # some layer failed with a SourceError, the request was answered: the failure must be visible
                ctx.fail('consumer=render_capture,source-error-swallowed', 'layer failure %r neither raised nor reported '
                         '(no message image on top; merger received %r)' % (fe, added), rep)
            elif hard is None and fe is not None and not any(k != 'exc' for k, _ in items) and raised != -1:
                ctx.fail('consumer=render_capture,source-error-swallowed', 'every layer failed but the request was answered (raised %r)' % (raised,), rep)
        arrival = sorted(range(n), key=lambda i: (delays[i], i))
        term = '(%d%%nat, %s, %s, (%s, %s))' % (min(ps, n), llit(items, vlit), llit(arrival, lambda a: '%d%%nat' % a),
                                               llit(added), olit(raised))
        (rr_terms if raise_mode else rc_terms).append(term)
        (rr_descr if raise_mode else rc_descr).append(rep)
    ctx.corr_check('render_raise', 'Pool PoolSync', 'nat * list val * list nat * (list Z * option Z)', rr_terms,
                   "fun c => let '(ps, items, arr, out) := c in let r := render_raise ps items arr 1 in "
                   "zlist_eqb (fst r) (fst out) && oz_eqb (snd r) (snd out)", lambda i: rr_descr[i])
    run_query_sources(ctx)
    run_bulk_io(ctx)
    run_create_threaded(ctx)
    run_start_faults(ctx)
    ctx.corr_check('render_capture', 'Pool PoolSync', 'nat * list val * list nat * (list Z * option Z)', rc_terms,
                   "fun c => let '(ps, items, arr, out) := c in let r := render_capture ps items arr 1 in "
                   "oz_eqb (snd r) (snd out) && match snd out with Some _ => true | None => zlist_eqb (fst (fst r)) (fst out) end",
                   lambda i: rc_descr[i])


# ---------------------------------------------------------------- TileCreator._query_sources

class _FakeMgr(object):
    def __init__(self, sources, image_opts):
        self.cache = None
        self.sources = sources
        self.grid = None
        self.meta_grid = None
        self.image_opts = image_opts


def query_sources_recorded(items, delays):
    """The real TileCreator._query_sources over len(items) mock sources (coverage of source k is an object tagged k)
    with a recording image merger.  Returns (pairs (image id, coverage tag) as handed to the merger, raised id)."""
    from mapproxy.cache.tile import TileCreator
    from mapproxy.layer import BlankImage, MapQuery
    from mapproxy.source import SourceError
    from mapproxy.srs import SRS

    class Cov(object):
        clip = False

        def __init__(self, k):
            self.k = k

    class Src(object):
        def __init__(self, k):
            self.k = k
            self.coverage = Cov(k)

        def get_map(self, query):
            time.sleep(delays[self.k])
            kind, v = items[self.k]
            if kind == 'blank':
                raise BlankImage()
            if kind == 'exc':
                if v >= 1000:
                    raise Hard(v)
                raise SourceError('S%d' % v)
            return _Img(v)

    class Rec(object):
        def __init__(self):
            self.pairs = []
            self.merged = False

        def add(self, img, coverage=None):
            self.pairs.append((getattr(img, 'ident', -999), getattr(coverage, 'k', -999)))

        def merge(self, **kw):
            self.merged = True
            return 'merged'

    rec = Rec()
    creator = TileCreator(_FakeMgr([Src(k) for k in range(len(items))], None), image_merger=rec)
    query = MapQuery((0, 0, 10, 10), (20, 20), SRS(4326), 'png')
    raised = None
    try:
        creator._query_sources(query)
    except SourceError as ex:
        raised = int(str(ex.args[0])[1:])
    except Hard as ex:
        raised = ex.ident
    return rec.pairs, raised


def query_sources_pixels(items, delays):
    """The same with the real LayerMerger: source k delivers a full-size image of colour k and has the clipping
    coverage 'vertical strip k'.  Returns the colour found in the middle of every strip (None = transparent)."""
    from mapproxy.cache.tile import TileCreator
    from mapproxy.image import ImageSource
    from mapproxy.image.opts import ImageOptions
    from mapproxy.layer import BlankImage, MapQuery
    from mapproxy.srs import SRS
    from mapproxy.util.coverage import BBOXCoverage
    from PIL import Image
    n = len(items)
    opts = ImageOptions(format='image/png', transparent=True)

    class Src(object):
        def __init__(self, k):
            self.k = k
            self.coverage = BBOXCoverage((10.0 * k, 0, 10.0 * (k + 1), 10), SRS(4326), clip=True)

        def get_map(self, query):
            time.sleep(delays[self.k])
            kind, v = items[self.k]
            if kind == 'blank':
                raise BlankImage()
            return ImageSource(Image.new('RGBA', query.size, (40 * (self.k + 1), v, 0, 255)), image_opts=opts)

    creator = TileCreator(_FakeMgr([Src(k) for k in range(n)], opts))
    query = MapQuery((0, 0, 10.0 * n, 10), (20 * n, 20), SRS(4326), 'png')
    img = creator._query_sources(query)
    if img is None:
        return [None] * n
    im = img.as_image().convert('RGBA')
    out = []
    for k in range(n):
        px = im.getpixel((20 * k + 10, 10))
        out.append(None if px[3] == 0 else px[:3])
    return out


def run_query_sources(ctx):
    rng = ctx.rng
    terms, descr = [], []
    cases = []
    for its in ([('blank', -1), ('ok', 11)], [('blank', -1), ('ok', 11), ('ok', 12)], [('ok', 10), ('blank', -1), ('ok', 12)],
                [('blank', -1), ('blank', -1), ('ok', 12), ('ok', 13)], [('ok', 10)], [('blank', -1)], [('exc', 100)],
                [('ok', 10), ('exc', 101), ('ok', 12)]):
        n = len(its)
        cases.append((list(its), [0.004 * ((k * 2 + 1) % n) for k in range(n)]))
    for c in range(ctx.n(30, 200)):
        n = rng.choice([1, 2, 3, 3, 4, 6])
        items = gen_items(rng, n, allow_fail=False)
        if c % 3 == 0:       # at most one failing source: which exception is raised does then not depend on the order
            items[rng.randrange(n)] = ('exc', rng.choice([100, 1000]) + rng.randrange(50))
        cases.append((items, [rng.choice([0.0, 0.002, 0.006, 0.012]) for _ in range(n)]))
    for items, delays in cases:
        st, res = with_timeout(query_sources_recorded, (items, delays))
        rep = {'consumer': 'TileCreator._query_sources', 'source_outcomes': items, 'delays': delays}
        if st != 'ok':
            ctx.fail('consumer=query_sources,' + ('hang' if st == 'hang' else 'unexpected-exception'),
                     '_query_sources did not terminate' if st == 'hang' else '_query_sources raised %r' % (res,), rep)
            continue
        pairs, raised = res
        rep.update({'merger_received (image, coverage of source)': pairs, 'raised': raised})
        ctx.case(('query_sources', tuple(items), tuple(delays)), len(items) > 1, rep)
        ctx.count('consumer=query_sources')
        fe = spec_first_exc(items)
        want = [(v, k) for k, (kind, v) in enumerate(items) if kind == 'ok']
        if fe is not None:
            if raised is None:
                ctx.fail('consumer=query_sources,swallowed', 'source failure %r not raised' % fe, rep)
            elif raised != fe:
                ctx.fail('consumer=query_sources,wrong-exception', 'raised %r, the failing source raised %r' % (raised, fe), rep)
        elif raised is not None:
            ctx.fail('consumer=query_sources,spurious-raise', 'raised %r although no source failed' % raised, rep)
        elif any(k != i for i, k in pairs if (i, k) not in want) or pairs != want:
            bad = [p_ for p_ in pairs if p_ not in want]
            ctx.fail('consumer=query_sources,' + ('foreign-coverage' if bad else 'lost-or-reordered'),
                     'merger received %r, expected each image with the coverage of its own source in source order: %r' % (pairs, want), rep)
        arrival = sorted(range(len(items)), key=lambda i: (delays[i], i))
        terms.append('(%s, %s, (%s, %s))' % (llit(items, vlit), llit(arrival, lambda a: '%d%%nat' % a),
                                             llit(pairs, lambda p_: '(%s, %d%%nat)' % (zlit(p_[0]), p_[1])), olit(raised)))
        descr.append(rep)
        if fe is None and len(items) > 1 and any(k == 'ok' for k, _ in items):
            st, px = with_timeout(query_sources_pixels, (items, delays))
            if st != 'ok':
                ctx.problem('harness', 'query_sources_pixels: %s %r' % (st, px))
                continue
            wantpx = [((40 * (k + 1), v, 0) if kind == 'ok' else None) for k, (kind, v) in enumerate(items)]
            ctx.count('consumer=query_sources_pixels')
            if px != wantpx:
                ctx.fail('consumer=query_sources,foreign-coverage', 'merged image: strip colours %r, expected %r (an image was '
                         'clipped with the coverage of another source, lost or misplaced)' % (px, wantpx),
                         dict(rep, strips=px, expected_strips=wantpx))
    ctx.corr_check('query_sources', 'Pool PoolSync', 'list val * list nat * (list (Z * nat) * option Z)', terms,
                   "fun c => let '(items, arr, out) := c in let r := query_sources items arr 1 in "
                   "pairs_eqb (fst r) (fst out) && oz_eqb (snd r) (snd out)", lambda i: descr[i])


# ---------------------------------------------------------------- TileCreator._create_single_tiles / _create_meta_tiles

def create_threaded_run(which, items, delays, conc):
    """The real TileCreator._create_single_tiles / _create_meta_tiles (non-bulk) with the per-item creator replaced:
    creator k returns [tile k] / [] or raises.  Returns (ids of the tiles returned, raised id)."""
    from mapproxy.cache.tile import TileCreator
    from mapproxy.source import SourceError

    class T(object):
        def __init__(self, k):
            self.k = k
            self.coord = (k, 0, 3)

    def create(self, tile, dimensions=None):
        k = tile.k
        time.sleep(delays[k])
        kind, v = items[k]
        if kind == 'blank':
            return []
        if kind == 'exc':
            if v >= 1000:
                raise Hard(v)
            raise SourceError('S%d' % v)
        t = T(k)
        t.ident = v
        return [t]

    class Creator(TileCreator):
        _create_single_tile = create
        _create_meta_tile = create

    mgr = _FakeMgr([], None)
    mgr.concurrent_tile_creators = conc
    creator = Creator(mgr)
    tiles = [T(k) for k in range(len(items))]
    raised, out = None, []
    try:
        res = creator._create_single_tiles(tiles) if which == 'single' else creator._create_meta_tiles(tiles)
        out = [t.ident for t in res]
    except SourceError as ex:
        raised = int(str(ex.args[0])[1:])
    except Hard as ex:
        raised = ex.ident
    return out, raised


def run_create_threaded(ctx):
    rng = ctx.rng
    cases = []
    for conc in (1, 3):
        for its in ([('exc', 100), ('ok', 11), ('ok', 12)], [('ok', 10), ('exc', 101), ('ok', 12)], [('ok', 10), ('ok', 11), ('exc', 102)],
                    [('exc', 1000), ('ok', 11)], [('ok', 10), ('blank', -1), ('ok', 12)], [('exc', 100)]):
            n = len(its)
            cases.append(('single' if conc == 1 else 'meta', conc, list(its), [0.004 * ((k * 2 + 1) % n) for k in range(n)]))
            cases.append(('meta' if conc == 1 else 'single', conc, list(its), [0.004 * (n - k) for k in range(n)]))
    for c in range(ctx.n(24, 160)):
        n = rng.choice([1, 2, 3, 4, 6])
        items = gen_items(rng, n, allow_fail=False)
        if c % 2 == 0:      # at most one failing creator: the raised exception then does not depend on the order
            items[rng.randrange(n)] = ('exc', rng.choice([100, 1000]) + rng.randrange(50))
        cases.append((rng.choice(['single', 'meta']), rng.choice([1, 2, 3, 6]), items,
                      [rng.choice([0.0, 0.002, 0.006, 0.012]) for _ in range(n)]))
    terms, descr = [], []
    for which, conc, items, delays in cases:
        st, res = with_timeout(create_threaded_run, (which, items, delays, conc))
        rep = {'consumer': 'TileCreator._create_%s_tiles' % which, 'concurrent_tile_creators': conc, 'creator_outcomes': items, 'delays': delays}
        if st != 'ok':
            ctx.fail('consumer=create_threaded,' + ('hang' if st == 'hang' else 'unexpected-exception'),
                     'did not terminate' if st == 'hang' else 'raised %r' % (res,), rep)
            continue
        out, raised = res
        rep.update({'returned': out, 'raised': raised})
        ctx.case(('create_threaded', which, conc, tuple(items), tuple(delays)), len(items) > 1, rep)
        ctx.count('consumer=create_threaded')
        fe = spec_first_exc(items)
        want = [v for k, v in items if k == 'ok']
        if fe is not None:
            if raised is None:
                ctx.fail('consumer=create_threaded,swallowed', 'creator failure %r not raised (returned %r)' % (fe, out), rep)
            elif raised != fe:
                ctx.fail('consumer=create_threaded,wrong-exception', 'raised %r, the failing creator raised %r' % (raised, fe), rep)
        elif raised is not None:
            ctx.fail('consumer=create_threaded,spurious-raise', 'raised %r although no creator failed' % raised, rep)
        elif out != want:
            ctx.fail('consumer=create_threaded,lost-or-reordered', 'returned %r, expected %r' % (out, want), rep)
        arrival = sorted(range(len(items)), key=lambda i: (delays[i], i))
        terms.append('(%d%%nat, %s, %s, (%s, %s))' % (conc, llit(items, vlit), llit(arrival, lambda a: '%d%%nat' % a),
                                                      llit(out), olit(raised)))
        descr.append(rep)
    ctx.corr_check('create_threaded', 'Pool PoolSync', 'nat * list val * list nat * (list Z * option Z)', terms,
                   "fun c => let '(ps, items, arr, out) := c in let r := create_threaded ps items arr 1 in "
                   "zlist_eqb (fst r) (fst out) && oz_eqb (snd r) (snd out)", lambda i: descr[i])


# ---------------------------------------------------------------- thread-start faults

def start_fault_run(pool_size, uro, items, fail_at):
    """ThreadPool(pool_size).imap over items while the (fail_at+1)-th ThreadWorker.start() of this call raises
    RuntimeError (what CPython raises at the thread limit).  Returns (yielded codes, raised code)."""
    import mapproxy.util.async_ as A
    count = [0]
    orig = A.ThreadWorker.start

    def start(self):
        k = count[0]
        count[0] += 1
        if fail_at is not None and k == fail_at:
            raise RuntimeError("can't start new thread")
        return orig(self)

    def work(i):
        kind, v = items[i]
        if kind == 'exc':
            raise Hard(v)
        return None if kind == 'blank' else v

    A.ThreadWorker.start = start
    out, raised = [], None
    try:
        for r in A.ThreadPool(pool_size).imap(work, list(range(len(items))), use_result_objects=uro):
            if uro:
                if r.exception is not None:
                    out.append(('exc', r.exception[1].ident))
                else:
                    out.append(('blank', -1) if r.result is None else ('ok', r.result))
            else:
                out.append(('blank', -1) if r is None else ('ok', r))
    except Hard as ex:
        raised = ex.ident
    except RuntimeError:
        raised = 9999
    finally:
        A.ThreadWorker.start = orig
    return out, raised


def run_start_faults(ctx):
    rng = ctx.rng
    cases = []
    for ps in (2, 3):
        for k in range(ps + 1):
            cases.append((ps, True, [('ok', 10), ('ok', 11), ('ok', 12)], k))
            cases.append((ps, False, [('ok', 10), ('blank', -1)], k))
    cases += [(1, False, [('ok', 10), ('ok', 11)], 0), (4, True, [('ok', 10)], 0), (2, True, [('ok', 10), ('exc', 1001)], None)]
    for c in range(ctx.n(10, 60)):
        n = rng.choice([1, 2, 3, 5])
        ps = rng.choice([1, 2, 3, 4])
        uro = rng.random() < 0.5
        items = gen_items(rng, n, allow_fail=False)
        if uro and rng.random() < 0.4:
            items[rng.randrange(n)] = ('exc', 1000 + rng.randrange(50))
        cases.append((ps, uro, items, rng.choice([None, 0, 0, 1, 2, 5])))
    terms, descr = [], []
    for ps, uro, items, fail_at in cases:
        st, res = with_timeout(start_fault_run, (ps, uro, items, fail_at), seconds=5.0)
        rep = {'call': 'ThreadPool(%d).imap(..., use_result_objects=%r)' % (ps, uro), 'items': items,
               'fault': None if fail_at is None else 'Thread.start() call number %d raises RuntimeError' % (fail_at + 1)}
        # the hook is restored by the worker thread only when it finishes: make sure it is gone after a hang
        import mapproxy.util.async_ as A
        if st == 'hang':
            A.ThreadWorker.start = threading.Thread.start
            ctx.fail('start-fault,hang', 'the call did not return within 5 s: the consumer waits for results although '
                     'no worker thread could be started', rep)
            continue
        if st != 'ok':
            ctx.fail('start-fault,unexpected-exception', 'raised %r' % (res,), rep)
            continue
        out, raised = res
        rep.update({'yielded': out, 'raised': raised})
        ctx.case(('start_fault', ps, uro, tuple(items), fail_at), fail_at is not None, rep)
        ctx.count('start_fault')
        pool = ps >= 2 and len(items) >= 2
        if raised is None and out != list(items):
            ctx.fail('start-fault,lost-or-reordered', 'the call returned normally with %r for items %r' % (out, items), rep)
        if raised == 9999 and not (pool and fail_at is not None and fail_at < ps):
            ctx.fail('start-fault,spurious', 'RuntimeError although no thread start failed', rep)
        terms.append('(%d%%nat, %s, %s, %s, (%s, %s))' % (ps, 'true' if uro else 'false', llit(items, vlit),
                                                         'None' if fail_at is None else 'Some %d%%nat' % fail_at,
                                                         llit(out, vlit), olit(raised)))
        descr.append(rep)
    ctx.corr_check('start_fault', 'Pool PoolSync', 'nat * bool * list val * option nat * (list val * option Z)', terms,
                   "fun c => let '(ps, uro, items, fa, out) := c in "
                   "result_eqb (imap_start ps uro items (seq 0 (List.length items)) 1 fa) out", lambda i: descr[i])


# ---------------------------------------------------------------- bulk loads / stores of the S3 and Azure caches

def bulk_io_run(backend, op, items, delays, conc):
    """S3Cache / AzureBlobCache.load_tiles / store_tiles with the per-tile call replaced by a fake bucket access
    (no boto3 / azure needed: __init__ is skipped).  Returns (return value, calls finished AT RETURN, raised id)."""
    from mapproxy.cache.tile import TileCollection
    if backend == 's3':
        from mapproxy.cache.s3 import S3Cache as Base
    else:
        from mapproxy.cache.azureblob import AzureBlobCache as Base
    finished = []

    def access(tile):
        k = tile.coord[0]
        time.sleep(delays[k])
        kind, v = items[k]
        if kind == 'exc':
            finished.append(k)
            raise Hard(v)
        if kind == 'ok':
            tile.source = 'image-%d' % v
        finished.append(k)
        return kind == 'ok'

    class Fake(Base):
        def __init__(self):
            self.coverage = None
            self._concurrent_writer = conc
            self._concurrent_reader = conc

        def load_tile(self, tile, with_metadata=True, dimensions=None):
            return access(tile)

        def store_tile(self, tile, dimensions=None):
            return access(tile)

    tiles = TileCollection([(k, 0, 5) for k in range(len(items))])
    cache = Fake()
    raised, ret = None, None
    try:
        ret = cache.load_tiles(tiles) if op == 'load' else cache.store_tiles(tiles)
    except Hard as ex:
        raised = ex.ident
    at_return = len(finished)
    loaded = [t.source for t in tiles]
    time.sleep(max(delays) * 1.5)
    return ret, at_return, raised, loaded


def run_bulk_io(ctx):
    rng = ctx.rng
    cases = []
    for backend in ('s3', 'azure'):
        for op in ('load', 'store'):
            cases.append((backend, op, 4, [('blank', -1), ('ok', 11), ('ok', 12), ('ok', 13)], [0.0, 0.03, 0.03, 0.03]))
            cases.append((backend, op, 2, [('ok', 10), ('blank', -1), ('ok', 12)], [0.03, 0.0, 0.03]))
    for c in range(ctx.n(16, 120)):
        n = rng.choice([1, 2, 3, 4, 6])
        items = gen_items(rng, n, allow_fail=False)
        if c % 4 == 0:
            items[rng.randrange(n)] = ('exc', 1000 + rng.randrange(50))
        cases.append((rng.choice(['s3', 'azure']), rng.choice(['load', 'store']), rng.choice([1, 2, 4]), items,
                      [rng.choice([0.0, 0.004, 0.012, 0.03]) for _ in range(n)]))
    terms, descr = [], []
    for backend, op, conc, items, delays in cases:
        st, res = with_timeout(bulk_io_run, (backend, op, items, delays, conc))
        rep = {'consumer': '%s cache %s_tiles' % (backend, op), 'concurrency': conc, 'tile_outcomes': items, 'delays': delays}
        if st != 'ok':
            ctx.fail('consumer=bulk_io,' + ('hang' if st == 'hang' else 'unexpected-exception'),
                     '%s_tiles did not terminate' % op if st == 'hang' else '%s_tiles raised %r' % (op, res), rep)
            continue
        ret, at_return, raised, loaded = res
        rep.update({'returned': ret, 'calls_finished_at_return': at_return, 'raised': raised, 'tile_sources_afterwards': loaded})
        ctx.case(('bulk_io', backend, op, conc, tuple(items), tuple(delays)), len(items) > 1, rep)
        ctx.count('consumer=bulk_io_%s_%s' % (backend, op))
        fe = spec_first_exc(items)
        n = len(items)
        if fe is not None:
            if raised != fe:
                ctx.fail('consumer=bulk_io,swallowed', 'a tile access failed with %r, the call raised %r' % (fe, raised), rep)
            continue
        if raised is not None:
            ctx.fail('consumer=bulk_io,spurious-raise', 'raised %r although nothing failed' % raised, rep)
            continue
        if at_return != n:
            ctx.fail('consumer=bulk_io,returned-before-all-results', '%s_tiles returned when %d of %d tile accesses had finished'
                     % (op, at_return, n), rep)
        if op == 'load' and bool(ret) != all(k == 'ok' for k, _ in items):
            ctx.fail('consumer=bulk_io,wrong-result', 'load_tiles returned %r for outcomes %r' % (ret, items), rep)
        ps = min(4, n) if (backend, op) == ('s3', 'load') else min(conc, n)
        arrival = sorted(range(n), key=lambda i: (delays[i], i))
        okall = all(k == 'ok' for k, _ in items) if op == 'load' else None
        terms.append('(%d%%nat, %s, %s, (%s, %d%%nat))' % (ps, llit(items, vlit), llit(arrival, lambda a: '%d%%nat' % a),
                                                          'None' if okall is None else ('Some true' if ret else 'Some false'), at_return))
        descr.append(rep)
    ctx.corr_check('bulk_io', 'Pool PoolSync', 'nat * list val * list nat * (option bool * nat)', terms,
                   "fun c => let '(ps, items, arr, out) := c in let r := bulk_io ps items arr 1 in "
                   "match snd r with Some _ => false | None => Nat.eqb (snd (fst r)) (snd out) && "
                   "match fst out with Some b => Bool.eqb b (fst (fst r)) | None => true end end", lambda i: descr[i])


# ---------------------------------------------------------------- sequences of requests through the real WSGI app

APP_YAML = """
services:
  wms:
    concurrent_layer_renderer: %(conc)d
    on_source_errors: %(mode)s
    md: {title: c15}
layers:
%(layers)s
sources:
%(sources)s
globals:
  http: {client_timeout: 5}
"""


def run_app_sequences(ctx):
    """Every request must be composed of ITS OWN layer results: nothing of an earlier (possibly failed) request
    may reach a later one (the pool and its queues belong to one map_each call).  Real WSGI app, direct WMS
    layers, an upstream whose answer colour, delay and failure are chosen per layer."""
    import io
    import os
    from PIL import Image
    try:
        from webtest import TestApp
        from mapproxy.wsgiapp import make_wsgi_app
        import mapproxy.client.http as mhttp
    except Exception as e:  # noqa
        ctx.problem('harness', 'cannot import the application for the request-sequence stream: %r' % (e,))
        return
    rng = ctx.rng
    colours = {'red': (255, 0, 0), 'green': (0, 255, 0), 'blue': (0, 0, 255), 'yellow': (255, 255, 0),
               'slow': (255, 0, 255), 'broken': None}
    delays = {'red': 0.0, 'green': 0.01, 'blue': 0.03, 'yellow': 0.0, 'slow': 0.12, 'broken': 0.0}

    def png(rgb):
        b = io.BytesIO()
        Image.new('RGB', (32, 32), rgb).save(b, 'png')
        return b.getvalue()

    class Resp(io.BytesIO):
        def __init__(self, data):
            io.BytesIO.__init__(self, data)
            self.headers = {'Content-type': 'image/png'}
            self.code = 200

    def fake_open(self, url, data=None, method=None):
        import re
        import urllib.parse
        q = urllib.parse.parse_qs(urllib.parse.urlparse(url).query)
        name = (q.get('layers') or q.get('LAYERS') or ['?'])[0]
        time.sleep(delays.get(name, 0))
        if colours.get(name) is None:
            raise mhttp.HTTPClientError('upstream down', response_code=500)
        return Resp(png(colours[name]))

    layers = '\n'.join("  - {name: %s, title: %s, sources: [%s_src]}" % (n, n, n) for n in colours)
    sources = '\n'.join("  %s_src:\n    type: wms\n    req: {url: 'http://upstream.invalid/%s?', layers: %s, transparent: true}\n    supported_srs: ['EPSG:4326']\n    image: {transparent_color_tolerance: 0}"
                        % (n, n, n) for n in colours)
    old_open = mhttp.HTTPClient.open
    mhttp.HTTPClient.open = fake_open
    try:
        for conc in (1, 2, 4):
            d = ctx.tmpdir('c15app')
            path = os.path.join(d, 'mapproxy.yaml')
            with open(path, 'w') as f:
                f.write(APP_YAML % {'conc': conc, 'mode': 'raise', 'layers': layers, 'sources': sources})
            try:
                app = TestApp(make_wsgi_app(path))
            except Exception as e:  # noqa
                ctx.problem('harness', 'request-sequence app could not be built: %r' % (e,))
                return
            seqs = [[['broken', 'slow'], ['blue', 'green']], [['slow', 'broken'], ['red', 'yellow'], ['green', 'blue']],
                    [['broken', 'red'], ['yellow', 'broken']], [['broken', 'slow'], ['slow', 'broken'], ['green', 'broken'], ['red', 'blue']]]
            for _ in range(ctx.n(3, 12)):
                seqs.append([rng.sample(sorted(colours), rng.choice([2, 2, 3])) for _ in range(rng.choice([2, 3]))])
            for seq in seqs:
                obs = []
                for req_layers in seq:
                    try:
                        r = app.get('/service?service=WMS&version=1.1.1&request=GetMap&layers=%s&styles=&srs=EPSG:4326'
                                    '&bbox=0,0,10,10&width=32&height=32&format=image/png' % ','.join(req_layers),
                                    expect_errors=True)
                        if r.content_type == 'image/png':
                            px = Image.open(io.BytesIO(r.body)).convert('RGB').getpixel((16, 16))
                            obs.append(('image', px))
                        else:
                            obs.append(('error', r.status_int))
                    except Exception as e:  # noqa
                        obs.append(('raised', type(e).__name__))
                    time.sleep(0.02)
                time.sleep(0.15)   # let stragglers of the last request finish before the next sequence
                ctx.case(('appseq', conc, tuple(map(tuple, seq))), True,
                         {'stream': 'request sequence through the WSGI app', 'concurrent_layer_renderer': conc,
                          'requests': seq, 'answers': obs})
                ctx.count('app_sequence_conc=%d' % conc)
                for req_layers, o in zip(seq, obs):
                    rep = {'concurrent_layer_renderer': conc, 'request_sequence': seq, 'answers': obs}
                    if 'broken' in req_layers:
                        # on_source_errors: raise and no layer is opaque (nothing is pruned): the failure must be reported
                        if o[0] != 'error':
                            ctx.fail('appseq,failure-swallowed-or-foreign-result', 'GetMap LAYERS=%s with a failing layer '
                                     'answered %r instead of an error document' % (req_layers, o), rep)
                    else:
                        want = colours[req_layers[-1]]      # all layers are opaque: the top one shows
                        if o != ('image', want):
                            ctx.fail('appseq,foreign-or-lost-result', 'GetMap LAYERS=%s answered %r, expected the top layer %r '
                                     '(a result of another request or layer was used, or one was lost)' % (req_layers, o, want), rep)
    finally:
        mhttp.HTTPClient.open = old_open
